(* C09: condition specs mean exactly what the equivalent DSL expression means.
   The model of ConditionLike.from_spec (Spec.v), run on the canonical spec spelling of a typed
   DSL leaf / tree (SpecSpell.v), yields the very condition the DSL constructors build
   (Tie.v / C02Proof.v), with every argument a literal.  Letter case and the documented
   aliases of the key tokens are immaterial.
   Facts about the generated tables T / X are closed by computation. *)
From Coq Require Import ZArith NArith List Bool String Ascii Lia.
From Valida Require Import Py Lang Defs Cond Dsl Check DocSem Path Cast Str SpecDefs RuleDefs RuleTerms
  Spec SpecSpell Inst RunSpec.
From Valida.Proofs Require Import PyFacts Tie C01Proof C02Proof RuleProof.
From Valida Require Import Rule SpecSpell.   (* `plain` is SpecSpell's, not RuleProof's *)
Import ListNotations.
Local Open Scope string_scope.
Local Open Scope list_scope.

(* ================================================================== *)
(* 0. the parser, one level at a time                                   *)

Notation pfs := (path_from_spec T X).
Notation self1 f := (cond_from_spec T X arg1 ALit (APath 0%N) inert0 (path_from_spec T X) f).
Notation step1 s := (cond_from_spec_step T X arg1 ALit (APath 0%N) inert0 (path_from_spec T X) s).
Notation pleaf := (parse_leaf T X arg1 ALit (APath 0%N) inert0 (path_from_spec T X)).
Notation dispatch1 := (dispatch arg1 ALit (APath 0%N) inert0).
Notation cmapL := (cond_map pyval arg1 ALit).
Notation lmapL := (leaf_map pyval arg1 ALit).
Notation kmapL := (kmap pyval arg1 ALit).

Lemma self1_S f spec : self1 (S f) spec = step1 (self1 f) spec.
Proof. reflexivity. Qed.

Lemma cond1_unfold spec : cond1_from_spec T X spec = self1 40 spec.
Proof. reflexivity. Qed.

Lemma step1_leaf s k v :
  assoc_str k (sx_binops X) = None -> step1 s (VDict [(VStr k, v)]) = pleaf k v.
Proof.
  intros H. unfold cond_from_spec_step. cbn [py_truthy negb]. rewrite H. reflexivity.
Qed.

Lemma step1_null s : step1 s (VDict []) = Ok (DNull, CNull).
Proof. reflexivity. Qed.

(* ------------------------------------------------------------------ *)
(* parse_leaf = a closed computation on the key tokens, then the part that looks at the value *)

Definition look (l : list (string * string)) (p : string) : string :=
  match assoc_str p l with Some q => q | None => p end.

Definition conv (b : bool) (v : pyval) : res pyval := if b then convert_types X v else Ok v.

Definition is_none (v : pyval) : bool := match v with VNone => true | _ => false end.

(* the part of parse_leaf after the class, the callable and the constructor are known *)
Definition leaf_tail (k : cclass) (call : string) (ct : ctor) (v2 : pyval) : res (dslc arg1 * cond arg1) :=
  let* cv := coerce pfs v2 in
  let* (pos, kw) := dispatch1 ct cv (is_none v2) in
  let* l := build_leaf T ALit (k_name k) call pos kw in
  Ok (DLeaf (k_name k) call pos kw, CLeaf l).

Inductive head :=
| HBad                                            (* malformed before the value is looked at *)
| HBad1 (conv1 : bool) (e : exc)                  (* no such pre-processor on the class *)
| HBad2 (conv1 conv2 : bool)                      (* no such constructor on the class *)
| HGood (k : cclass) (conv1 : bool) (call : string) (conv2 : bool) (ct : ctor).

Definition head_of (toks : list string) : head :=
  let n := List.length toks in
  let t0 := hd "" toks in
  let tl := last toks "" in
  match assoc_str t0 (sx_datum_types X) with
  | None => HBad
  | Some cls_name =>
      if negb ((n =? 2)%nat || (n =? 3)%nat)
         || ((n =? 2)%nat && existsb (fun p => String.eqb (fst p) tl) (sx_preproc_lookup X))
      then HBad
      else
        match find_class (t_classes T) cls_name with
        | None => HBad
        | Some k0 =>
            let pre := look (sx_preproc_lookup X) (nth 1 toks "") in
            let conv1 := (n =? 3)%nat && String.eqb pre "dtype" in
            match (if (n =? 3)%nat then class_pre T k0 pre else Ok k0) with
            | Err e => HBad1 conv1 e
            | Ok k =>
                let call0 := look (sx_callable_lookup X) tl in
                let call := match assoc_str call0 (dsl_names T) with Some c => c | None => "" end in
                let conv2 := String.eqb call "is_instance" || String.eqb call "keys_is_instance" in
                match find_ctor T k call with
                | None => HBad2 conv1 conv2
                | Some ct => HGood k conv1 call conv2 ct
                end
            end
        end
  end.

Definition run_head (h : head) (v : pyval) : res (dslc arg1 * cond arg1) :=
  match h with
  | HBad => Err MalformedCond
  | HBad1 c1 e => let* _ := conv c1 v in Err e
  | HBad2 c1 c2 => let* v1 := conv c1 v in let* _ := conv c2 v1 in Err MalformedCond
  | HGood k c1 call c2 ct => let* v1 := conv c1 v in let* v2 := conv c2 v1 in leaf_tail k call ct v2
  end.

Lemma parse_leaf_head key v : pleaf key v = run_head (head_of (lower_tokens key)) v.
Proof.
  unfold parse_leaf, head_of. generalize (lower_tokens key) as toks. intros toks.
  cbv zeta.
  destruct (assoc_str (hd "" toks) (sx_datum_types X)) as [cls_name|]; [|reflexivity].
  match goal with |- (if ?c then _ else _) = _ => destruct c end; [reflexivity|].
  destruct (find_class (t_classes T) cls_name) as [k0|]; [|reflexivity].
  fold (look (sx_preproc_lookup X) (nth 1 toks "")).
  fold (look (sx_callable_lookup X) (last toks "")).
  set (pre := look (sx_preproc_lookup X) (nth 1 toks "")).
  set (call0 := look (sx_callable_lookup X) (last toks "")).
  set (call := match assoc_str call0 (dsl_names T) with Some c => c | None => "" end).
  set (c2 := String.eqb call "is_instance" || String.eqb call "keys_is_instance").
  destruct (List.length toks =? 3)%nat; cbn [andb].
  - destruct (class_pre T k0 pre) as [k|e].
    + destruct (find_ctor T k call) as [ct|] eqn:Ec; destruct (String.eqb pre "dtype"); destruct c2;
        cbn [run_head conv bind]; rewrite ?Ec; try reflexivity;
        repeat (match goal with |- context [convert_types X ?a] => destruct (convert_types X a) end;
                cbn [bind]; rewrite ?Ec);
        reflexivity.
    + destruct (String.eqb pre "dtype"); cbn [run_head conv bind]; try reflexivity;
        destruct (convert_types X v) as [v1|e1]; reflexivity.
  - cbn [bind].
    destruct (find_ctor T k0 call) as [ct|]; destruct c2; cbn [run_head conv bind]; try reflexivity;
      destruct (convert_types X v) as [v1|e1]; reflexivity.
Qed.

(* a one-key mapping whose key is not an operator is a leaf spec *)
Lemma cond1_leaf k v :
  assoc_str k (sx_binops X) = None ->
  cond1_from_spec T X (VDict [(VStr k, v)]) = run_head (head_of (lower_tokens k)) v.
Proof.
  intros H. rewrite cond1_unfold, (self1_S 39), step1_leaf by exact H. apply parse_leaf_head.
Qed.

(* ================================================================== *)
(* 3. letter case, aliases, type names (ARBITRARY argument values)      *)

Theorem C09_case : forall k k' v,
  lower_tokens k = lower_tokens k' ->
  assoc_str k (sx_binops X) = None -> assoc_str k' (sx_binops X) = None ->
  cond1_from_spec T X (VDict [(VStr k, v)]) = cond1_from_spec T X (VDict [(VStr k', v)]).
Proof.
  intros k k' v Ht Hk Hk'. rewrite !cond1_leaf by assumption. rewrite Ht. reflexivity.
Qed.

(* the key tokens with the two alias tables applied; keys of the wrong length are all alike *)
Definition canon_tokens (toks : list string) : list string :=
  match toks with
  | [d; m] => [d; look (sx_callable_lookup X) m]
  | [d; p; m] => [d; look (sx_preproc_lookup X) p; look (sx_callable_lookup X) m]
  | _ => []
  end.

Lemma assoc_str_In {Y} k (l : list (string * Y)) q : assoc_str k l = Some q -> In (k, q) l.
Proof.
  induction l as [|[a x] l IH]; cbn [assoc_str]; [discriminate|].
  destruct (String.eqb a k) eqn:E.
  - apply String.eqb_eq in E. subst a. intros [= ->]. left. reflexivity.
  - intros H. right. exact (IH H).
Qed.

Lemma look_idem l :
  forallb (fun kv => String.eqb (look l (snd kv)) (snd kv)) l = true ->
  forall p, look l (look l p) = look l p.
Proof.
  intros H p. unfold look at 2 3. destruct (assoc_str p l) as [q|] eqn:E.
  - apply assoc_str_In in E. rewrite forallb_forall in H. specialize (H _ E).
    cbn [snd] in H. apply String.eqb_eq in H. exact H.
  - unfold look. rewrite E. reflexivity.
Qed.

Lemma look_pre_idem p : look (sx_preproc_lookup X) (look (sx_preproc_lookup X) p) = look (sx_preproc_lookup X) p.
Proof. apply look_idem. vm_compute. reflexivity. Qed.

Lemma look_call_idem p : look (sx_callable_lookup X) (look (sx_callable_lookup X) p) = look (sx_callable_lookup X) p.
Proof. apply look_idem. vm_compute. reflexivity. Qed.

Definition is_pre_token (m : string) : bool := existsb (fun p => String.eqb (fst p) m) (sx_preproc_lookup X).

Lemma is_pre_token_look m : is_pre_token (look (sx_callable_lookup X) m) = is_pre_token m.
Proof.
  unfold look. destruct (assoc_str m (sx_callable_lookup X)) as [q|] eqn:E; [|reflexivity].
  apply assoc_str_In in E.
  assert (H : forallb (fun kv => Bool.eqb (is_pre_token (snd kv)) (is_pre_token (fst kv))) (sx_callable_lookup X) = true)
    by (vm_compute; reflexivity).
  rewrite forallb_forall in H. specialize (H _ E). cbn [fst snd] in H. apply Bool.eqb_prop in H. exact H.
Qed.

Lemma head_of_nil : head_of [] = HBad.
Proof. vm_compute. reflexivity. Qed.

Lemma head_of_canon toks : head_of toks = head_of (canon_tokens toks).
Proof.
  destruct toks as [|d [|m [|m2 [|x r]]]]; cbn [canon_tokens]; try reflexivity.
  - rewrite head_of_nil. unfold head_of. cbn [List.length hd Nat.eqb negb orb].
    destruct (assoc_str d (sx_datum_types X)); reflexivity.
  - unfold head_of. cbn [List.length hd last nth Nat.eqb negb orb andb].
    fold (is_pre_token m). fold (is_pre_token (look (sx_callable_lookup X) m)).
    rewrite is_pre_token_look, look_call_idem. reflexivity.
  - unfold head_of. cbn [List.length hd last nth Nat.eqb negb orb andb].
    rewrite look_pre_idem, look_call_idem. reflexivity.
  - rewrite head_of_nil. unfold head_of. cbn [List.length hd Nat.eqb negb orb].
    destruct (assoc_str d (sx_datum_types X)); reflexivity.
Qed.

(* parse_leaf depends on the key only through its canonical tokens *)
Theorem C09_aliases : forall k k' v,
  canon_tokens (lower_tokens k) = canon_tokens (lower_tokens k') ->
  assoc_str k (sx_binops X) = None -> assoc_str k' (sx_binops X) = None ->
  cond1_from_spec T X (VDict [(VStr k, v)]) = cond1_from_spec T X (VDict [(VStr k', v)]).
Proof.
  intros k k' v Ht Hk Hk'. rewrite !cond1_leaf by assumption.
  rewrite (head_of_canon (lower_tokens k)), (head_of_canon (lower_tokens k')), Ht. reflexivity.
Qed.

(* str.split on a string with a separator in it *)
Lemma str_split_aux_app sep a b : forall cur,
  str_split_aux sep (a ++ String sep b) cur = str_split_aux sep a cur ++ str_split_aux sep b "".
Proof.
  induction a as [|c r IH]; intros cur; cbn [append str_split_aux].
  - rewrite Ascii.eqb_refl. reflexivity.
  - destruct (Ascii.eqb c sep); [rewrite IH; reflexivity|apply IH].
Qed.

Lemma str_split_aux_nonnil sep s : forall cur, str_split_aux sep s cur <> [].
Proof.
  induction s as [|c r IH]; intros cur; cbn [str_split_aux]; [discriminate|].
  destruct (Ascii.eqb c sep); [discriminate|apply IH].
Qed.

Lemma lower_tokens_app a b : lower_tokens (a ++ String "."%char b) = lower_tokens a ++ lower_tokens b.
Proof. unfold lower_tokens, str_split. rewrite str_split_aux_app, map_app. reflexivity. Qed.

Lemma lower_tokens_nonnil s : lower_tokens s <> [].
Proof.
  unfold lower_tokens, str_split. pose proof (str_split_aux_nonnil "."%char s "") as H.
  destruct (str_split_aux "."%char s ""); [contradiction|discriminate].
Qed.

Definition datum_token (d : string) : Prop := d = "value" \/ d = "key" \/ d = "index".

Lemma datum_not_binop d p m : datum_token d -> assoc_str (d ++ String "."%char (p ++ String "."%char m)) (sx_binops X) = None.
Proof. intros [-> | [-> | ->]]; reflexivity. Qed.

Lemma alias_pre d p p' m v :
  datum_token d -> look (sx_preproc_lookup X) (str_lower p) = look (sx_preproc_lookup X) (str_lower p') ->
  lower_tokens p = [str_lower p] -> lower_tokens p' = [str_lower p'] ->
  cond1_from_spec T X (VDict [(VStr (d ++ String "."%char (p ++ String "."%char m)), v)]) =
  cond1_from_spec T X (VDict [(VStr (d ++ String "."%char (p' ++ String "."%char m)), v)]).
Proof.
  intros Hd Hp Tp Tp'. apply C09_aliases; try (apply datum_not_binop; exact Hd).
  rewrite !lower_tokens_app, Tp, Tp'.
  assert (Td : lower_tokens d = [d]) by (destruct Hd as [-> | [-> | ->]]; reflexivity).
  rewrite Td. cbn [app].
  pose proof (lower_tokens_nonnil m) as Hm.
  destruct (lower_tokens m) as [|x [|y r]]; [contradiction| |reflexivity].
  cbn [canon_tokens]. rewrite Hp. reflexivity.
Qed.

(* "type" / "dtype" and "len" / "length" are the same pre-processor, whatever follows *)
Theorem C09_alias_type : forall d m v, datum_token d ->
  cond1_from_spec T X (VDict [(VStr (d ++ ".type." ++ m), v)]) =
  cond1_from_spec T X (VDict [(VStr (d ++ ".dtype." ++ m), v)]).
Proof. intros d m v Hd. exact (alias_pre d "type" "dtype" m v Hd eq_refl eq_refl eq_refl). Qed.

Theorem C09_alias_len : forall d m v, datum_token d ->
  cond1_from_spec T X (VDict [(VStr (d ++ ".len." ++ m), v)]) =
  cond1_from_spec T X (VDict [(VStr (d ++ ".length." ++ m), v)]).
Proof. intros d m v Hd. exact (alias_pre d "len" "length" m v Hd eq_refl eq_refl eq_refl). Qed.

(* "in" / "in_" are the same callable on every class *)
Theorem C09_alias_in : forall c v,
  cond1_from_spec T X (VDict [(VStr (scls_label c ++ ".in"), v)]) =
  cond1_from_spec T X (VDict [(VStr (scls_label c ++ ".in_"), v)]).
Proof.
  intros c v. apply C09_aliases; destruct c; reflexivity.
Qed.

(* type names in any letter case, and type objects, convert to the same type *)
Theorem C09_type_names : forall n t,
  assoc_str (str_lower n) (sx_dtype_names X) = Some t -> to_type X (VStr n) = Ok (VType t).
Proof. intros n t H. unfold to_type. rewrite H. reflexivity. Qed.

Lemma to_type_known v : is_known_type v = true -> to_type X v = Ok v.
Proof.
  destruct v as [| | | | | | | |t|]; try discriminate. destruct t; try discriminate; reflexivity.
Qed.

Theorem C09_type_objects : forall t, is_known_type (VType t) = true -> to_type X (VType t) = Ok (VType t).
Proof. intros t H. exact (to_type_known _ H). Qed.

Theorem C09_type_name_or_object : forall n t,
  is_known_type (VType t) = true -> assoc_str (str_lower n) (sx_dtype_names X) = Some t ->
  to_type X (VStr n) = to_type X (VType t).
Proof. intros n t Hk Hn. rewrite (C09_type_names n t Hn), (C09_type_objects t Hk). reflexivity. Qed.

(* every known type has a name, e.g. its own *)
Example type_name_cases :
  map (to_type X) [VStr "INT"; VStr "Float"; VStr "str"; VStr "List"; VStr "MAP"; VStr "dict"; VStr "Bool"; VStr "path"]
  = map (fun t => Ok (VType t)) [TInt; TFloat; TStr; TList; TDict; TDict; TBool; TPath].
Proof. vm_compute. reflexivity. Qed.

(* ================================================================== *)
(* 1. leaves                                                            *)

(* ---- closed facts about the key of a canonical leaf spec ---- *)

Definition typed (c : scls) : bool := match scls_pre c with PType => true | _ => false end.
Definition q_is_inst (q : dsl) : bool :=
  match q with Q_is_instance _ | Q_keys_is_instance _ => true | _ => false end.

Definition dummy_class : cclass :=
  {| k_name := ""; k_kind := DValue; k_pre := PNone; k_general := false; k_map := false; k_label := "";
     k_length := None; k_dtype := None |}.
Definition dummy_ctor : ctor :=
  {| c_name := ""; c_params := []; c_vararg := None; c_kwarg := None; c_target := ""; c_store := [] |}.

Definition scls_class (c : scls) : cclass :=
  match find_class (t_classes T) (scls_name c) with Some k => k | None => dummy_class end.
Definition q_ctor (c : scls) (q : dsl) : ctor :=
  match find_ctor T (scls_class c) (q_method q) with Some ct => ct | None => dummy_ctor end.

Definition leaf_key (c : scls) (q : dsl) : string := scls_label c ++ "." ++ q_method q.

Lemma leaf_key_not_binop c q : assoc_str (leaf_key c q) (sx_binops X) = None.
Proof. destruct c; reflexivity. Qed.

Lemma scls_class_name c : k_name (scls_class c) = scls_name c.
Proof. destruct c; reflexivity. Qed.

(* the key of the canonical spelling selects the class, the callable and the constructor of the
   DSL call, and asks for a type conversion exactly under `dtype` / for `(keys_)is_instance` *)
Lemma head_leaf c q : class_ok c q = true ->
  head_of (lower_tokens (leaf_key c q)) = HGood (scls_class c) (typed c) (q_method q) (q_is_inst q) (q_ctor c q).
Proof.
  intros H. destruct c; destruct q; try discriminate H; vm_compute; reflexivity.
Qed.

(* which of the five argument shapes: (number of named parameters, *args, **kwargs) *)
Definition ctor_shape (ct : ctor) : nat * bool * bool :=
  (List.length (c_params ct),
   match c_vararg ct with Some _ => true | None => false end,
   match c_kwarg ct with Some _ => true | None => false end).

Definition dispatch_by (sh : nat * bool * bool) (v : coerced) : res (list arg1 * list (string * arg1)) :=
  let '(npk, va, kw) := sh in
  if (npk =? 0)%nat && negb va && negb kw then Ok ([], [])
  else if (npk =? 1)%nat && negb va && negb kw then Ok ([coerced_val arg1 ALit (APath 0%N) inert0 v], [])
  else if (1 <? npk)%nat && negb va && negb kw then
    match v with
    | CDict items => let* k := kw_of arg1 ALit (APath 0%N) items in Ok ([], k)
    | CSeq _ items => Ok (map (item_arg arg1 ALit (APath 0%N)) items, [])
    | _ => Err MalformedCond
    end
  else if va && (npk =? 0)%nat && negb kw then
    match v with
    | CSeq false items => Ok (map (item_arg arg1 ALit (APath 0%N)) items, [])
    | _ => Err MalformedCond
    end
  else if kw && negb va then
    match v with
    | CDict items => let* k := kw_of arg1 ALit (APath 0%N) items in Ok ([], k)
    | _ => Err MalformedCond
    end
  else Err MalformedCond.

Lemma dispatch_shape ct cv raw : dispatch1 ct cv raw = dispatch_by (ctor_shape ct) cv.
Proof. reflexivity. Qed.

Definition q_shape (q : dsl) : nat * bool * bool :=
  match q with
  | Q_truthy | Q_falsy | Q_null => (0, false, false)
  | Q_equal_to _ | Q_not_equal_to _ | Q_less_than _ | Q_greater_than _ | Q_less_than_or_equal_to _
  | Q_greater_than_or_equal_to _ | Q_in _ | Q_not_in _ | Q_factor_of _ | Q_has_factor _ | Q_keys_contain _
  | Q_keys_contain_at_least_one_of _ | Q_keys_contain_at_most_one_of _ => (1, false, false)
  | Q_in_range _ _ | Q_not_in_range _ _ | Q_equal_to_approx _ _ | Q_keys_contain_N_of _ _
  | Q_keys_contain_at_least_N_of _ _ | Q_keys_contain_at_most_N_of _ _ => (2, false, false)
  | Q_items_contain _ => (0, false, true)
  | _ => (0, true, false)
  end%nat.

Lemma q_ctor_shape c q : class_ok c q = true -> ctor_shape (q_ctor c q) = q_shape q.
Proof.
  intros H. destruct c; destruct q; try discriminate H; vm_compute; reflexivity.
Qed.

(* ---- type conversion is the identity on the known types ---- *)

Lemma mapM_to_type_known l : forallb is_known_type l = true -> mapM (to_type X) l = Ok l.
Proof.
  induction l as [|v l IH]; cbn [forallb mapM]; [reflexivity|].
  intros H. apply andb_true_iff in H as [Hv Hl]. rewrite (to_type_known v Hv), (IH Hl). reflexivity.
Qed.

Lemma convert_types_list l : forallb is_known_type l = true -> convert_types X (VList l) = Ok (VList l).
Proof. intros H. unfold convert_types. rewrite (mapM_to_type_known l H). reflexivity. Qed.

Lemma convert_types_ok v : types_only v = true -> convert_types X v = Ok v.
Proof.
  destruct v; try discriminate; intros H.
  - apply convert_types_list. exact H.
  - exact (to_type_known _ H).
Qed.

Lemma conv_ok c q : q_types_ok c q = true ->
  conv (typed c) (q_spec_val q) = Ok (q_spec_val q) /\ conv (q_is_inst q) (q_spec_val q) = Ok (q_spec_val q).
Proof.
  unfold q_types_ok. fold (typed c). intros H.
  destruct q; cbn [q_spec_val q_is_inst conv]; destruct (typed c); cbn [conv negb] in *;
    try discriminate H; split; try reflexivity;
    try (apply convert_types_ok; exact H); apply convert_types_list; exact H.
Qed.

(* ---- coercion of plain values: nothing is taken for a path ---- *)

Lemma pfs_nondict v : plain_item v = true -> pfs v = Err MalformedPath.
Proof. destruct v; try discriminate; reflexivity. Qed.

Lemma plain_plain_item v : plain v = true -> plain_item v = true.
Proof. destruct v; try discriminate; reflexivity. Qed.

Lemma forallb_plain_item l : forallb plain l = true -> forallb plain_item l = true.
Proof.
  induction l as [|v l IH]; cbn [forallb]; [reflexivity|].
  intros H. apply andb_true_iff in H as [Hv Hl]. rewrite (plain_plain_item v Hv), (IH Hl). reflexivity.
Qed.

Lemma try_path_plain v : plain_item v = true -> try_path pfs v = Ok (inr v).
Proof. intros H. unfold try_path. rewrite (pfs_nondict v H). reflexivity. Qed.

Lemma coerce_items_plain l : forallb plain_item l = true -> coerce_items pfs l = Ok (map inr l).
Proof.
  induction l as [|v l IH]; cbn [forallb coerce_items map]; [reflexivity|].
  intros H. apply andb_true_iff in H as [Hv Hl]. rewrite (try_path_plain v Hv), (IH Hl). reflexivity.
Qed.

Lemma coerce_tuple_plain l : forallb plain_item l = true -> coerce_tuple pfs l = Ok tt.
Proof.
  induction l as [|v l IH]; cbn [forallb coerce_tuple]; [reflexivity|].
  intros H. apply andb_true_iff in H as [Hv Hl]. rewrite (pfs_nondict v Hv). exact (IH Hl).
Qed.

Lemma no_inl_inr (l : list pyval) :
  existsb (fun x : pathterm pyval + pyval => match x with inl _ => true | inr _ => false end) (map inr l) = false.
Proof. induction l as [|v l IH]; cbn [map existsb orb]; [reflexivity|exact IH]. Qed.

Lemma item_val_inr (l : list pyval) : map (item_val inert0) (map inr l) = l.
Proof. rewrite map_map. cbn [item_val]. apply map_id. Qed.

Lemma item_arg_inr (l : list pyval) : map (item_arg arg1 ALit (APath 0%N)) (map inr l) = map ALit l.
Proof. rewrite map_map. reflexivity. Qed.

Notation cval := (coerced_val arg1 ALit (APath 0%N) inert0).

Lemma coerce_plain v : plain v = true -> exists cv, coerce pfs v = Ok cv /\ cval cv = ALit v.
Proof.
  intros H. destruct v; try discriminate H; try (eexists; split; reflexivity).
  - cbn [plain] in H. exists (CSeq false (map inr l)). split.
    + cbn [coerce]. rewrite (coerce_items_plain l H). reflexivity.
    + cbn [coerced_val]. rewrite item_val_inr. reflexivity.
  - cbn [plain] in H. exists (CSeq true (map inr l)). split.
    + cbn [coerce]. rewrite (coerce_tuple_plain l H). reflexivity.
    + cbn [coerced_val]. rewrite item_val_inr. reflexivity.
Qed.

Lemma coerce_plain_list l : forallb plain l = true -> coerce pfs (VList l) = Ok (CSeq false (map inr l)).
Proof. intros H. cbn [coerce]. rewrite (coerce_items_plain l (forallb_plain_item l H)). reflexivity. Qed.

(* ---- keyword mappings: taken literally unless they look like (escaped) path specs ---- *)

Definition key_clean (s : string) : bool := negb (str_contains esc_code s).

(* the only key of the mapping reads `path`, `path.<m>` or `path.<m>.<m>` in some letter case *)
Definition single_path_key (items : list (string * pyval)) : bool :=
  match items with
  | [(k, _)] =>
      let toks := lower_tokens k in
      let n := List.length toks in
      String.eqb (hd "" toks) "path" && ((1 <=? n)%nat && (n <=? 3)%nat)
  | _ => false
  end.

Definition items_ok (items : list (string * pyval)) : bool :=
  forallb (fun kv => key_clean (fst kv)) items && negb (single_path_key items).

Definition skv (kv : string * pyval) : pyval * pyval := (VStr (fst kv), snd kv).

Lemma unescape_clean items : forall keep moved found,
  forallb (fun kv => key_clean (fst kv)) items = true ->
  unescape_keys (map skv items) keep moved found = Ok ((keep ++ map skv items) ++ moved, found).
Proof.
  induction items as [|[k v] r IH]; intros keep moved found H; cbn [map skv fst snd unescape_keys].
  - rewrite app_nil_r. reflexivity.
  - cbn [forallb fst] in H. apply andb_true_iff in H as [Hk Hr]. unfold key_clean in Hk.
    apply negb_true_iff in Hk. rewrite Hk. fold (skv (k, v)).
    change ((VStr k, v)) with (skv (k, v)).
    rewrite (IH _ moved found Hr). rewrite <- !app_assoc. reflexivity.
Qed.

Lemma pfs_kwd items : items_ok items = true -> pfs (VDict (map skv items)) = Err MalformedPath.
Proof.
  unfold items_ok. intros H. apply andb_true_iff in H as [Hc Hs]. apply negb_true_iff in Hs.
  destruct items as [|[k v] r]; [reflexivity|].
  unfold path_from_spec, path_from_spec0. cbn [map].
  change (skv (k, v) :: map skv r) with (map skv ((k, v) :: r)).
  cbn [skv fst snd]. change ((VStr k, v) :: map skv r) with (map skv ((k, v) :: r)).
  rewrite (unescape_clean ((k, v) :: r) [] [] false Hc). cbn [bind].
  destruct r as [|kv2 r2]; [|reflexivity].
  cbn [map]. cbn [single_path_key] in Hs.
  destruct (String.eqb (hd "" (lower_tokens k)) "path"); cbn [negb orb andb] in *; [|reflexivity].
  rewrite Hs. reflexivity.
Qed.

Lemma coerce_kvs_plain items : forallb plain (map snd items) = true ->
  coerce_kvs pfs (map skv items) = Ok (map (fun kv => (VStr (fst kv), inr (snd kv))) items).
Proof.
  induction items as [|[k v] r IH]; cbn [map forallb coerce_kvs skv fst snd]; [reflexivity|].
  intros H. apply andb_true_iff in H as [Hv Hr].
  rewrite (try_path_plain v (plain_plain_item v Hv)). cbn [bind].
  change (map (fun kv : string * pyval => (VStr (fst kv), snd kv)) r) with (map skv r).
  rewrite (IH Hr). reflexivity.
Qed.

Lemma kw_of_lit (items : list (string * pyval)) :
  kw_of arg1 ALit (APath 0%N) (map (fun kv => (VStr (fst kv), inr (snd kv))) items) = Ok (kmapL items).
Proof.
  induction items as [|[k v] r IH]; cbn [map kw_of fst snd]; [reflexivity|].
  rewrite IH. reflexivity.
Qed.

Lemma coerce_kwd items : items_ok items = true -> forallb plain (map snd items) = true ->
  coerce pfs (kwd items) = Ok (CDict (map (fun kv => (VStr (fst kv), inr (snd kv))) items)).
Proof.
  intros Hok Hpl. unfold kwd. change (fun kv : string * pyval => (VStr (fst kv), snd kv)) with skv.
  unfold coerce. rewrite (pfs_kwd items Hok), (coerce_kvs_plain items Hpl). reflexivity.
Qed.

(* ---- assembly: the value-dependent part of parse_leaf ---- *)

Definition leaf_result (c : scls) (q : dsl) : cond arg1 := cmapL (CLeaf (expected_leaf c q)).

Lemma tail_ok c q v2 cv pos0 kw0 :
  class_ok c q = true ->
  coerce pfs v2 = Ok cv ->
  dispatch_by (q_shape q) cv = Ok (map ALit pos0, kmapL kw0) ->
  build_leaf T idlit (scls_name c) (q_method q) pos0 kw0 = Ok (expected_leaf c q) ->
  leaf_tail (scls_class c) (q_method q) (q_ctor c q) v2 =
  Ok (DLeaf (scls_name c) (q_method q) (map ALit pos0) (kmapL kw0), leaf_result c q).
Proof.
  intros Hcls Hc Hd Hb. unfold leaf_tail. rewrite Hc. cbn [bind].
  rewrite dispatch_shape, (q_ctor_shape c q Hcls), Hd. cbn [bind].
  rewrite scls_class_name.
  rewrite (build_leaf_map pyval arg1 ALit idlit ALit (fun v => eq_refl) T (scls_name c) (q_method q) pos0 kw0).
  rewrite Hb. reflexivity.
Qed.

Lemma tail_zero c q :
  class_ok c q = true -> q_shape q = (0, false, false)%nat -> q_call q = (q_method q, [], []) ->
  exists t, leaf_tail (scls_class c) (q_method q) (q_ctor c q) VNone = Ok (t, leaf_result c q).
Proof.
  intros Hcls Hs Hq. eexists.
  apply (tail_ok c q VNone (CVal VNone) [] [] Hcls eq_refl).
  - rewrite Hs. reflexivity.
  - pose proof (tie_build c q Hcls) as Hb. unfold built in Hb. rewrite Hq in Hb. exact Hb.
Qed.

Lemma tail_one c q v :
  class_ok c q = true -> q_shape q = (1, false, false)%nat -> q_call q = (q_method q, [v], []) ->
  plain v = true ->
  exists t, leaf_tail (scls_class c) (q_method q) (q_ctor c q) v = Ok (t, leaf_result c q).
Proof.
  intros Hcls Hs Hq Hpl. destruct (coerce_plain v Hpl) as [cv [Hc Hv]]. eexists.
  apply (tail_ok c q v cv [v] [] Hcls Hc).
  - rewrite Hs. cbn [dispatch_by Nat.eqb negb andb]. rewrite Hv. reflexivity.
  - pose proof (tie_build c q Hcls) as Hb. unfold built in Hb. rewrite Hq in Hb. exact Hb.
Qed.

Lemma tail_star c q l :
  class_ok c q = true -> q_shape q = (0, true, false)%nat -> q_call q = (q_method q, l, []) ->
  forallb plain l = true ->
  exists t, leaf_tail (scls_class c) (q_method q) (q_ctor c q) (VList l) = Ok (t, leaf_result c q).
Proof.
  intros Hcls Hs Hq Hpl. eexists.
  apply (tail_ok c q (VList l) _ l [] Hcls (coerce_plain_list l Hpl)).
  - rewrite Hs. cbn [dispatch_by Nat.eqb negb andb]. rewrite item_arg_inr. reflexivity.
  - pose proof (tie_build c q Hcls) as Hb. unfold built in Hb. rewrite Hq in Hb. exact Hb.
Qed.

Lemma tail_kw c q items :
  class_ok c q = true -> (q_shape q = (2, false, false) \/ q_shape q = (0, false, true))%nat ->
  build_leaf T idlit (scls_name c) (q_method q) [] items = Ok (expected_leaf c q) ->
  items_ok items = true -> forallb plain (map snd items) = true ->
  exists t, leaf_tail (scls_class c) (q_method q) (q_ctor c q) (kwd items) = Ok (t, leaf_result c q).
Proof.
  intros Hcls Hs Hb Hok Hpl. eexists.
  apply (tail_ok c q (kwd items) _ [] items Hcls (coerce_kwd items Hok Hpl)); [|exact Hb].
  destruct Hs as [Hs|Hs]; rewrite Hs; cbn [dispatch_by Nat.eqb Nat.ltb Nat.leb negb andb];
    rewrite kw_of_lit; reflexivity.
Qed.

(* the side condition on `items_contain( **items )`: see the counterexamples below *)
Definition q_items_ok (q : dsl) : bool :=
  match q with Q_items_contain items => items_ok items | _ => true end.

Lemma q_plain_app q m pos kw : q_call q = (m, pos, kw) -> q_plain q = forallb plain (pos ++ map snd kw).
Proof. intros H. unfold q_plain, q_args. rewrite H. reflexivity. Qed.

Lemma leaf_tail_ok c q :
  class_ok c q = true -> q_plain q = true -> q_items_ok q = true ->
  exists t, leaf_tail (scls_class c) (q_method q) (q_ctor c q) (q_spec_val q) = Ok (t, leaf_result c q).
Proof.
  intros Hcls Hpl Hit.
  assert (Hkw : forall r, built_kw c q = Some r -> r = Ok (expected_leaf c q))
    by (intros r; apply tie_build_kw; exact Hcls).
  destruct q; cbn [q_spec_val]; unfold q_plain, q_args in Hpl; cbn [q_call app map snd forallb] in Hpl;
    rewrite ?andb_true_r in Hpl.
  (* one named parameter *)
  1-8,12-13,18,25-26: apply tail_one; [exact Hcls|reflexivity|reflexivity|exact Hpl].
  (* two named parameters: the spec is a keyword mapping *)
  1-3,10-12: apply andb_true_iff in Hpl as [Hp1 Hp2];
    (apply tail_kw; [exact Hcls|left; reflexivity|exact (Hkw _ eq_refl)|reflexivity|
                     cbn [map snd forallb]; rewrite Hp1, Hp2; reflexivity]).
  (* no parameter *)
  1-3: apply tail_zero; [exact Hcls|reflexivity|reflexivity].
  (* *args *)
  1-6,8-10: apply tail_star; [exact Hcls|reflexivity|reflexivity|rewrite app_nil_r in Hpl; exact Hpl].
  (* **items *)
  apply tail_kw; [exact Hcls|right; reflexivity| |exact Hit|exact Hpl].
  pose proof (tie_build c (Q_items_contain items) Hcls) as Hb. exact Hb.
Qed.

Lemma leaf_in_c09_inv c q : leaf_in_c09 c q = true ->
  class_ok c q = true /\ q_plain q = true /\ q_types_ok c q = true /\ q_wf q = true.
Proof.
  unfold leaf_in_c09, class_ok, q_wf. intros H.
  apply andb_true_iff in H as [H H4]. apply andb_true_iff in H as [H H3]. apply andb_true_iff in H as [H1 H2].
  repeat split; assumption.
Qed.

(* the canonical spec of a typed leaf parses (at any positive fuel) to the DSL's condition *)
Lemma leaf_parse c q f :
  leaf_in_c09 c q = true -> q_items_ok q = true ->
  exists t, self1 (S f) (leaf_spec c q) = Ok (t, leaf_result c q).
Proof.
  intros Hin Hit. destruct (leaf_in_c09_inv c q Hin) as [Hcls [Hpl [Hty _]]].
  unfold leaf_spec. fold (leaf_key c q).
  rewrite self1_S, (step1_leaf _ _ _ (leaf_key_not_binop c q)), parse_leaf_head, (head_leaf c q Hcls).
  cbn [run_head]. destruct (conv_ok c q Hty) as [H1 H2]. rewrite H1. cbn [bind]. rewrite H2. cbn [bind].
  exact (leaf_tail_ok c q Hcls Hpl Hit).
Qed.

(* C09 on leaves, for every one of the 32 constructors on every class that has it.  The extra
   hypothesis only concerns `items_contain( **items )`: no item name contains the escape code
   "\path", and the mapping is not a single item named like a path spec. *)
Theorem C09_leaf_partial : forall c q,
  leaf_in_c09 c q = true -> q_items_ok q = true ->
  exists t, cond1_from_spec T X (leaf_spec c q) = Ok (t, cond_map pyval arg1 ALit (CLeaf (expected_leaf c q))).
Proof. intros c q Hin Hit. rewrite cond1_unfold. exact (leaf_parse c q 39 Hin Hit). Qed.

(* without the side condition the statement is false: *)
(* an item name containing the escape code is un-escaped by from_spec but not by the DSL ... *)
Definition kwargs_of {A} (c : cond A) : list (string * A) := match c with CLeaf l => l_kwargs l | _ => [] end.

Example C09_leaf_counterexample_escape :
  let q := Q_items_contain [("\path", VInt 1)] in
  leaf_in_c09 SValue q = true /\
  leaf_spec SValue q = VDict [(VStr "value.items_contain", VDict [(VStr "\path", VInt 1)])] /\
  (let* r := cond1_from_spec T X (leaf_spec SValue q) in Ok (kwargs_of (snd r))) = Ok [("path", ALit (VInt 1))] /\
  l_kwargs (expected_leaf SValue q) = [("\path", VInt 1)].
Proof. vm_compute. repeat split. Qed.

(* ... and a single item named `path` makes the mapping a path spec, which items_contain refuses *)
Example C09_leaf_counterexample_path :
  let q := Q_items_contain [("path", VList [])] in
  leaf_in_c09 SValue q = true /\
  leaf_spec SValue q = VDict [(VStr "value.items_contain", VDict [(VStr "path", VList [])])] /\
  cond1_from_spec T X (leaf_spec SValue q) = Err MalformedCond.
Proof. vm_compute. repeat split. Qed.

Example C09_leaf_counterexample_path2 :
  cond1_from_spec T X (leaf_spec SValue (Q_items_contain [("PATH.len", VInt 3)])) = Err TypeError.
Proof. vm_compute. reflexivity. Qed.

(* ================================================================== *)
(* 2. and / or / xor trees                                              *)

Lemma binop_lookup o : assoc_str (bop_name o) (sx_binops X) = Some o.
Proof. destruct o; reflexivity. Qed.

(* an operator spec with two operands: the list is folded from the null condition *)
Lemma step1_bin s o x y :
  step1 s (VDict [(VStr (bop_name o), VList [x; y])]) =
  let* (ta, ca) := s x in
  let* c1 := mk_bin o CNull ca in
  let* (tb, cb) := s y in
  let* c2 := mk_bin o c1 cb in
  Ok (DBin o (DBin o DNull ta) tb, c2).
Proof.
  unfold cond_from_spec_step. cbn [py_truthy negb]. rewrite binop_lookup.
  destruct (s x) as [[ta ca]|e]; cbn [bind fst snd]; [|reflexivity].
  destruct (mk_bin o CNull ca) as [c1|e]; cbn [bind fst snd]; [|reflexivity].
  destruct (s y) as [[tb cb]|e]; cbn [bind fst snd]; [|reflexivity].
  destruct (mk_bin o c1 cb) as [c2|e]; cbn [bind fst snd]; reflexivity.
Qed.

Lemma mk_bin_null_l o n : mk_bin o (@CNull arg1) (cmapL (cond_of n)) = Ok (cmapL (cond_of n)).
Proof.
  change (@CNull arg1) with (cmapL (cond_of QNull)).
  rewrite mk_bin_map, mk_bin_cond_of. cbn [q_is_null].
  destruct (q_is_null n) eqn:E; [|reflexivity].
  apply q_is_null_eq in E. subst n. reflexivity.
Qed.

Definition tree_items_ok (t : qtree) : bool := forallb (fun cq => q_items_ok (snd cq)) (qleaves t).

Lemma tree_in_c09_bin o a b : tree_in_c09 (QBin o a b) = true -> tree_in_c09 a = true /\ tree_in_c09 b = true.
Proof. unfold tree_in_c09. cbn [qleaves]. rewrite forallb_app. apply andb_true_iff. Qed.
Lemma tree_items_ok_bin o a b : tree_items_ok (QBin o a b) = true -> tree_items_ok a = true /\ tree_items_ok b = true.
Proof. unfold tree_items_ok. cbn [qleaves]. rewrite forallb_app. apply andb_true_iff. Qed.

Lemma qmixed_qnorm_bin_l o a b : qmixed (qnorm a) = true -> qmixed (qnorm (QBin o a b)) = true.
Proof.
  intros Ma. cbn [qnorm]. destruct (q_is_null (qnorm b)); [exact Ma|].
  destruct (q_is_null (qnorm a)) eqn:Na.
  - apply q_is_null_eq in Na. rewrite Na in Ma. discriminate Ma.
  - apply qmixed_bin_l. exact Ma.
Qed.
Lemma qmixed_qnorm_bin_r o a b : qmixed (qnorm b) = true -> qmixed (qnorm (QBin o a b)) = true.
Proof.
  intros Mb. cbn [qnorm]. destruct (q_is_null (qnorm b)) eqn:Nb.
  - apply q_is_null_eq in Nb. rewrite Nb in Mb. discriminate Mb.
  - destruct (q_is_null (qnorm a)); [exact Mb|]. apply qmixed_bin_r. exact Mb.
Qed.

Lemma tree_parse t : forall f,
  tree_depth t <= f -> tree_in_c09 t = true -> tree_items_ok t = true ->
  if qmixed (qnorm t) then self1 f (tree_spec t) = Err TypeError
  else exists tm, self1 f (tree_spec t) = Ok (tm, cmapL (cond_of (qnorm t))).
Proof.
  induction t as [c q| |o a IHa b IHb]; intros f Hd Hin Hit.
  - cbn [tree_depth] in Hd. destruct f as [|f]; [lia|].
    cbn [qnorm tree_spec]. rewrite qmixed_leaf.
    unfold tree_in_c09 in Hin. cbn [qleaves forallb fst snd] in Hin. rewrite andb_true_r in Hin.
    unfold tree_items_ok in Hit. cbn [qleaves forallb snd] in Hit. rewrite andb_true_r in Hit.
    exact (leaf_parse c q f Hin Hit).
  - cbn [tree_depth] in Hd. destruct f as [|f]; [lia|].
    cbn [qnorm tree_spec]. rewrite qmixed_null, self1_S, step1_null. eexists. reflexivity.
  - cbn [tree_depth] in Hd. destruct f as [|f]; [lia|].
    apply tree_in_c09_bin in Hin as [Hina Hinb]. apply tree_items_ok_bin in Hit as [Hita Hitb].
    assert (Hda : tree_depth a <= f) by lia. assert (Hdb : tree_depth b <= f) by lia.
    specialize (IHa f Hda Hina Hita). specialize (IHb f Hdb Hinb Hitb).
    cbn [tree_spec]. rewrite self1_S, step1_bin.
    destruct (qmixed (qnorm a)) eqn:Ma.
    { rewrite (qmixed_qnorm_bin_l o a b Ma), IHa. reflexivity. }
    destruct IHa as [ta Ea]. rewrite Ea. cbn [bind]. rewrite mk_bin_null_l. cbn [bind].
    destruct (qmixed (qnorm b)) eqn:Mb.
    { rewrite (qmixed_qnorm_bin_r o a b Mb), IHb. reflexivity. }
    destruct IHb as [tb Eb]. rewrite Eb. cbn [bind]. rewrite mk_bin_map, mk_bin_cond_of.
    cbn [qnorm].
    destruct (q_is_null (qnorm b)); [rewrite Ma; eexists; reflexivity|].
    destruct (q_is_null (qnorm a)); [rewrite Mb; eexists; reflexivity|].
    destruct (qmixed (QBin o (qnorm a) (qnorm b))); [reflexivity|eexists; reflexivity].
Qed.

(* C09 on trees: the canonical spec of a typed tree parses to what the DSL expression builds
   (null operands are identities; mixing key and index conditions is a TypeError on both sides).
   Same side condition on `items_contain` leaves as for C09_leaf_partial.  The depth bound is the
   fuel of the model (spec_fuel = 40). *)
Theorem C09_tree_partial : forall t,
  tree_in_c09 t = true -> tree_items_ok t = true -> tree_depth t <= 40 ->
  match build_expect (qnorm t) with
  | Ok c => exists tm, cond1_from_spec T X (tree_spec t) = Ok (tm, cond_map pyval arg1 ALit c)
  | Err e => cond1_from_spec T X (tree_spec t) = Err e
  end.
Proof.
  intros t Hin Hit Hd. rewrite cond1_unfold. unfold build_expect.
  pose proof (tree_parse t 40 Hd Hin Hit) as H.
  destruct (qmixed (qnorm t)); exact H.
Qed.

(* ... i.e. exactly the condition of the DSL expression with literal arguments *)
Lemma tree_in_c09_qtree_ok t : tree_in_c09 t = true -> qtree_ok t = true.
Proof.
  unfold tree_in_c09, qtree_ok. induction (qleaves t) as [|[c q] l IH]; cbn [forallb fst snd]; [reflexivity|].
  intros H. apply andb_true_iff in H as [H1 H2]. rewrite (IH H2), andb_true_r.
  destruct (leaf_in_c09_inv c q H1) as [Hc [_ [_ Hw]]]. unfold class_ok in Hc. unfold q_wf in Hw.
  rewrite Hc, Hw. reflexivity.
Qed.

Theorem C09_tree_dsl_partial : forall t,
  tree_in_c09 t = true -> tree_items_ok t = true -> tree_depth t <= 40 ->
  rmap snd (cond1_from_spec T X (tree_spec t)) = build1 T (dslc_map ALit (qterm t)).
Proof.
  intros t Hin Hit Hd. rewrite build1_lit, (build_qterm t (tree_in_c09_qtree_ok t Hin)).
  pose proof (C09_tree_partial t Hin Hit Hd) as H.
  destruct (build_expect (qnorm t)) as [c|e].
  - destruct H as [tm E]. rewrite E. reflexivity.
  - rewrite H. reflexivity.
Qed.

Corollary C09_leaf_dsl_partial : forall c q,
  leaf_in_c09 c q = true -> q_items_ok q = true ->
  rmap snd (cond1_from_spec T X (leaf_spec c q)) = build1 T (dslc_map ALit (q_term c q)).
Proof.
  intros c q Hin Hit.
  apply (C09_tree_dsl_partial (QLeaf c q)).
  - unfold tree_in_c09. cbn [qleaves forallb fst snd]. rewrite Hin. reflexivity.
  - unfold tree_items_ok. cbn [qleaves forallb snd]. rewrite Hit. reflexivity.
  - cbn [tree_depth]. lia.
Qed.

(* ---- the positional (list) spelling of the two-parameter constructors ---- *)

Definition q_two (q : dsl) : option (pyval * pyval) :=
  match q with
  | Q_in_range a b | Q_not_in_range a b | Q_equal_to_approx a b | Q_keys_contain_N_of a b
  | Q_keys_contain_at_least_N_of a b | Q_keys_contain_at_most_N_of a b => Some (a, b)
  | _ => None
  end.

Theorem C09_leaf_positional : forall c q a b,
  leaf_in_c09 c q = true -> q_two q = Some (a, b) ->
  exists t, cond1_from_spec T X (VDict [(VStr (scls_label c ++ "." ++ q_method q), VList [a; b])])
            = Ok (t, cond_map pyval arg1 ALit (CLeaf (expected_leaf c q))).
Proof.
  intros c q a b Hin H2. destruct (leaf_in_c09_inv c q Hin) as [Hcls [Hpl [Hty _]]].
  fold (leaf_key c q).
  rewrite (cond1_leaf _ _ (leaf_key_not_binop c q)), (head_leaf c q Hcls). cbn [run_head].
  assert (Hq : q_call q = (q_method q, [a; b], []) /\ q_shape q = (2, false, false)%nat /\ q_is_inst q = false /\ typed c = false).
  { unfold q_types_ok in Hty. fold (typed c) in Hty.
    destruct q; try discriminate H2; cbn [q_two] in H2; injection H2 as -> ->;
      (destruct (typed c); [discriminate Hty|]); repeat split. }
  destruct Hq as [Hq [Hs [Hi Ht]]]. rewrite Hi, Ht. cbn [conv bind].
  rewrite (q_plain_app q _ _ _ Hq) in Hpl. cbn [app map] in Hpl.
  eexists. apply (tail_ok c q (VList [a; b]) _ [a; b] [] Hcls (coerce_plain_list [a; b] Hpl)).
  - rewrite Hs. cbn [dispatch_by Nat.eqb Nat.ltb Nat.leb negb andb]. rewrite item_arg_inr. reflexivity.
  - pose proof (tie_build c q Hcls) as Hb. unfold built in Hb. rewrite Hq in Hb. exact Hb.
Qed.

(* ================================================================== *)
(* non-vacuity                                                          *)

Example ex_in_fragment :
  leaf_in_c09 SValueLength (Q_in_range (VInt 1) (VInt 3)) = true /\
  leaf_in_c09 SValueDataType (Q_in (VList [VType TInt; VType TStr])) = true /\
  leaf_in_c09 SKey (Q_keys_contain_N_of (VInt 2) (VList [VStr "a"; VStr "b"; VStr "c"])) = true /\
  leaf_in_c09 SValue (Q_items_contain [("a", VInt 1); ("b", VList [VStr "x"])]) = true /\
  q_items_ok (Q_items_contain [("a", VInt 1); ("b", VList [VStr "x"])]) = true /\
  leaf_in_c09 SValue (Q_equal_to (VDict [])) = false /\          (* a mapping could be a path spec *)
  leaf_in_c09 SIndex (Q_required_keys [VStr "a"]) = false.       (* no such constructor on Index *)
Proof. vm_compute. repeat split. Qed.

Example ex_leaf_spec :
  leaf_spec SValueLength (Q_in_range (VInt 1) (VInt 3))
  = VDict [(VStr "value.length.in_range", VDict [(VStr "lower", VInt 1); (VStr "upper", VInt 3)])].
Proof. reflexivity. Qed.

(* letter case, the `len` alias and the positional list spelling: the same condition *)
Example ex_spellings :
  rmap snd (cond1_from_spec T X (VDict [(VStr "VALUE.Len.IN_RANGE", VList [VInt 1; VInt 3])]))
  = rmap snd (cond1_from_spec T X (leaf_spec SValueLength (Q_in_range (VInt 1) (VInt 3)))) /\
  rmap snd (cond1_from_spec T X (leaf_spec SValueLength (Q_in_range (VInt 1) (VInt 3))))
  = Ok (cond_map pyval arg1 ALit (CLeaf (expected_leaf SValueLength (Q_in_range (VInt 1) (VInt 3))))).
Proof. vm_compute. split; reflexivity. Qed.

Example ex_type_names :
  rmap snd (cond1_from_spec T X (VDict [(VStr "value.type.in", VList [VStr "INT"; VStr "Map"])]))
  = rmap snd (cond1_from_spec T X (leaf_spec SValueDataType (Q_in (VList [VType TInt; VType TDict])))).
Proof. vm_compute. reflexivity. Qed.

Definition ex_tree : qtree :=
  QBin BoAnd (QBin BoOr QNull (QLeaf SValue (Q_less_than (VInt 3))))
             (QBin BoXor (QLeaf SValueLength (Q_equal_to (VInt 2))) QNull).

Example ex_tree_ok : tree_in_c09 ex_tree = true /\ tree_items_ok ex_tree = true /\ tree_depth ex_tree = 3.
Proof. vm_compute. repeat split. Qed.

Example ex_tree_parse :
  rmap snd (cond1_from_spec T X (tree_spec ex_tree))
  = Ok (cond_map pyval arg1 ALit
          (CBin BoAnd (CLeaf (expected_leaf SValue (Q_less_than (VInt 3))))
                      (CLeaf (expected_leaf SValueLength (Q_equal_to (VInt 2)))))).
Proof. vm_compute. reflexivity. Qed.

(* key conditions cannot be combined with index conditions: TypeError from the spec as from the DSL *)
Example ex_tree_mixed :
  let t := QBin BoAnd (QLeaf SKey (Q_equal_to (VStr "a"))) (QLeaf SIndex (Q_equal_to (VInt 0))) in
  tree_in_c09 t = true /\ cond1_from_spec T X (tree_spec t) = Err TypeError /\ build_expect (qnorm t) = Err TypeError.
Proof. vm_compute. repeat split. Qed.

Print Assumptions C09_case.
Print Assumptions C09_aliases.
Print Assumptions C09_alias_type.
Print Assumptions C09_alias_len.
Print Assumptions C09_alias_in.
Print Assumptions C09_type_names.
Print Assumptions C09_type_objects.
Print Assumptions C09_type_name_or_object.
Print Assumptions C09_leaf_partial.
Print Assumptions C09_leaf_positional.
Print Assumptions C09_tree_partial.
Print Assumptions C09_tree_dsl_partial.
Print Assumptions C09_leaf_dsl_partial.
