(* C09: condition specs mean exactly what the equivalent DSL expression means.
   The model of ConditionLike.from_spec (Spec.v), run on the canonical spec spelling of a typed
   DSL leaf / tree (SpecSpell.v), yields the very condition the DSL constructors build
   (Tie.v / C02Proof.v), with every argument a literal.  Letter case and the documented
   aliases of the key tokens are immaterial.
   Facts about the generated tables T / X are closed by computation. *)
From Coq Require Import ZArith NArith List Bool String Ascii Lia.
From Valida Require Import Py Lang Defs Cond Dsl Check DocSem Path Cast Str SpecDefs RuleDefs RuleTerms
  Spec SpecSpell Inst RunSpec.
From Valida.Proofs Require Import PyFacts Tie C01Proof C02Proof RuleProof.
Import ListNotations.
Local Open Scope string_scope.
Local Open Scope list_scope.

(* ================================================================== *)
(* 0. the parser, one level at a time                                   *)

Notation pfs := (path_from_spec T X).
Notation self1 f := (cond_from_spec T X arg1 ALit (APath 0%N) inert0 (path_from_spec T X) f).
Notation step1 s := (cond_from_spec_step T X arg1 ALit (APath 0%N) inert0 (path_from_spec T X) s).
Notation pleaf := (parse_leaf T X arg1 ALit (APath 0%N) inert0 (path_from_spec T X)).
Notation dispatch1 := (dispatch arg1 ALit (APath 0%N) inert0).
Notation cmapL := (cond_map pyval arg1 ALit).
Notation lmapL := (leaf_map pyval arg1 ALit).
Notation kmapL := (kmap pyval arg1 ALit).

Lemma self1_S f spec : self1 (S f) spec = step1 (self1 f) spec.
Proof. reflexivity. Qed.

Lemma cond1_unfold spec : cond1_from_spec T X spec = self1 40 spec.
Proof. reflexivity. Qed.

Lemma step1_leaf s k v :
  assoc_str k (sx_binops X) = None -> step1 s (VDict [(VStr k, v)]) = pleaf k v.
Proof.
  intros H. unfold cond_from_spec_step. cbn [py_truthy negb]. rewrite H. reflexivity.
Qed.

Lemma step1_null s : step1 s (VDict []) = Ok (DNull, CNull).
Proof. reflexivity. Qed.

(* ------------------------------------------------------------------ *)
(* parse_leaf = a closed computation on the key tokens, then the part that looks at the value *)

Definition look (l : list (string * string)) (p : string) : string :=
  match assoc_str p l with Some q => q | None => p end.

Definition conv (b : bool) (v : pyval) : res pyval := if b then convert_types X v else Ok v.

Definition is_none (v : pyval) : bool := match v with VNone => true | _ => false end.

(* the part of parse_leaf after the class, the callable and the constructor are known *)
Definition leaf_tail (k : cclass) (call : string) (ct : ctor) (v2 : pyval) : res (dslc arg1 * cond arg1) :=
  let* cv := coerce pfs v2 in
  let* (pos, kw) := dispatch1 ct cv (is_none v2) in
  let* l := build_leaf T ALit (k_name k) call pos kw in
  Ok (DLeaf (k_name k) call pos kw, CLeaf l).

Inductive head :=
| HBad                                            (* malformed before the value is looked at *)
| HBad1 (conv1 : bool) (e : exc)                  (* no such pre-processor on the class *)
| HBad2 (conv1 conv2 : bool)                      (* no such constructor on the class *)
| HGood (k : cclass) (conv1 : bool) (call : string) (conv2 : bool) (ct : ctor).

Definition head_of (toks : list string) : head :=
  let n := List.length toks in
  let t0 := hd "" toks in
  let tl := last toks "" in
  match assoc_str t0 (sx_datum_types X) with
  | None => HBad
  | Some cls_name =>
      if negb ((n =? 2)%nat || (n =? 3)%nat)
         || ((n =? 2)%nat && existsb (fun p => String.eqb (fst p) tl) (sx_preproc_lookup X))
      then HBad
      else
        match find_class (t_classes T) cls_name with
        | None => HBad
        | Some k0 =>
            let pre := look (sx_preproc_lookup X) (nth 1 toks "") in
            let conv1 := (n =? 3)%nat && String.eqb pre "dtype" in
            match (if (n =? 3)%nat then class_pre T k0 pre else Ok k0) with
            | Err e => HBad1 conv1 e
            | Ok k =>
                let call0 := look (sx_callable_lookup X) tl in
                let call := match assoc_str call0 (dsl_names T) with Some c => c | None => "" end in
                let conv2 := String.eqb call "is_instance" || String.eqb call "keys_is_instance" in
                match find_ctor T k call with
                | None => HBad2 conv1 conv2
                | Some ct => HGood k conv1 call conv2 ct
                end
            end
        end
  end.

Definition run_head (h : head) (v : pyval) : res (dslc arg1 * cond arg1) :=
  match h with
  | HBad => Err MalformedCond
  | HBad1 c1 e => let* _ := conv c1 v in Err e
  | HBad2 c1 c2 => let* v1 := conv c1 v in let* _ := conv c2 v1 in Err MalformedCond
  | HGood k c1 call c2 ct => let* v1 := conv c1 v in let* v2 := conv c2 v1 in leaf_tail k call ct v2
  end.

Lemma parse_leaf_head key v : pleaf key v = run_head (head_of (lower_tokens key)) v.
Proof.
  unfold parse_leaf, head_of. generalize (lower_tokens key) as toks. intros toks.
  cbv zeta.
  destruct (assoc_str (hd "" toks) (sx_datum_types X)) as [cls_name|]; [|reflexivity].
  match goal with |- (if ?c then _ else _) = _ => destruct c end; [reflexivity|].
  destruct (find_class (t_classes T) cls_name) as [k0|]; [|reflexivity].
  fold (look (sx_preproc_lookup X) (nth 1 toks "")).
  fold (look (sx_callable_lookup X) (last toks "")).
  set (pre := look (sx_preproc_lookup X) (nth 1 toks "")).
  set (call0 := look (sx_callable_lookup X) (last toks "")).
  set (call := match assoc_str call0 (dsl_names T) with Some c => c | None => "" end).
  set (c2 := String.eqb call "is_instance" || String.eqb call "keys_is_instance").
  destruct (List.length toks =? 3)%nat; cbn [andb].
  - destruct (class_pre T k0 pre) as [k|e].
    + destruct (find_ctor T k call) as [ct|]; destruct (String.eqb pre "dtype"); destruct c2;
        cbn [run_head conv bind]; try reflexivity;
        destruct (convert_types X v) as [v1|e1]; cbn [bind]; try reflexivity;
        destruct (convert_types X v1) as [v2|e2]; reflexivity.
    + destruct (String.eqb pre "dtype"); cbn [run_head conv bind]; try reflexivity;
        destruct (convert_types X v) as [v1|e1]; reflexivity.
  - cbn [bind].
    destruct (find_ctor T k0 call) as [ct|]; destruct c2; cbn [run_head conv bind]; try reflexivity;
      destruct (convert_types X v) as [v1|e1]; reflexivity.
Qed.
