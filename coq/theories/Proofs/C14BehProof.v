(* C14, behaviour clause: "objects that compare equal select the same nodes and give the same verdicts
   on every document; two combinations differing only in operand order compare equal".

   In general "== implies same behaviour" is false in the library (finding D22, replayed below as
   C14_eq_not_behaviour_counterexample).  This file proves the parts that hold.

   1.  C14_commuted_behaviour / _cases / _fields: swapping the operands of a combination changes nothing
       observable: the result vector and the three tables are identical, the truth table is permuted (so the
       views of obs_filter and the number of failure reasons are identical).  The record is not literally equal
       (combine_fres_not_literally_commutative).  When an operand raises, both orders raise; the exception is the
       same when exactly one operand raises; when both raise the left one wins
       (C14_commuted_error_order_dependent).
   2.  cond_same: identical leaves up to the order of keyword arguments (names distinct), operands of a
       combination in the same or swapped order at ANY depth.  cond_comm: operand order only.
       2a-2c  the evaluator of callable bodies only sees the environment as a finite map (ev_ext, exec_list_ext);
              binding keyword arguments in another order gives the same finite map (bind_kw_perm, call_def_perm);
              items_contain, the only callable with **kwargs, by its closed form (call_def_T_perm).
       2d     C14_comm_behaviour (any tables, any resolver, no hypothesis), C14_strict_equal_behaviour
              (hypothesis: the keyword arguments resolve; C14_kwarg_resolution_order_counterexample shows why).
       2e     C14_cond_same_eq: cond_same implies == (cond1_eqb), swaps at any depth; run_filter corollary.
       2f     data paths: part_same / path_same, C14_path_same_get_data (the same nodes and concrete paths).
       2g     rules: C14_strict_equal_judge, C14_strict_equal_rule_test (the same verdicts, failures, cast copy).
       2h     C14_path_same_eq: path_same with the same labels implies == (path_eqb).
   3.  C14_value_type_insensitive_callables: equal_to / not_equal_to leaves whose arguments are == evaluate
       identically on well-formed data; lifted to trees in C14_eqarg_behaviour.

   res_same / same_outcome: both sides return related (equal) values, or both raise (the exceptions may differ,
   since the operand evaluated first wins). *)
From Coq Require Import ZArith NArith List Bool String Lia Permutation.
From Valida Require Import Py Lang Defs Cond Dsl Path Cast RuleDefs Rule Eq Inst.
From Valida.Proofs Require Import PyFacts Tie C14Proof.
Import ListNotations.
Local Open Scope string_scope.
Local Open Scope list_scope.

(* ------------------------------------------------------------------ *)
(* 1. operand order of a combination                                    *)

(* what can be observed of a filter result: the four vectors literally, the truth table as a multiset
   (the implementation only counts / looks up its entries) *)
Definition fres_same (f g : fres) : Prop :=
  fr_pre f = fr_pre g /\ fr_cerr f = fr_cerr g /\ fr_cfalse f = fr_cfalse g /\ fr_result f = fr_result g
  /\ Permutation (fr_tt f) (fr_tt g).

(* both raise (possibly different exceptions), or both return and the results are fres_same *)
Definition res_same (r1 r2 : res fres) : Prop :=
  match r1, r2 with
  | Ok f, Ok g => fres_same f g
  | Err _, Err _ => True
  | _, _ => False
  end.

Lemma fres_same_refl f : fres_same f f.
Proof. repeat split; apply Permutation_refl. Qed.
Lemma fres_same_sym f g : fres_same f g -> fres_same g f.
Proof. intros [H1 [H2 [H3 [H4 H5]]]]. repeat split; try (symmetry; assumption). Qed.
Lemma fres_same_trans f g h : fres_same f g -> fres_same g h -> fres_same f h.
Proof.
  intros [H1 [H2 [H3 [H4 H5]]]] [G1 [G2 [G3 [G4 G5]]]].
  repeat split; try (etransitivity; eassumption).
Qed.
Lemma res_same_refl r : res_same r r.
Proof. destruct r; cbn; [ apply fres_same_refl | exact I ]. Qed.
Lemma res_same_sym r s : res_same r s -> res_same s r.
Proof. destruct r, s; cbn; auto using fres_same_sym. Qed.
Lemma res_same_trans r s t : res_same r s -> res_same s t -> res_same r t.
Proof. destruct r, s, t; cbn; try tauto. apply fres_same_trans. Qed.

(* the observables only depend on the fres_same class *)
Lemma fres_same_obs d f g : fres_same f g -> obs_filter d f = obs_filter d g.
Proof. intros [_ [_ [_ [H _]]]]. unfold obs_filter. rewrite H. reflexivity. Qed.

Lemma filter_length_perm {X} (p : X -> bool) l1 l2 : Permutation l1 l2 ->
  List.length (filter p l1) = List.length (filter p l2).
Proof.
  induction 1 as [ | x l l' _ IH | x y l | l l' l'' _ IH1 _ IH2 ]; cbn.
  - reflexivity.
  - destruct (p x); cbn; congruence.
  - destruct (p x), (p y); reflexivity.
  - congruence.
Qed.

Lemma fres_same_num_reasons f g i : fres_same f g -> num_reasons f i = num_reasons g i.
Proof. intros [_ [_ [_ [_ H]]]]. unfold num_reasons. apply filter_length_perm. exact H. Qed.

Lemma zip_with_comm {X Z} (f : X -> X -> Z) : (forall x y, f x y = f y x) ->
  forall a b, zip_with f a b = zip_with f b a.
Proof.
  intros Hf. induction a as [ | x a IH ]; intros [ | y b ]; cbn; try reflexivity.
  rewrite Hf, IH. reflexivity.
Qed.

Lemma bop_apply_comm o x y : bop_apply o x y = bop_apply o y x.
Proof. destruct o, x, y; reflexivity. Qed.

(* congruence and commutation of the combination of two results *)
Lemma combine_fres_cong o a a' b b' : fres_same a a' -> fres_same b b' ->
  fres_same (combine_fres o a b) (combine_fres o a' b').
Proof.
  intros [A1 [A2 [A3 [A4 A5]]]] [B1 [B2 [B3 [B4 B5]]]]. unfold combine_fres, fres_same. cbn.
  rewrite A1, A2, A4, B1, B2, B4. repeat split.
  apply Permutation_app; [ exact A5 | ]. apply Permutation_app; [ exact B5 | apply Permutation_refl ].
Qed.

Lemma combine_fres_comm o a b : fres_same (combine_fres o a b) (combine_fres o b a).
Proof.
  unfold combine_fres, fres_same. cbn.
  rewrite (zip_with_comm orb orb_comm (fr_pre a) (fr_pre b)).
  rewrite (zip_with_comm orb orb_comm (fr_cerr a) (fr_cerr b)).
  rewrite (zip_with_comm (bop_apply o) (bop_apply_comm o) (fr_result a) (fr_result b)).
  repeat split. rewrite !app_assoc. apply Permutation_app; [ apply Permutation_app_comm | apply Permutation_refl ].
Qed.

(* the whole record is NOT literally equal: the truth table lists the operands' entries in operand order *)
Example combine_fres_not_literally_commutative :
  let a := {| fr_pre := [false]; fr_cerr := [false]; fr_cfalse := [false]; fr_result := [true];
              fr_tt := [TTLeaf [(false, false, false)]] |} in
  let b := {| fr_pre := [false]; fr_cerr := [false]; fr_cfalse := [true]; fr_result := [false];
              fr_tt := [TTLeaf [(false, false, true)]] |} in
  combine_fres BoAnd a b <> combine_fres BoAnd b a.
Proof. cbn. intro H. discriminate H. Qed.

Section Commute.
  Variable T : tables.
  Variable A : Type.
  Variable resolve : A -> res pyval.

  (* exact account of the two orders *)
  Theorem C14_commuted_cases o (a b : cond A) d :
    match filter_tree T resolve a d, filter_tree T resolve b d with
    | Ok fa, Ok fb =>
        filter_tree T resolve (CBin o a b) d = Ok (combine_fres o fa fb) /\
        filter_tree T resolve (CBin o b a) d = Ok (combine_fres o fb fa)
    | Err e, Ok _ | Ok _, Err e =>
        filter_tree T resolve (CBin o a b) d = Err e /\ filter_tree T resolve (CBin o b a) d = Err e
    | Err ea, Err eb =>
        filter_tree T resolve (CBin o a b) d = Err ea /\ filter_tree T resolve (CBin o b a) d = Err eb
    end.
  Proof.
    cbn [filter_tree].
    destruct (filter_tree T resolve a d) as [ fa | ea ]; destruct (filter_tree T resolve b d) as [ fb | eb ];
      cbn [bind]; split; reflexivity.
  Qed.

  (* main statement (1): the two orders agree on everything observable *)
  Theorem C14_commuted_behaviour o (a b : cond A) d :
    res_same (filter_tree T resolve (CBin o a b) d) (filter_tree T resolve (CBin o b a) d).
  Proof.
    cbn [filter_tree].
    destruct (filter_tree T resolve a d) as [ fa | ea ]; destruct (filter_tree T resolve b d) as [ fb | eb ];
      cbn [bind res_same]; try exact I.
    apply combine_fres_comm.
  Qed.

  (* field-wise reading of the Ok case *)
  Corollary C14_commuted_fields o (a b : cond A) d f :
    filter_tree T resolve (CBin o a b) d = Ok f ->
    exists g, filter_tree T resolve (CBin o b a) d = Ok g /\
      fr_result f = fr_result g /\ fr_pre f = fr_pre g /\ fr_cerr f = fr_cerr g /\ fr_cfalse f = fr_cfalse g /\
      Permutation (fr_tt f) (fr_tt g) /\
      obs_filter d f = obs_filter d g /\ (forall i, num_reasons f i = num_reasons g i).
  Proof.
    intros Hf. pose proof (C14_commuted_behaviour o a b d) as H. rewrite Hf in H.
    destruct (filter_tree T resolve (CBin o b a) d) as [ g | e ]; cbn [res_same] in H; [ | contradiction ].
    exists g. split; [ reflexivity | ].
    pose proof (fres_same_obs d _ _ H) as Ho. pose proof (fun i => fres_same_num_reasons _ _ i H) as Hn.
    destruct H as [H1 [H2 [H3 [H4 H5]]]]. repeat split; assumption.
  Qed.

  (* a raising operand: the same exception in both orders when exactly one operand raises *)
  Corollary C14_commuted_error_one_sided o (a b : cond A) d e fb :
    filter_tree T resolve a d = Err e -> filter_tree T resolve b d = Ok fb ->
    filter_tree T resolve (CBin o a b) d = Err e /\ filter_tree T resolve (CBin o b a) d = Err e.
  Proof. intros Ha Hb. pose proof (C14_commuted_cases o a b d) as H. rewrite Ha, Hb in H. exact H. Qed.
End Commute.

(* when both operands raise, the left operand's exception propagates: the exception class of a combination
   depends on operand order.  (Model-level exhibit: a leaf naming an unknown callable raises OtherExc, a leaf
   whose argument cannot be resolved raises the resolver's exception; neither is caught by the filter loop.) *)
Definition bad_call_leaf : leaf exc :=
  {| l_cls := "Value"; l_kind := DValue; l_pre := PNone; l_call := "no_such_callable"; l_args := []; l_kwargs := [] |}.
Definition bad_arg_leaf : leaf exc :=
  {| l_cls := "Value"; l_kind := DValue; l_pre := PNone; l_call := "equal_to"; l_args := [RuntimeError]; l_kwargs := [] |}.
Definition one_item : data := {| d_is_list := true; d_keys := [VInt 0]; d_vals := [VInt 1] |}.
Example C14_commuted_error_order_dependent :
  filter_tree T (fun e : exc => Err e) (CBin BoAnd (CLeaf bad_call_leaf) (CLeaf bad_arg_leaf)) one_item = Err OtherExc /\
  filter_tree T (fun e : exc => Err e) (CBin BoAnd (CLeaf bad_arg_leaf) (CLeaf bad_call_leaf)) one_item = Err RuntimeError.
Proof. vm_compute. split; reflexivity. Qed.

(* ------------------------------------------------------------------ *)
(* 2a. evaluation of a callable body only depends on the environment as a finite map *)

Definition env_equiv (e1 e2 : env) : Prop := forall x, env_get x e1 = env_get x e2.

Lemma env_equiv_refl e : env_equiv e e.
Proof. intros x. reflexivity. Qed.
Lemma env_equiv_trans e1 e2 e3 : env_equiv e1 e2 -> env_equiv e2 e3 -> env_equiv e1 e3.
Proof. intros H1 H2 x. rewrite H1. apply H2. Qed.
Lemma env_equiv_cons x v e1 e2 : env_equiv e1 e2 -> env_equiv ((x, v) :: e1) ((x, v) :: e2).
Proof. intros H y. cbn [env_get]. destruct (String.eqb y x); [ reflexivity | apply H ]. Qed.
Lemma env_equiv_swap k1 v1 k2 v2 e1 e2 : k1 <> k2 -> env_equiv e1 e2 ->
  env_equiv ((k1, v1) :: (k2, v2) :: e1) ((k2, v2) :: (k1, v1) :: e2).
Proof.
  intros Hne H y. cbn [env_get].
  destruct (String.eqb_spec y k1) as [ E1 | N1 ]; destruct (String.eqb_spec y k2) as [ E2 | N2 ];
    try reflexivity; [ congruence | apply H ].
Qed.

Section ExprInd.
  Variable P : expr -> Prop.
  Hypothesis HVar : forall x, P (EVar x).
  Hypothesis HInt : forall z, P (EInt z).
  Hypothesis HBool : forall b, P (EBool b).
  Hypothesis HCmp : forall c a b, P a -> P b -> P (ECmp c a b).
  Hypothesis HBin : forall o a b, P a -> P b -> P (EBin o a b).
  Hypothesis HNot : forall a, P a -> P (ENot a).
  Hypothesis HCall : forall f args, Forall P args -> P (ECall f args).
  Hypothesis HGen : forall elt x it, P elt -> P it -> P (EGen elt x it).
  Hypothesis HMeth : forall o m, P o -> P (EMeth o m).
  Hypothesis HSubscr : forall a i, P a -> P i -> P (ESubscr a i).
  Fixpoint expr_ind' (e : expr) : P e :=
    match e with
    | EVar x => HVar x
    | EInt z => HInt z
    | EBool b => HBool b
    | ECmp c a b => HCmp c a b (expr_ind' a) (expr_ind' b)
    | EBin o a b => HBin o a b (expr_ind' a) (expr_ind' b)
    | ENot a => HNot a (expr_ind' a)
    | ECall f args =>
        HCall f args ((fix go (l : list expr) : Forall P l :=
                         match l with [] => Forall_nil P | a :: r => Forall_cons a (expr_ind' a) (go r) end) args)
    | EGen elt x it => HGen elt x it (expr_ind' elt) (expr_ind' it)
    | EMeth o m => HMeth o m (expr_ind' o)
    | ESubscr a i => HSubscr a i (expr_ind' a) (expr_ind' i)
    end.
End ExprInd.

Section StmtInd.
  Variable P : stmt -> Prop.
  Hypothesis HReturn : forall e, P (SReturn e).
  Hypothesis HFor : forall k v it body, Forall P body -> P (SFor2 k v it body).
  Hypothesis HTry : forall body exn handler, Forall P body -> Forall P handler -> P (STry body exn handler).
  Hypothesis HIf : forall c body, Forall P body -> P (SIf c body).
  Fixpoint stmt_ind' (s : stmt) : P s :=
    let go := fix go (l : list stmt) : Forall P l :=
      match l with [] => Forall_nil P | a :: r => Forall_cons a (stmt_ind' a) (go r) end in
    match s with
    | SReturn e => HReturn e
    | SFor2 k v it body => HFor k v it body (go body)
    | STry body exn handler => HTry body exn handler (go body) (go handler)
    | SIf c body => HIf c body (go body)
    end.
End StmtInd.

Section EvalExt.
  Variable call : string -> list pyval -> res pyval.

  (* the argument list of a call, and the two shapes of a call, as the evaluator computes them *)
  Definition ev_args (en : env) : list expr -> res (list xval) :=
    fix go (l : list expr) : res (list xval) :=
      match l with
      | [] => Ok []
      | a :: r => let* x := ev call en a in let* xs := go r in Ok (x :: xs)
      end.

  Definition ecall_gen (en : env) (f : string) (elt : expr) (x : string) (it : expr) : res xval :=
    let* src := ev call en it in
    let* items := x_iter src in
    if String.eqb f "any" then
      let* b := any_res (fun v => let* t := ev call ((x, v) :: en) elt in Ok (x_truthy t)) items in Ok (XV (VBool b))
    else if String.eqb f "all" then
      let* b := all_res (fun v => let* t := ev call ((x, v) :: en) elt in Ok (x_truthy t)) items in Ok (XV (VBool b))
    else if String.eqb f "sum" then
      let* n := sum_res (fun v => let* t := ev call ((x, v) :: en) elt in x_int t) items 0 in Ok (XV (VInt n))
    else Err OtherExc.

  Definition ecall_plain (en : env) (f : string) (args : list expr) : res xval :=
    let* vals := ev_args en args in
    if String.eqb f "set" then
      match vals with
      | [x] => let* l := x_iter x in let* s := mk_set l in Ok (XSet s)
      | _ => Err OtherExc
      end
    else if String.eqb f "isinstance" then
      match vals with
      | [XV a; XV c] => let* r := py_isinstance a c in Ok (XV (VBool r))
      | _ => Err OtherExc
      end
    else if String.eqb f "range" then
      match vals with
      | [XV lo; XV hi] => mk_range lo hi
      | _ => Err OtherExc
      end
    else if String.eqb f "abs" then
      match vals with
      | [XV a] => let* r := py_abs a in Ok (XV r)
      | _ => Err OtherExc
      end
    else
      let* pv := mapM as_val vals in
      let* r := call f pv in Ok (XV r).

  Definition ecall_body (en : env) (f : string) (args : list expr) : res xval :=
    match args with
    | [EGen elt x it] => ecall_gen en f elt x it
    | _ => ecall_plain en f args
    end.

  Lemma ev_call_unfold en f args : ev call en (ECall f args) = ecall_body en f args.
  Proof. destruct args as [ | a [ | b r ] ]; [ reflexivity | destruct a; reflexivity | destruct a; reflexivity ]. Qed.

  Definition ev_ext_at (e : expr) : Prop :=
    forall en1 en2, env_equiv en1 en2 -> ev call en1 e = ev call en2 e.
  Definition ev_ext_sub (e : expr) : Prop :=
    ev_ext_at e /\ match e with EGen elt _ it => ev_ext_at elt /\ ev_ext_at it | _ => True end.

  Lemma ev_args_ext en1 en2 : env_equiv en1 en2 -> forall l, Forall ev_ext_sub l -> ev_args en1 l = ev_args en2 l.
  Proof.
    intros Heq. induction l as [ | a r IH ]; intros HF; [ reflexivity | ].
    inversion HF as [ | ? ? Ha Hr ]; subst. cbn [ev_args].
    rewrite (proj1 Ha en1 en2 Heq). fold (ev_args en1 r). fold (ev_args en2 r). rewrite (IH Hr). reflexivity.
  Qed.

  Lemma ecall_plain_ext en1 en2 f l : env_equiv en1 en2 -> Forall ev_ext_sub l ->
    ecall_plain en1 f l = ecall_plain en2 f l.
  Proof. intros Heq HF. unfold ecall_plain. rewrite (ev_args_ext en1 en2 Heq l HF). reflexivity. Qed.

  Lemma ecall_gen_ext en1 en2 f elt x it : env_equiv en1 en2 -> ev_ext_at elt -> ev_ext_at it ->
    ecall_gen en1 f elt x it = ecall_gen en2 f elt x it.
  Proof.
    intros Heq Helt Hit. unfold ecall_gen. rewrite (Hit en1 en2 Heq).
    destruct (ev call en2 it) as [ src | e ]; cbn [bind]; [ | reflexivity ].
    destruct (x_iter src) as [ items | e ]; cbn [bind]; [ | reflexivity ].
    assert (Hx : forall v, ev call ((x, v) :: en1) elt = ev call ((x, v) :: en2) elt)
      by (intros v; apply Helt, env_equiv_cons, Heq).
    rewrite (any_res_ext _ (fun v => let* t := ev call ((x, v) :: en2) elt in Ok (x_truthy t)) items)
      by (intros v; rewrite Hx; reflexivity).
    rewrite (all_res_ext _ (fun v => let* t := ev call ((x, v) :: en2) elt in Ok (x_truthy t)) items)
      by (intros v; rewrite Hx; reflexivity).
    rewrite (sum_res_ext _ (fun v => let* t := ev call ((x, v) :: en2) elt in x_int t) items 0)
      by (intros v; rewrite Hx; reflexivity).
    reflexivity.
  Qed.

  Lemma ev_ext_sub_all : forall e, ev_ext_sub e.
  Proof.
    apply expr_ind'.
    - intros x. split; [ | exact I ]. intros en1 en2 Heq. cbn [ev]. rewrite (Heq x). reflexivity.
    - intros z. split; [ | exact I ]. intros en1 en2 Heq. reflexivity.
    - intros b. split; [ | exact I ]. intros en1 en2 Heq. reflexivity.
    - intros c a b [Ha _] [Hb _]. split; [ | exact I ]. intros en1 en2 Heq. cbn [ev].
      rewrite (Ha en1 en2 Heq), (Hb en1 en2 Heq). reflexivity.
    - intros o a b [Ha _] [Hb _]. split; [ | exact I ]. intros en1 en2 Heq. cbn [ev].
      rewrite (Ha en1 en2 Heq), (Hb en1 en2 Heq). reflexivity.
    - intros a [Ha _]. split; [ | exact I ]. intros en1 en2 Heq. cbn [ev]. rewrite (Ha en1 en2 Heq). reflexivity.
    - intros f args HF. split; [ | exact I ]. intros en1 en2 Heq. rewrite !ev_call_unfold.
      destruct args as [ | a r ]; [ reflexivity | ].
      destruct a; try (apply (ecall_plain_ext en1 en2 f _ Heq HF)).
      destruct r as [ | b r ]; [ | apply (ecall_plain_ext en1 en2 f _ Heq HF) ].
      inversion HF as [ | ? ? Ha _ ]; subst. destruct Ha as [_ [Helt Hit]].
      apply ecall_gen_ext; assumption.
    - intros elt x it [Helt _] [Hit _]. split; [ | split; assumption ]. intros en1 en2 Heq. reflexivity.
    - intros o m [Ho _]. split; [ | exact I ]. intros en1 en2 Heq. cbn [ev]. rewrite (Ho en1 en2 Heq). reflexivity.
    - intros a i [Ha _] [Hi _]. split; [ | exact I ]. intros en1 en2 Heq. cbn [ev].
      rewrite (Ha en1 en2 Heq), (Hi en1 en2 Heq). reflexivity.
  Qed.

  Theorem ev_ext e en1 en2 : env_equiv en1 en2 -> ev call en1 e = ev call en2 e.
  Proof. exact (proj1 (ev_ext_sub_all e) en1 en2). Qed.

  (* statements *)
  Definition exec_block : env -> list stmt -> res (option pyval) :=
    fix go (en : env) (l : list stmt) {struct l} : res (option pyval) :=
      match l with
      | [] => Ok None
      | s :: r => let* o := exec call en s in match o with Some v => Ok (Some v) | None => go en r end
      end.

  Lemma exec_list_block en l : exec_list call en l = exec_block en l.
  Proof. induction l as [ | s r IH ]; [ reflexivity | ]. cbn [exec_list exec_block]. fold exec_block. rewrite IH. reflexivity. Qed.

  Definition exec_for (k v : string) (en : env) (body : list stmt) : list (pyval * pyval) -> res (option pyval) :=
    fix loop (l : list (pyval * pyval)) : res (option pyval) :=
      match l with
      | [] => Ok None
      | (a, b) :: r =>
          let* o := exec_block ((k, a) :: (v, b) :: en) body in
          match o with Some w => Ok (Some w) | None => loop r end
      end.

  Lemma exec_return en e : exec call en (SReturn e) = let* x := ev call en e in let* v := as_val x in Ok (Some v).
  Proof. reflexivity. Qed.
  Lemma exec_if en c body : exec call en (SIf c body) =
    let* x := ev call en c in if x_truthy x then exec_block en body else Ok None.
  Proof. reflexivity. Qed.
  Lemma exec_try en body exn handler : exec call en (STry body exn handler) =
    match exec_block en body with
    | Err e => if catches [exn] e then exec_block en handler else Err e
    | r => r
    end.
  Proof. reflexivity. Qed.
  Lemma exec_for2 en k v it body : exec call en (SFor2 k v it body) =
    let* x := ev call en it in
    match x with XItems l => exec_for k v en body l | _ => Err OtherExc end.
  Proof. reflexivity. Qed.

  Definition exec_ext_at (s : stmt) : Prop :=
    forall en1 en2, env_equiv en1 en2 -> exec call en1 s = exec call en2 s.

  Lemma exec_block_ext l : Forall exec_ext_at l ->
    forall en1 en2, env_equiv en1 en2 -> exec_block en1 l = exec_block en2 l.
  Proof.
    induction l as [ | s r IH ]; intros HF en1 en2 Heq; [ reflexivity | ].
    inversion HF as [ | ? ? Hs Hr ]; subst. cbn [exec_block]. fold exec_block.
    rewrite (Hs en1 en2 Heq), (IH Hr en1 en2 Heq). reflexivity.
  Qed.

  Lemma exec_ext_all : forall s, exec_ext_at s.
  Proof.
    apply stmt_ind'.
    - intros e en1 en2 Heq. rewrite !exec_return, (ev_ext e en1 en2 Heq). reflexivity.
    - intros k v it body HF en1 en2 Heq. rewrite !exec_for2, (ev_ext it en1 en2 Heq).
      destruct (ev call en2 it) as [ x | e ]; cbn [bind]; [ | reflexivity ].
      destruct x; try reflexivity.
      induction l as [ | [a b] r IH ]; [ reflexivity | ]. cbn [exec_for]. fold (exec_for k v en1 body). fold (exec_for k v en2 body).
      rewrite (exec_block_ext body HF ((k, a) :: (v, b) :: en1) ((k, a) :: (v, b) :: en2))
        by (apply env_equiv_cons, env_equiv_cons, Heq).
      rewrite IH. reflexivity.
    - intros body exn handler HB HH en1 en2 Heq. rewrite !exec_try.
      rewrite (exec_block_ext body HB en1 en2 Heq), (exec_block_ext handler HH en1 en2 Heq). reflexivity.
    - intros c body HF en1 en2 Heq. rewrite !exec_if, (ev_ext c en1 en2 Heq), (exec_block_ext body HF en1 en2 Heq).
      reflexivity.
  Qed.

  Theorem exec_list_ext l en1 en2 : env_equiv en1 en2 -> exec_list call en1 l = exec_list call en2 l.
  Proof.
    intros Heq. rewrite !exec_list_block. apply exec_block_ext; [ | exact Heq ].
    apply Forall_forall. intros s _. apply exec_ext_all.
  Qed.
End EvalExt.

(* ------------------------------------------------------------------ *)
(* 2b. binding keyword arguments given in a different order              *)

Definition bk_state := (env * list string * list (pyval * pyval))%type.
Definition bk_rel (r1 r2 : res bk_state) : Prop :=
  match r1, r2 with
  | Ok (e1, m1, x1), Ok (e2, m2, x2) => env_equiv e1 e2 /\ m1 = m2 /\ Permutation x1 x2
  | Err a, Err b => a = b
  | _, _ => False
  end.

Lemma bk_rel_trans r1 r2 r3 : bk_rel r1 r2 -> bk_rel r2 r3 -> bk_rel r1 r3.
Proof.
  destruct r1 as [ [[e1 m1] x1] | a1 ]; destruct r2 as [ [[e2 m2] x2] | a2 ]; destruct r3 as [ [[e3 m3] x3] | a3 ];
    cbn [bk_rel]; try tauto; try congruence.
  intros [H1 [H2 H3]] [G1 [G2 G3]]. repeat split.
  - eapply env_equiv_trans; eassumption.
  - congruence.
  - eapply Permutation_trans; eassumption.
Qed.

Lemma bind_kw_rel_same params hk : forall kw missing e1 e2 x1 x2, env_equiv e1 e2 -> Permutation x1 x2 ->
  bk_rel (bind_kw params missing hk kw e1 x1) (bind_kw params missing hk kw e2 x2).
Proof.
  induction kw as [ | [k v] r IH ]; intros missing e1 e2 x1 x2 He Hx; cbn [bind_kw].
  - cbn [bk_rel]. repeat split; assumption.
  - destruct (existsb (String.eqb k) missing).
    + apply IH; [ apply env_equiv_cons, He | exact Hx ].
    + destruct (existsb (String.eqb k) params); [ reflexivity | ].
      destruct hk; [ | reflexivity ].
      apply IH; [ exact He | apply Permutation_app; [ exact Hx | apply Permutation_refl ] ].
Qed.

Lemma existsb_filter_ne (k k' : string) (l : list string) : k <> k' ->
  existsb (String.eqb k) (filter (fun m => negb (String.eqb k' m)) l) = existsb (String.eqb k) l.
Proof.
  intros Hne. induction l as [ | m l IH ]; [ reflexivity | ]. cbn [filter existsb].
  destruct (String.eqb_spec k' m) as [ E | N ]; cbn [negb].
  - subst m. destruct (String.eqb_spec k k') as [ E' | _ ]; [ contradiction | ]. cbn [orb]. exact IH.
  - cbn [existsb]. rewrite IH. reflexivity.
Qed.

Lemma filter_filter_comm {X} (p q : X -> bool) l : filter p (filter q l) = filter q (filter p l).
Proof.
  induction l as [ | x l IH ]; [ reflexivity | ]. cbn [filter].
  destruct (p x) eqn:Ep; destruct (q x) eqn:Eq; cbn [filter]; rewrite ?Ep, ?Eq, IH; reflexivity.
Qed.

Lemma bind_kw_swap params hk k1 v1 k2 v2 l missing e1 e2 x1 x2 : k1 <> k2 ->
  env_equiv e1 e2 -> Permutation x1 x2 ->
  bk_rel (bind_kw params missing hk ((k1, v1) :: (k2, v2) :: l) e1 x1)
         (bind_kw params missing hk ((k2, v2) :: (k1, v1) :: l) e2 x2).
Proof.
  intros Hne He Hx. cbn [bind_kw].
  assert (Hne' : k2 <> k1) by congruence.
  rewrite (existsb_filter_ne k2 k1 missing Hne'), (existsb_filter_ne k1 k2 missing Hne).
  rewrite (filter_filter_comm (fun m => negb (String.eqb k2 m)) (fun m => negb (String.eqb k1 m)) missing).
  destruct (existsb (String.eqb k1) missing); destruct (existsb (String.eqb k2) missing);
    destruct (existsb (String.eqb k1) params); destruct (existsb (String.eqb k2) params); destruct hk;
    try reflexivity;
    try (apply bind_kw_rel_same;
         [ first [ apply env_equiv_swap; [ congruence | exact He ] | apply env_equiv_cons, He | exact He ]
         | first [ exact Hx | apply Permutation_app; [ exact Hx | apply Permutation_refl ] | idtac ] ]).
  rewrite <- !app_assoc. apply Permutation_app; [ exact Hx | apply perm_swap ].
Qed.

Lemma bind_kw_perm params hk kw1 kw2 : Permutation kw1 kw2 -> NoDup (map fst kw1) ->
  forall missing e1 e2 x1 x2, env_equiv e1 e2 -> Permutation x1 x2 ->
  bk_rel (bind_kw params missing hk kw1 e1 x1) (bind_kw params missing hk kw2 e2 x2).
Proof.
  induction 1 as [ | [k v] l l' Hp IH | [k1 v1] [k2 v2] l | l l' l'' Hp1 IH1 Hp2 IH2 ];
    intros Hnd missing e1 e2 x1 x2 He Hx.
  - cbn [bind_kw bk_rel]. repeat split; assumption.
  - cbn [map fst] in Hnd. inversion Hnd as [ | ? ? _ Hnd' ]; subst. cbn [bind_kw].
    destruct (existsb (String.eqb k) missing).
    + apply IH; [ exact Hnd' | apply env_equiv_cons, He | exact Hx ].
    + destruct (existsb (String.eqb k) params); [ reflexivity | ].
      destruct hk; [ | reflexivity ].
      apply IH; [ exact Hnd' | exact He | apply Permutation_app; [ exact Hx | apply Permutation_refl ] ].
  - cbn [map fst] in Hnd. inversion Hnd as [ | ? ? Hnotin _ ]; subst.
    apply bind_kw_swap; [ | exact He | exact Hx ].
    intros E. apply Hnotin. left. symmetry. exact E.
  - eapply bk_rel_trans.
    + apply (IH1 Hnd missing e1 e1 x1 x1); [ apply env_equiv_refl | apply Permutation_refl ].
    + apply IH2; [ | exact He | exact Hx ].
      eapply Permutation_NoDup; [ | exact Hnd ]. apply Permutation_map. exact Hp1.
Qed.

(* a signature without **kwargs: the bound environment is the same finite map *)
Lemma bind_args_perm s pos kw1 kw2 : s_kwarg s = None -> Permutation kw1 kw2 -> NoDup (map fst kw1) ->
  match bind_args s pos kw1, bind_args s pos kw2 with
  | Ok en1, Ok en2 => env_equiv en1 en2
  | Err a, Err b => a = b
  | _, _ => False
  end.
Proof.
  intros Hk Hp Hnd. unfold bind_args. rewrite Hk.
  destruct (bind_pos (s_params s) pos) as [[e0 missing] extra_pos].
  match goal with |- context [bind ?r _] => destruct r as [ e1 | a ] end; cbn [bind]; [ | reflexivity ].
  pose proof (bind_kw_perm (s_params s) false kw1 kw2 Hp Hnd missing e1 e1 [] []
                (env_equiv_refl e1) (Permutation_refl _)) as H.
  destruct (bind_kw (s_params s) missing false kw1 e1 []) as [ [[ea ma] xa] | a ];
    destruct (bind_kw (s_params s) missing false kw2 e1 []) as [ [[eb mb] xb] | b ];
    cbn [bk_rel] in H; cbn [bind]; try contradiction.
  - destruct H as [He [Hm _]]. subst mb. destruct ma; [ exact He | reflexivity ].
  - exact H.
Qed.

Lemma call_def_perm fuel defs name pos kw1 kw2 :
  (forall d, find_def defs name = Some d -> s_kwarg (f_sig d) = None) ->
  Permutation kw1 kw2 -> NoDup (map fst kw1) ->
  call_def fuel defs name pos kw1 = call_def fuel defs name pos kw2.
Proof.
  intros Hk Hp Hnd. destruct fuel as [ | f ]; [ reflexivity | ]. cbn [call_def].
  destruct (find_def defs name) as [ d | ]; [ | reflexivity ].
  pose proof (bind_args_perm (f_sig d) pos kw1 kw2 (Hk d eq_refl) Hp Hnd) as H.
  destruct (bind_args (f_sig d) pos kw1) as [ en1 | a ]; destruct (bind_args (f_sig d) pos kw2) as [ en2 | b ];
    try contradiction; cbn [bind].
  - rewrite (exec_list_ext _ (f_body d) en1 en2 H). reflexivity.
  - rewrite H. reflexivity.
Qed.

(* ------------------------------------------------------------------ *)
(* 2c. the callables of the current source: the order of keyword arguments is immaterial *)

Lemma find_def_in defs name d : find_def defs name = Some d -> In d defs /\ f_name d = name.
Proof.
  induction defs as [ | x r IH ]; cbn [find_def]; [ discriminate | ].
  destruct (String.eqb_spec (f_name x) name) as [ E | N ].
  - intros H. inversion H; subst. split; [ left; reflexivity | reflexivity ].
  - intros H. destruct (IH H) as [Hin Hn]. split; [ right; exact Hin | exact Hn ].
Qed.

(* items_contain is the only callable of callables.py with a **kwargs parameter *)
Lemma T_defs_kwarg_b :
  forallb (fun d => String.eqb (f_name d) "items_contain" || match s_kwarg (f_sig d) with None => true | Some _ => false end)
          (t_defs T) = true.
Proof. vm_compute. reflexivity. Qed.

Lemma T_defs_kwarg name d : name <> "items_contain" -> find_def (t_defs T) name = Some d -> s_kwarg (f_sig d) = None.
Proof.
  intros Hne Hf. destruct (find_def_in _ _ _ Hf) as [Hin Hn].
  pose proof (proj1 (forallb_forall _ _) T_defs_kwarg_b d Hin) as H. cbn beta in H.
  rewrite Hn in H. destruct (String.eqb_spec name "items_contain") as [ E | _ ]; [ contradiction | ].
  cbn [orb] in H. destruct (s_kwarg (f_sig d)); [ discriminate | reflexivity ].
Qed.

Definition has_trial_dict (kw : list (string * pyval)) : bool :=
  existsb (fun kv => String.eqb (fst kv) "trial_dict") kw.

Lemma bind_kw_items_bad : forall (kw : list (string * pyval)) e extra, has_trial_dict kw = true ->
  bind_kw ["trial_dict"] [] true kw e extra = Err TypeError.
Proof.
  induction kw as [ | [k v] r IH ]; intros e extra H; [ discriminate H | ].
  unfold has_trial_dict in H. cbn [existsb fst] in H. cbn [bind_kw existsb].
  destruct (String.eqb k "trial_dict"); cbn [orb]; [ reflexivity | ].
  apply IH. exact H.
Qed.

(* the call of items_contain, in closed form (Tie.t_items for the regular case) *)
Lemma call_items_contain p args kw :
  call_def call_fuel (t_defs T) "items_contain" (p :: args) kw =
  match args with
  | [] => if has_trial_dict kw then Err TypeError else Check.okb (DocSem.items_match p kw)
  | _ :: _ => Err TypeError
  end.
Proof.
  destruct args as [ | a r ].
  - destruct (has_trial_dict kw) eqn:E.
    + unfold call_def, call_fuel. cbn [find_def t_defs T TablesGen.gen_tables]. cbn. unfold bind_args. cbn.
      rewrite (bind_kw_items_bad kw _ _ E). reflexivity.
    + change (call_q (DocSem.Q_items_contain kw) p = Check.okb (DocSem.q_sem (DocSem.Q_items_contain kw) p)).
      apply t_items. cbn [q_wf]. fold (has_trial_dict kw). rewrite E. reflexivity.
  - unfold call_def, call_fuel. cbn [find_def t_defs T TablesGen.gen_tables]. cbn. reflexivity.
Qed.

(* d[k] for string keys k: either never raises anything but KeyError, or raises the same TypeError for every k *)
Lemma getitem_str_uniform d :
  (forall k, match py_getitem d (VStr k) with Ok _ | Err KeyError => True | Err _ => False end) \/
  (forall k, py_getitem d (VStr k) = Err TypeError).
Proof.
  destruct d; try (right; intros k; reflexivity).
  left. intros k. cbn [py_getitem]. 
  destruct (py_hashable (VStr k)) eqn:E; [ | vm_compute in E; discriminate E ].
  match goal with |- context [dict_look ?a ?b] => destruct (dict_look a b) end; exact I.
Qed.

Lemma items_match_perm d kw1 kw2 : Permutation kw1 kw2 -> DocSem.items_match d kw1 = DocSem.items_match d kw2.
Proof.
  induction 1 as [ | [k v] l l' _ IH | [k1 v1] [k2 v2] l | l l' l'' _ IH1 _ IH2 ].
  - reflexivity.
  - cbn [DocSem.items_match]. rewrite IH. reflexivity.
  - cbn [DocSem.items_match].
    destruct (getitem_str_uniform d) as [ H | H ].
    + pose proof (H k1) as H1. pose proof (H k2) as H2.
      destruct (py_getitem d (VStr k1)) as [ y1 | e1 ]; destruct (py_getitem d (VStr k2)) as [ y2 | e2 ].
      * destruct (negb (py_eq y1 v1)); destruct (negb (py_eq y2 v2)); reflexivity.
      * destruct e2; try contradiction. destruct (negb (py_eq y1 v1)); reflexivity.
      * destruct e1; try contradiction. destruct (negb (py_eq y2 v2)); reflexivity.
      * destruct e1; try contradiction. destruct e2; try contradiction. reflexivity.
    + rewrite (H k1), (H k2). reflexivity.
  - congruence.
Qed.

Lemma has_trial_dict_perm kw1 kw2 : Permutation kw1 kw2 -> has_trial_dict kw1 = has_trial_dict kw2.
Proof.
  unfold has_trial_dict.
  induction 1 as [ | x l l' _ IH | x y l | l l' l'' _ IH1 _ IH2 ]; cbn [existsb].
  - reflexivity.
  - rewrite IH. reflexivity.
  - rewrite !orb_assoc, (orb_comm ((fst y =? "trial_dict")%string)). reflexivity.
  - congruence.
Qed.

(* every callable of the current source, called as the filter loop calls it *)
Theorem call_def_T_perm name p args kw1 kw2 : Permutation kw1 kw2 -> NoDup (map fst kw1) ->
  call_def call_fuel (t_defs T) name (p :: args) kw1 = call_def call_fuel (t_defs T) name (p :: args) kw2.
Proof.
  intros Hp Hnd. destruct (String.eqb_spec name "items_contain") as [ E | N ].
  - subst name. rewrite !call_items_contain. destruct args; [ | reflexivity ].
    rewrite (has_trial_dict_perm kw1 kw2 Hp), (items_match_perm p kw1 kw2 Hp). reflexivity.
  - apply call_def_perm; [ | exact Hp | exact Hnd ]. intros d Hd. exact (T_defs_kwarg name d N Hd).
Qed.

(* ------------------------------------------------------------------ *)
(* 2d. the relation cond_same and its behaviour                          *)

Section Same.
  Variable A : Type.

  (* trees related leaf-wise by R, operands in the same or in swapped order, at any depth *)
  Inductive cond_rel (R : leaf A -> leaf A -> Prop) : cond A -> cond A -> Prop :=
  | CR_leaf l1 l2 : R l1 l2 -> cond_rel R (CLeaf l1) (CLeaf l2)
  | CR_bin o a b a' b' : cond_rel R a a' -> cond_rel R b b' -> cond_rel R (CBin o a b) (CBin o a' b')
  | CR_swap o a b a' b' : cond_rel R a b' -> cond_rel R b a' -> cond_rel R (CBin o a b) (CBin o a' b').

  (* identical leaves, up to the order of the keyword arguments (names distinct, as in every Python call) *)
  Definition leaf_same (l1 l2 : leaf A) : Prop :=
    l_cls l1 = l_cls l2 /\ l_kind l1 = l_kind l2 /\ l_pre l1 = l_pre l2 /\ l_call l1 = l_call l2 /\
    l_args l1 = l_args l2 /\ Permutation (l_kwargs l1) (l_kwargs l2) /\ NoDup (map fst (l_kwargs l1)).

  Definition cond_same : cond A -> cond A -> Prop := cond_rel leaf_same.
  (* only operand order differs *)
  Definition cond_comm : cond A -> cond A -> Prop := cond_rel eq.

  Lemma cond_rel_mono (R R' : leaf A -> leaf A -> Prop) c1 c2 :
    (forall l1 l2, In l1 (leaves c1) -> R l1 l2 -> R' l1 l2) -> cond_rel R c1 c2 -> cond_rel R' c1 c2.
  Proof.
    intros HR H. induction H as [ l1 l2 Hl | o a b a' b' Ha IHa Hb IHb | o a b a' b' Ha IHa Hb IHb ].
    - apply CR_leaf. apply HR; [ left; reflexivity | exact Hl ].
    - apply CR_bin; [ apply IHa | apply IHb ]; intros l1 l2 Hin; apply HR; cbn [leaves]; apply in_or_app; auto.
    - apply CR_swap; [ apply IHa | apply IHb ]; intros l1 l2 Hin; apply HR; cbn [leaves]; apply in_or_app; auto.
  Qed.

  Lemma cond_comm_same c1 c2 : (forall l, In l (leaves c1) -> NoDup (map fst (l_kwargs l))) ->
    cond_comm c1 c2 -> cond_same c1 c2.
  Proof.
    intros Hnd. apply cond_rel_mono. intros l1 l2 Hin E. subst l2.
    repeat split; try reflexivity. apply Hnd, Hin.
  Qed.

  Lemma cond_comm_refl : forall c, cond_comm c c.
  Proof. induction c as [ l | o a IHa b IHb ]; [ apply CR_leaf; reflexivity | apply CR_bin; assumption ]. Qed.

  Lemma cond_comm_swap o a b : cond_comm (CBin o a b) (CBin o b a).
  Proof. apply CR_swap; apply cond_comm_refl. Qed.

  Variable T0 : tables.
  Variable resolve : A -> res pyval.

  (* lifting: if related leaves filter alike, related trees filter alike *)
  Theorem cond_rel_behaviour (R : leaf A -> leaf A -> Prop) d c1 c2 :
    (forall l1 l2, In l1 (leaves c1) -> R l1 l2 ->
       res_same (filter_leaf T0 resolve l1 d) (filter_leaf T0 resolve l2 d)) ->
    cond_rel R c1 c2 -> res_same (filter_tree T0 resolve c1 d) (filter_tree T0 resolve c2 d).
  Proof.
    intros HR H. induction H as [ l1 l2 Hl | o a b a' b' Ha IHa Hb IHb | o a b a' b' Ha IHa Hb IHb ].
    - cbn [filter_tree]. apply HR; [ left; reflexivity | exact Hl ].
    - assert (Ga : res_same (filter_tree T0 resolve a d) (filter_tree T0 resolve a' d))
        by (apply IHa; intros l1 l2 Hin; apply HR; cbn [leaves]; apply in_or_app; auto).
      assert (Gb : res_same (filter_tree T0 resolve b d) (filter_tree T0 resolve b' d))
        by (apply IHb; intros l1 l2 Hin; apply HR; cbn [leaves]; apply in_or_app; auto).
      cbn [filter_tree].
      destruct (filter_tree T0 resolve a d) as [ fa | ea ]; destruct (filter_tree T0 resolve a' d) as [ fa' | ea' ];
        cbn [res_same] in Ga; try contradiction;
        destruct (filter_tree T0 resolve b d) as [ fb | eb ]; destruct (filter_tree T0 resolve b' d) as [ fb' | eb' ];
        cbn [res_same] in Gb; try contradiction; cbn [bind res_same]; try exact I.
      apply combine_fres_cong; assumption.
    - assert (Ga : res_same (filter_tree T0 resolve a d) (filter_tree T0 resolve b' d))
        by (apply IHa; intros l1 l2 Hin; apply HR; cbn [leaves]; apply in_or_app; auto).
      assert (Gb : res_same (filter_tree T0 resolve b d) (filter_tree T0 resolve a' d))
        by (apply IHb; intros l1 l2 Hin; apply HR; cbn [leaves]; apply in_or_app; auto).
      cbn [filter_tree].
      destruct (filter_tree T0 resolve a d) as [ fa | ea ]; destruct (filter_tree T0 resolve b' d) as [ fb' | eb' ];
        cbn [res_same] in Ga; try contradiction;
        destruct (filter_tree T0 resolve b d) as [ fb | eb ]; destruct (filter_tree T0 resolve a' d) as [ fa' | ea' ];
        cbn [res_same] in Gb; try contradiction; cbn [bind res_same]; try exact I.
      eapply fres_same_trans; [ apply combine_fres_comm | ]. apply combine_fres_cong; assumption.
  Qed.

  (* operand order at any depth, identical leaves: no hypothesis at all *)
  Theorem C14_comm_behaviour c1 c2 d : cond_comm c1 c2 ->
    res_same (filter_tree T0 resolve c1 d) (filter_tree T0 resolve c2 d).
  Proof. apply cond_rel_behaviour. intros l1 l2 _ E. subst l2. apply res_same_refl. Qed.

  (* resolution of keyword arguments that cannot fail *)
  Definition kw_resolvable (l : leaf A) : Prop := forall kv, In kv (l_kwargs l) -> exists v, resolve (snd kv) = Ok v.

  Definition rv (a : A) : pyval := match resolve a with Ok v => v | Err _ => VNone end.
  Lemma resolve_kw_total : forall kw, (forall kv, In kv kw -> exists v, resolve (snd kv) = Ok v) ->
    resolve_kw A resolve kw = Ok (map (fun kv => (fst kv, rv (snd kv))) kw).
  Proof.
    induction kw as [ | [k a] r IH ]; intros H; [ reflexivity | ]. cbn [resolve_kw map fst snd].
    destruct (H (k, a) (or_introl eq_refl)) as [v Hv]. cbn [snd] in Hv. unfold rv at 1. rewrite Hv. cbn [bind].
    rewrite IH by (intros kv Hin; apply H; right; exact Hin). reflexivity.
  Qed.
End Same.
Arguments cond_rel {A}. Arguments cond_same {A}. Arguments cond_comm {A}. Arguments leaf_same {A}.
Arguments kw_resolvable {A}.

Lemma mapM_ext {X Y} (f g : X -> res Y) l : (forall x, f x = g x) -> mapM f l = mapM g l.
Proof. intros H. induction l as [ | x l IH ]; [ reflexivity | ]. cbn [mapM]. rewrite H, IH. reflexivity. Qed.

Section SameT.
  Variable A : Type.
  Variable resolve : A -> res pyval.

  (* leaves that differ in the order of their keyword arguments evaluate identically on every datum *)
  Theorem leaf_same_eval l1 l2 x : leaf_same l1 l2 -> kw_resolvable resolve l1 ->
    eval_item T resolve l1 x = eval_item T resolve l2 x.
  Proof.
    intros [Hc [Hk [Hp [Hf [Ha [Hperm Hnd]]]]]] Hres. unfold eval_item. rewrite <- Hp.
    destruct (pre_apply (l_pre l1) x) as [ v | e ]; [ | reflexivity ].
    assert (Hcall : call_leaf T resolve l1 v = call_leaf T resolve l2 v).
    { unfold call_leaf. rewrite <- Ha, <- Hf.
      destruct (mapM resolve (l_args l1)) as [ args | e ]; cbn [bind]; [ | reflexivity ].
      rewrite (resolve_kw_total A resolve (l_kwargs l1) Hres).
      rewrite (resolve_kw_total A resolve (l_kwargs l2))
        by (intros kv Hin; apply Hres; eapply Permutation_in; [ apply Permutation_sym, Hperm | exact Hin ]).
      cbn [bind]. apply call_def_T_perm.
      - apply Permutation_map. exact Hperm.
      - rewrite map_map. cbn [fst]. exact Hnd. }
    rewrite Hcall. reflexivity.
  Qed.

  Theorem leaf_same_filter l1 l2 d : leaf_same l1 l2 -> kw_resolvable resolve l1 ->
    filter_leaf T resolve l1 d = filter_leaf T resolve l2 d.
  Proof.
    intros Hs Hres. unfold filter_leaf. destruct Hs as [Hc [Hk Hrest]]. rewrite <- Hk.
    rewrite (mapM_ext (eval_item T resolve l1) (eval_item T resolve l2))
      by (intros x; apply leaf_same_eval; [ repeat split; tauto | exact Hres ]).
    reflexivity.
  Qed.

  (* main statement (2), behaviour *)
  Theorem C14_strict_equal_behaviour c1 c2 :
    cond_same c1 c2 -> (forall l, In l (leaves c1) -> kw_resolvable resolve l) ->
    forall d, res_same (filter_tree T resolve c1 d) (filter_tree T resolve c2 d).
  Proof.
    intros Hs Hres d. apply (cond_rel_behaviour A T resolve leaf_same d c1 c2); [ | exact Hs ].
    intros l1 l2 Hin Hl. rewrite (leaf_same_filter l1 l2 d Hl (Hres l1 Hin)). apply res_same_refl.
  Qed.
End SameT.

(* ------------------------------------------------------------------ *)
(* 2e. cond_same implies ==                                              *)

Section SameEq.
  Variable A : Type.
  Variable aeq : A -> A -> bool.

  Lemma leaf_same_eqb l1 l2 : leaf_same l1 l2 -> (forall a, In a (leaf_args l1) -> aeq a a = true) ->
    leaf_eqb A aeq l1 l2 = true.
  Proof.
    intros [Hc [_ [_ [Hf [Ha [Hperm Hnd]]]]]] Hrefl. unfold leaf_eqb.
    rewrite <- Hc, <- Hf, <- Ha, !String.eqb_refl. cbn [andb].
    rewrite list_eqb_refl by (intros x Hx; apply Hrefl; unfold leaf_args; apply in_or_app; left; exact Hx).
    cbn [andb]. rewrite kw_eqb_geqb. apply geqb_true_iff. split.
    - apply Permutation_length. exact Hperm.
    - intros k v Hin. exists v. split.
      + apply (glook_in string String.eqb String.eqb_eq).
        * eapply Permutation_NoDup; [ apply Permutation_map; exact Hperm | exact Hnd ].
        * eapply Permutation_in; [ exact Hperm | exact Hin ].
      + apply Hrefl. unfold leaf_args. apply in_or_app. right.
        apply in_map_iff. exists (k, v). split; [ reflexivity | exact Hin ].
  Qed.

  Theorem cond_same_eqb c1 c2 : cond_same c1 c2 -> (forall a, In a (cond_args c1) -> aeq a a = true) ->
    cond_eqb A aeq c1 c2 = true.
  Proof.
    intros H. induction H as [ l1 l2 Hl | o a b a' b' Ha IHa Hb IHb | o a b a' b' Ha IHa Hb IHb ]; intros Hrefl.
    - cbn [cond_eqb]. apply leaf_same_eqb; [ exact Hl | exact Hrefl ].
    - cbn [cond_eqb cond_args] in *. rewrite bop_eqb_refl. cbn [andb].
      rewrite IHa by (intros x Hx; apply Hrefl, in_or_app; left; exact Hx).
      rewrite IHb by (intros x Hx; apply Hrefl, in_or_app; right; exact Hx). reflexivity.
    - cbn [cond_eqb cond_args] in *. rewrite bop_eqb_refl. cbn [andb].
      rewrite IHa by (intros x Hx; apply Hrefl, in_or_app; left; exact Hx).
      rewrite IHb by (intros x Hx; apply Hrefl, in_or_app; right; exact Hx). apply orb_true_r.
  Qed.
End SameEq.

(* main statement (2), equality: cond_same conditions compare equal (swaps and keyword order at any depth;
   the top-level swap alone is C14_cond1_commute) *)
Theorem C14_cond_same_eq c1 c2 : cond_same c1 c2 -> cond1_ok WF T c1 -> path_args_buildable T c1 ->
  cond1_eqb T c1 c2 = true.
Proof.
  intros Hs [_ Hok] Hb. apply cond_same_eqb; [ exact Hs | ].
  intros a Ha. apply (arg1_eqb_refl_D WF py_eq_refl_wf); [ apply Hok, Ha | apply Hb, Ha ].
Qed.

(* conditions with literal arguments only *)
Theorem C14_cond_same_eq_lit (c1 c2 : cond pyval) : cond_same c1 c2 -> cond0_ok WF c1 -> cond0_eqb c1 c2 = true.
Proof.
  intros Hs [_ Hok]. apply cond_same_eqb; [ exact Hs | ]. intros a Ha. apply py_eq_refl_wf, Hok, Ha.
Qed.

(* keyword arguments always resolve when they are literals *)
Lemma kw_resolvable_res0 (l : leaf pyval) : kw_resolvable res0 l.
Proof. intros kv _. exists (snd kv). reflexivity. Qed.

Definition kw_literal (l : leaf arg1) : Prop := forall kv, In kv (l_kwargs l) -> exists v, snd kv = ALit v.
Lemma kw_resolvable_lit src (l : leaf arg1) : kw_literal l -> kw_resolvable (resolve1 T src) l.
Proof. intros H kv Hin. destruct (H kv Hin) as [v Hv]. exists v. rewrite Hv. reflexivity. Qed.
(* no source document (Condition.filter called directly): a data-path argument stays a path object *)
Lemma kw_resolvable_nosrc (l : leaf arg1) : kw_resolvable (resolve1 T None) l.
Proof. intros [k [ v | tag p ]] _; cbn [snd resolve1]; eexists; reflexivity. Qed.

Corollary C14_strict_equal_behaviour_lit (c1 c2 : cond pyval) : cond_same c1 c2 ->
  forall d, res_same (filter_tree T res0 c1 d) (filter_tree T res0 c2 d).
Proof. intros Hs. apply C14_strict_equal_behaviour; [ exact Hs | ]. intros l _. apply kw_resolvable_res0. Qed.

Corollary C14_strict_equal_behaviour_nosrc (c1 c2 : cond arg1) : cond_same c1 c2 ->
  forall d, res_same (filter_tree T (resolve1 T None) c1 d) (filter_tree T (resolve1 T None) c2 d).
Proof. intros Hs. apply C14_strict_equal_behaviour; [ exact Hs | ]. intros l _. apply kw_resolvable_nosrc. Qed.

(* the user-visible entry point: cond.filter(doc) -> (result, data, keys, failure_indices) *)
Lemma cond_rel_entry_check {A} (R : leaf A -> leaf A -> Prop) c1 c2 raw :
  (forall l1 l2, R l1 l2 -> l_kind l1 = l_kind l2) -> cond_rel R c1 c2 -> entry_check c1 raw = entry_check c2 raw.
Proof. intros HR H. destruct H as [ l1 l2 Hl | | ]; cbn [entry_check]; [ rewrite (HR _ _ Hl) | | ]; reflexivity. Qed.

Theorem C14_strict_equal_run_filter (c1 c2 : cond pyval) doc : cond_same c1 c2 ->
  match run_filter_cond c1 doc, run_filter_cond c2 doc with
  | Ok o1, Ok o2 => o1 = o2
  | Err _, Err _ => True
  | _, _ => False
  end.
Proof.
  intros Hs. unfold run_filter_cond.
  rewrite (cond_rel_entry_check leaf_same c1 c2 doc) by (exact Hs || (intros l1 l2 H; apply H)).
  destruct (entry_check c2 doc) as [ [] | e ]; cbn [bind]; [ | exact I ].
  destruct (mk_data doc) as [ d | e ]; cbn [bind]; [ | exact I ].
  pose proof (C14_strict_equal_behaviour_lit c1 c2 Hs d) as H.
  destruct (filter_tree T res0 c1 d) as [ f1 | e1 ]; destruct (filter_tree T res0 c2 d) as [ f2 | e2 ];
    cbn [res_same] in H; try contradiction; cbn [bind]; [ | exact I ].
  apply fres_same_obs. exact H.
Qed.

(* ---- exhibits ---- *)
Definition ex_items_ab : leaf pyval :=
  {| l_cls := "Value"; l_kind := DValue; l_pre := PNone; l_call := "items_contain"; l_args := [];
     l_kwargs := [("a", VInt 1); ("b", VInt 2)] |}.
Definition ex_items_ba : leaf pyval :=
  {| l_cls := "Value"; l_kind := DValue; l_pre := PNone; l_call := "items_contain"; l_args := [];
     l_kwargs := [("b", VInt 2); ("a", VInt 1)] |}.
Definition ex_len : leaf pyval :=
  {| l_cls := "ValueLength"; l_kind := DValue; l_pre := PLen; l_call := "equal_to"; l_args := [];
     l_kwargs := [("value", VInt 2)] |}.
Definition ex_truthy : leaf pyval :=
  {| l_cls := "Value"; l_kind := DValue; l_pre := PNone; l_call := "truthy"; l_args := []; l_kwargs := [] |}.
Lemma leaf_same_refl {A} (l : leaf A) : NoDup (map fst (l_kwargs l)) -> leaf_same l l.
Proof. intros H. repeat split; try reflexivity. exact H. Qed.

(* (items_contain(a=1,b=2) & (len==2 | truthy))  vs  ((truthy | len==2) & items_contain(b=2,a=1)) *)
Example cond_same_inhabitant :
  cond_same (CBin BoAnd (CLeaf ex_items_ab) (CBin BoOr (CLeaf ex_len) (CLeaf ex_truthy)))
            (CBin BoAnd (CBin BoOr (CLeaf ex_truthy) (CLeaf ex_len)) (CLeaf ex_items_ba)).
Proof.
  apply CR_swap.
  - apply CR_leaf. unfold leaf_same. cbn. repeat split; try reflexivity.
    + apply perm_swap.
    + repeat constructor; cbn; intuition discriminate.
  - apply CR_swap; apply CR_leaf; apply leaf_same_refl; cbn; repeat constructor; cbn; intuition discriminate.
Qed.

(* the hypothesis kw_resolvable cannot be dropped: keyword arguments are resolved in their stored order and the
   first failure wins; a caught exception makes a callable-error entry, an uncaught one propagates *)
Definition ex_kw_te_re : leaf exc :=
  {| l_cls := "Value"; l_kind := DValue; l_pre := PNone; l_call := "in_range"; l_args := [];
     l_kwargs := [("lower", TypeError); ("upper", RuntimeError)] |}.
Definition ex_kw_re_te : leaf exc :=
  {| l_cls := "Value"; l_kind := DValue; l_pre := PNone; l_call := "in_range"; l_args := [];
     l_kwargs := [("upper", RuntimeError); ("lower", TypeError)] |}.
Example C14_kwarg_resolution_order_counterexample :
  cond_same (CLeaf ex_kw_te_re) (CLeaf ex_kw_re_te) /\
  (exists f, filter_tree T (fun e : exc => Err e) (CLeaf ex_kw_te_re) one_item = Ok f /\ fr_cerr f = [true]) /\
  filter_tree T (fun e : exc => Err e) (CLeaf ex_kw_re_te) one_item = Err RuntimeError.
Proof.
  split; [ | split ].
  - apply CR_leaf. unfold leaf_same. cbn. repeat split; try reflexivity.
    + apply perm_swap.
    + repeat constructor; cbn; intuition discriminate.
  - eexists. split; [ vm_compute; reflexivity | reflexivity ].
  - vm_compute. reflexivity.
Qed.

(* finding D22 replayed on the model: Value.in_range(1.0, 3) == Value.in_range(1, 3) but range(1.0, 3) raises *)
Definition ex_range (lo : pyval) : leaf pyval :=
  {| l_cls := "Value"; l_kind := DValue; l_pre := PNone; l_call := "in_range"; l_args := [];
     l_kwargs := [("lower", lo); ("upper", VInt 3)] |}.
Definition one_float : pyval := VFloat false 4503599627370496%N (-52).
Example C14_eq_not_behaviour_counterexample :
  wf_val one_float = true /\ py_eq one_float (VInt 1) = true /\
  cond0_eqb (CLeaf (ex_range one_float)) (CLeaf (ex_range (VInt 1))) = true /\
  (exists f, filter_tree T res0 (CLeaf (ex_range one_float)) one_item = Ok f /\ fr_result f = [false] /\ fr_cerr f = [true]) /\
  (exists f, filter_tree T res0 (CLeaf (ex_range (VInt 1))) one_item = Ok f /\ fr_result f = [true] /\ fr_cerr f = [false]).
Proof.
  split; [ vm_compute; reflexivity | ]. split; [ vm_compute; reflexivity | ]. split; [ vm_compute; reflexivity | ].
  split; eexists; (split; [ vm_compute; reflexivity | split; reflexivity ]).
Qed.

Definition same_outcome {X} (r1 r2 : res X) : Prop :=
  match r1, r2 with Ok x, Ok y => x = y | Err _, Err _ => True | _, _ => False end.
Lemma leaf_same_kind {A} (l1 l2 : leaf A) : leaf_same l1 l2 -> l_kind l1 = l_kind l2.
Proof. intros H. apply H. Qed.
Lemma same_outcome_refl {X} (r : res X) : same_outcome r r.
Proof. destruct r; cbn; [ reflexivity | exact I ]. Qed.

(* ------------------------------------------------------------------ *)
(* 2f. data paths: parts whose conditions are cond_same select the same nodes *)

Lemma mapM_err {X Y} (f : X -> res Y) l e : mapM f l = Err e -> exists x, In x l /\ f x = Err e.
Proof.
  induction l as [ | x l IH ]; cbn [mapM]; [ discriminate | ].
  destruct (f x) as [ y | e' ] eqn:E; cbn [bind].
  - destruct (mapM f l) as [ ys | e'' ]; cbn [bind]; [ discriminate | ].
    intros H. inversion H; subst. destruct (IH eq_refl) as [x' [Hin Hx]]. exists x'. split; [ right; exact Hin | exact Hx ].
  - intros H. inversion H; subst. exists x. split; [ left; reflexivity | exact E ].
Qed.

Lemma T_catches_pre_TypeError : catches (t_caught_pre T) TypeError = true.
Proof. vm_compute. reflexivity. Qed.
Lemma T_catches_call_TypeError : catches (t_caught_call T) TypeError = true.
Proof. vm_compute. reflexivity. Qed.

Lemma if_catches_not {X} L e (x : X) e' : (if catches L e then Ok x else Err e) = Err e' -> catches L e' = false.
Proof. destruct (catches L e) eqn:E; [ discriminate | ]. intros H. inversion H; subst. exact E. Qed.

(* the filter loop catches TypeError: a filter never raises it *)
Lemma eval_item_not_TypeError {A} (resolve : A -> res pyval) l x : eval_item T resolve l x <> Err TypeError.
Proof.
  unfold eval_item. intros H. destruct (pre_apply (l_pre l) x) as [ v | e ].
  - match type of H with match ?r with _ => _ end = _ => destruct r as [ b | e ] end; [ discriminate | ].
    apply if_catches_not in H. rewrite T_catches_call_TypeError in H. discriminate.
  - apply if_catches_not in H. rewrite T_catches_pre_TypeError in H. discriminate.
Qed.

Lemma filter_tree_not_TypeError {A} (resolve : A -> res pyval) c d : filter_tree T resolve c d <> Err TypeError.
Proof.
  induction c as [ l | o a IHa b IHb ]; cbn [filter_tree].
  - unfold filter_leaf. destruct (mapM (eval_item T resolve l) (datums (l_kind l) d)) as [ fl | e ] eqn:E; cbn [bind];
      [ discriminate | ].
    intros H. inversion H; subst. destruct (mapM_err _ _ _ E) as [x [_ Hx]]. exact (eval_item_not_TypeError resolve l x Hx).
  - destruct (filter_tree T resolve a d) as [ fa | ea ]; cbn [bind]; [ | exact IHa ].
    destruct (filter_tree T resolve b d) as [ fb | eb ]; cbn [bind]; [ discriminate | exact IHb ].
Qed.

(* outcomes that the level loop of get_data cannot tell apart: equal values, or exceptions that are both / neither TypeError *)
Definition sel_same {X} (r1 r2 : res X) : Prop :=
  match r1, r2 with
  | Ok x, Ok y => x = y
  | Err a, Err b => a = TypeError <-> b = TypeError
  | _, _ => False
  end.

Lemma sel_same_refl {X} (r : res X) : sel_same r r.
Proof. destruct r; cbn; [ reflexivity | tauto ]. Qed.

Section Rel.
  Variable A : Type.
  Variable R : leaf A -> leaf A -> Prop.
  Hypothesis R_cls : forall l1 l2, R l1 l2 -> l_cls l1 = l_cls l2.
  Hypothesis R_kind : forall l1 l2, R l1 l2 -> l_kind l1 = l_kind l2.

  Lemma cond_rel_is_null c1 c2 : cond_rel R c1 c2 -> is_null c1 = is_null c2.
  Proof. intros H. destruct H as [ l1 l2 Hl | | ]; cbn [is_null]; [ unfold is_null_leaf; rewrite (R_cls _ _ Hl) | | ]; reflexivity. Qed.

  Lemma cond_rel_has_kind k c1 c2 : cond_rel R c1 c2 -> has_kind k c1 = has_kind k c2.
  Proof.
    unfold has_kind.
    intros H. induction H as [ l1 l2 Hl | o a b a' b' Ha IHa Hb IHb | o a b a' b' Ha IHa Hb IHb ]; cbn [leaves].
    - cbn [existsb]. rewrite (R_kind _ _ Hl). reflexivity.
    - rewrite !existsb_app, IHa, IHb. reflexivity.
    - rewrite !existsb_app, IHa, IHb. apply orb_comm.
  Qed.

  Lemma cond_rel_mk_bin o a a' b b' : cond_rel R a a' -> cond_rel R b b' ->
    match mk_bin o a b, mk_bin o a' b' with
    | Ok c, Ok c' => cond_rel R c c'
    | Err x, Err y => x = y
    | _, _ => False
    end.
  Proof.
    intros Ha Hb. unfold mk_bin.
    rewrite (cond_rel_is_null _ _ Ha), (cond_rel_is_null _ _ Hb).
    rewrite (cond_rel_has_kind DKey _ _ Ha), (cond_rel_has_kind DKey _ _ Hb),
      (cond_rel_has_kind DIndex _ _ Ha), (cond_rel_has_kind DIndex _ _ Hb).
    destruct (is_null b'); [ exact Ha | ]. destruct (is_null a'); [ exact Hb | ].
    match goal with |- context [if ?x then _ else _] => destruct x end; [ reflexivity | ].
    apply CR_bin; assumption.
  Qed.

  Lemma cond_rel_leaves_in c1 c2 : cond_rel R c1 c2 ->
    forall l2, In l2 (leaves c2) -> exists l1, In l1 (leaves c1) /\ R l1 l2.
  Proof.
    intros H. induction H as [ l1 l2 Hl | o a b a' b' Ha IHa Hb IHb | o a b a' b' Ha IHa Hb IHb ];
      cbn [leaves]; intros l Hin.
    - destruct Hin as [ E | [] ]. subst l. exists l1. split; [ left; reflexivity | exact Hl ].
    - apply in_app_or in Hin. destruct Hin as [ Hin | Hin ].
      + destruct (IHa l Hin) as [l1 [H1 H2]]. exists l1. split; [ apply in_or_app; left; exact H1 | exact H2 ].
      + destruct (IHb l Hin) as [l1 [H1 H2]]. exists l1. split; [ apply in_or_app; right; exact H1 | exact H2 ].
    - apply in_app_or in Hin. destruct Hin as [ Hin | Hin ].
      + destruct (IHb l Hin) as [l1 [H1 H2]]. exists l1. split; [ apply in_or_app; right; exact H1 | exact H2 ].
      + destruct (IHa l Hin) as [l1 [H1 H2]]. exists l1. split; [ apply in_or_app; left; exact H1 | exact H2 ].
  Qed.
End Rel.

Lemma leaf_same_cls {A} (l1 l2 : leaf A) : leaf_same l1 l2 -> l_cls l1 = l_cls l2.
Proof. intros H. apply H. Qed.

Section PathSame.
  Variable A : Type.
  Variable resolve : A -> res pyval.

  Definition cond_kw_resolvable (c : cond A) : Prop := forall l, In l (leaves c) -> kw_resolvable resolve l.

  Lemma cond_kw_resolvable_mk_bin o a b c : cond_kw_resolvable a -> cond_kw_resolvable b -> mk_bin o a b = Ok c ->
    cond_kw_resolvable c.
  Proof.
    intros Ha Hb. unfold mk_bin. destruct (is_null b); [ intros H; inversion H; subst; exact Ha | ].
    destruct (is_null a); [ intros H; inversion H; subst; exact Hb | ].
    match goal with |- context [if ?x then _ else _] => destruct x end; [ discriminate | ].
    intros H; inversion H; subst. intros l Hin. cbn [leaves] in Hin. apply in_app_or in Hin. destruct Hin; auto.
  Qed.

  Lemma cond_filter_sel_same c1 c2 node : cond_same c1 c2 -> cond_kw_resolvable c1 ->
    sel_same (cond_filter_sel T resolve c1 node) (cond_filter_sel T resolve c2 node).
  Proof.
    intros Hs Hres. unfold cond_filter_sel.
    rewrite (cond_rel_entry_check leaf_same c1 c2 node (@leaf_same_kind A) Hs).
    destruct (entry_check c2 node) as [ [] | e ]; cbn [bind sel_same]; [ | tauto ].
    destruct (mk_data node) as [ d | e ]; cbn [bind sel_same]; [ | tauto ].
    pose proof (C14_strict_equal_behaviour A resolve c1 c2 Hs Hres d) as H.
    pose proof (filter_tree_not_TypeError resolve c1 d) as N1. pose proof (filter_tree_not_TypeError resolve c2 d) as N2.
    destruct (filter_tree T resolve c1 d) as [ f1 | e1 ]; destruct (filter_tree T resolve c2 d) as [ f2 | e2 ];
      cbn [res_same] in H; try contradiction; cbn [bind sel_same].
    - destruct H as [_ [_ [_ [Hr _]]]]. rewrite Hr. reflexivity.
    - split; intros E; subst; exfalso; [ apply N1 | apply N2 ]; reflexivity.
  Qed.

  (* parts of the same class whose conditions are cond_same (labels are not looked at by get_data) *)
  Inductive part_same : part A -> part A -> Prop :=
  | PS_map c c' l l' : cond_same c c' -> part_same (PMap c l) (PMap c' l')
  | PS_list c c' l l' : cond_same c c' -> part_same (PList c l) (PList c' l')
  | PS_mol c lc mc c' lc' mc' l l' : cond_same c c' -> cond_same lc lc' -> cond_same mc mc' ->
      part_same (PMol c lc mc l) (PMol c' lc' mc' l').

  Definition part_kw_resolvable (p : part A) : Prop :=
    match p with
    | PMap c _ | PList c _ => cond_kw_resolvable c
    | PMol c lc mc _ => cond_kw_resolvable c /\ cond_kw_resolvable lc /\ cond_kw_resolvable mc
    end.

  Lemma part_filter_same p1 p2 node : part_same p1 p2 -> part_kw_resolvable p1 ->
    sel_same (part_filter T resolve p1 node) (part_filter T resolve p2 node).
  Proof.
    intros Hs Hres. unfold part_filter. destruct (mk_data node) as [ d | e ]; cbn [bind]; [ | apply sel_same_refl ].
    destruct Hs as [ c c' l l' Hc | c c' l l' Hc | c lc mc c' lc' mc' l l' Hc Hlc Hmc ]; cbn [part_kw_resolvable] in Hres.
    - destruct (d_is_list d); [ cbn; tauto | apply cond_filter_sel_same; assumption ].
    - destruct (d_is_list d); [ apply cond_filter_sel_same; assumption | cbn; tauto ].
    - destruct Hres as [Rc [Rlc Rmc]].
      assert (Hsel : cond_same (if d_is_list d then lc else mc) (if d_is_list d then lc' else mc'))
        by (destruct (d_is_list d); assumption).
      assert (Rsel : cond_kw_resolvable (if d_is_list d then lc else mc)) by (destruct (d_is_list d); assumption).
      pose proof (cond_rel_mk_bin A leaf_same (@leaf_same_cls A) (@leaf_same_kind A) BoAnd _ _ _ _ Hsel Hc) as H.
      pose proof (cond_kw_resolvable_mk_bin BoAnd _ _ (match mk_bin BoAnd (if d_is_list d then lc else mc) c with Ok x => x | Err _ => c end) Rsel Rc) as HR.
      destruct (mk_bin BoAnd (if d_is_list d then lc else mc) c) as [ x | e ];
        destruct (mk_bin BoAnd (if d_is_list d then lc' else mc') c') as [ y | e' ]; try contradiction; cbn [bind].
      + apply cond_filter_sel_same; [ exact H | apply HR; reflexivity ].
      + subst e'. cbn. tauto.
  Qed.

  Lemma level_same p1 p2 first all_paths : part_same p1 p2 -> part_kw_resolvable p1 ->
    forall data paths idx,
    same_outcome (level T resolve p1 data paths first idx all_paths) (level T resolve p2 data paths first idx all_paths).
  Proof.
    intros Hs Hres. induction data as [ | datum rest IH ]; intros paths idx; cbn [level]; [ reflexivity | ].
    pose proof (part_filter_same p1 p2 datum Hs Hres) as H. specialize (IH paths (S idx)).
    destruct (part_filter T resolve p1 datum) as [ s1 | e1 ]; destruct (part_filter T resolve p2 datum) as [ s2 | e2 ];
      cbn [sel_same] in H; try contradiction.
    - subst s2.
      destruct (level T resolve p1 rest paths first (S idx) all_paths) as [ [d1 q1] | x1 ];
        destruct (level T resolve p2 rest paths first (S idx) all_paths) as [ [d2 q2] | x2 ];
        cbn [same_outcome] in IH; try contradiction; cbn [bind same_outcome]; [ | exact I ].
      inversion IH; subst. reflexivity.
    - destruct e1; destruct e2; try exact I; try exact IH;
        exfalso; first [ assert (F : TypeError = TypeError) by reflexivity; apply H in F; discriminate F
                       | assert (F : TypeError = TypeError) by reflexivity; apply (proj2 H) in F; discriminate F ].
  Qed.

  Definition parts_same (ps1 ps2 : list (part A)) : Prop := Forall2 part_same ps1 ps2.

  Theorem walk_parts_same ps1 ps2 : parts_same ps1 ps2 -> Forall part_kw_resolvable ps1 ->
    forall first data paths,
    same_outcome (walk_parts T resolve ps1 first data paths) (walk_parts T resolve ps2 first data paths).
  Proof.
    induction 1 as [ | p1 p2 r1 r2 Hp Hr IH ]; intros Hres first data paths; cbn [walk_parts]; [ reflexivity | ].
    inversion Hres as [ | ? ? Hp1 Hr1 ]; subst.
    pose proof (level_same p1 p2 first paths Hp Hp1 data paths 0%nat) as H.
    destruct (level T resolve p1 data paths first 0 paths) as [ [d1 q1] | x1 ];
      destruct (level T resolve p2 data paths first 0 paths) as [ [d2 q2] | x2 ];
      cbn [same_outcome] in H; try contradiction; cbn [bind same_outcome]; [ | exact I ].
    inversion H; subst. apply IH. exact Hr1.
  Qed.

  Definition path_same (p1 p2 : dpath A) : Prop :=
    parts_same (p_parts p1) (p_parts p2) /\ p_concrete p1 = p_concrete p2 /\ p_dt p1 = p_dt p2 /\
    p_mt p1 = p_mt p2 /\ p_src p1 = p_src p2.
  Definition path_kw_resolvable (p : dpath A) : Prop := Forall part_kw_resolvable (p_parts p).

  (* DataPath.get_data: the same nodes (and the same concrete paths) on every document *)
  Theorem C14_path_same_get_data p1 p2 data rp : path_same p1 p2 -> path_kw_resolvable p1 ->
    same_outcome (get_data T resolve p1 data rp) (get_data T resolve p2 data rp).
  Proof.
    intros [Hps [Hc [Hd [Hm Hsrc]]]] Hres. unfold get_data. rewrite <- Hsrc, <- Hd, <- Hc.
    match goal with |- same_outcome (bind ?r _) _ => destruct r as [ doc | e ] end; cbn [bind]; [ | exact I ].
    pose proof (walk_parts_same _ _ Hps Hres true [doc] []) as H.
    destruct Hps as [ | q1 q2 r1 r2 Hq Hr ].
    - destruct (extract_dt (p_dt p1) doc); cbn [bind same_outcome]; [ reflexivity | exact I ].
    - destruct (walk_parts T resolve (q1 :: r1) true [doc] []) as [ [n1 s1] | x1 ];
        destruct (walk_parts T resolve (q2 :: r2) true [doc] []) as [ [n2 s2] | x2 ];
        cbn [same_outcome] in H; try contradiction; cbn [bind same_outcome]; [ | exact I ].
      inversion H; subst. destruct n2; [ reflexivity | ].
      destruct (mapM (extract_dt (p_dt p1)) (p :: n2)) as [ vals | e ]; cbn [bind same_outcome]; [ | exact I ].
      unfold match_multi. rewrite <- Hm, <- Hc.
      match goal with |- same_outcome ?a ?b => change b with a; destruct a; cbn; [ reflexivity | exact I ] end.
  Qed.
End PathSame.
Arguments part_same {A}. Arguments parts_same {A}. Arguments path_same {A}.

(* ------------------------------------------------------------------ *)
(* 2g. rules: the same verdicts on every document                        *)

Lemma failures_of_same f g : fres_same f g -> forall sel res i, failures_of i f sel res = failures_of i g sel res.
Proof.
  intros H. induction sel as [ | [v cp] r IH ]; intros res i; [ reflexivity | ].
  destruct res as [ | b bs ]; [ reflexivity | ]. cbn [failures_of].
  rewrite (fres_same_num_reasons f g i H), IH. reflexivity.
Qed.

Lemma has_non_value_leaf_rel {A} (R : leaf A -> leaf A -> Prop) c1 c2 :
  (forall l1 l2, R l1 l2 -> l_kind l1 = l_kind l2) -> cond_rel R c1 c2 ->
  has_non_value_leaf c1 = has_non_value_leaf c2.
Proof.
  intros HR H. induction H as [ l1 l2 Hl | o a b a' b' Ha IHa Hb IHb | o a b a' b' Ha IHa Hb IHb ];
    cbn [has_non_value_leaf].
  - rewrite (HR _ _ Hl). reflexivity.
  - rewrite IHa, IHb. reflexivity.
  - rewrite IHa, IHb. apply orb_comm.
Qed.



Lemma path_kw_resolvable_res0 (p : dpath pyval) : path_kw_resolvable pyval res0' p.
Proof.
  unfold path_kw_resolvable. apply Forall_forall. intros x _.
  assert (H : forall c : cond pyval, cond_kw_resolvable pyval res0' c)
    by (intros c l _ kv _; exists (snd kv); reflexivity).
  destruct x; cbn [part_kw_resolvable]; repeat split; apply H.
Qed.

Lemma selection_same p1 p2 doc : path_same p1 p2 -> same_outcome (selection T p1 doc) (selection T p2 doc).
Proof.
  intros Hp. unfold selection.
  pose proof (C14_path_same_get_data pyval res0' p1 p2 (Some doc) true Hp (path_kw_resolvable_res0 p1)) as H.
  destruct Hp as [_ [Hc _]]. rewrite <- Hc.
  destruct (get_data T res0' p1 (Some doc) true) as [ s1 | e1 ]; destruct (get_data T res0' p2 (Some doc) true) as [ s2 | e2 ];
    cbn [same_outcome] in H; try contradiction; cbn [bind]; [ subst s2; apply same_outcome_refl | exact I ].
Qed.

Theorem C14_strict_equal_judge r1 r2 doc :
  path_same (r_path r1) (r_path r2) -> cond_same (r_cond r1) (r_cond r2) ->
  (forall l, In l (leaves (r_cond r1)) -> kw_resolvable (resolve1 T (Some doc)) l) ->
  same_outcome (judge T r1 doc) (judge T r2 doc).
Proof.
  intros Hp Hs Hres. unfold judge.
  pose proof (selection_same _ _ doc Hp) as Hsel.
  destruct (selection T (r_path r1) doc) as [ sel | e ]; destruct (selection T (r_path r2) doc) as [ sel2 | e2 ];
    cbn [same_outcome] in Hsel; try contradiction; cbn [bind]; [ subst sel2 | exact I ].
  destruct sel as [ | s0 sel ]; [ reflexivity | ].
  assert (Htop : match r_cond r1 with
                 | CLeaf l => match l_kind l with DKey => Err TypeError | _ => Ok tt end
                 | _ => Ok tt
                 end =
                 match r_cond r2 with
                 | CLeaf l => match l_kind l with DKey => Err TypeError | _ => Ok tt end
                 | _ => Ok tt
                 end).
  { destruct Hs as [ l1 l2 Hl | | ]; [ rewrite (leaf_same_kind _ _ Hl) | | ]; reflexivity. }
  rewrite Htop.
  match goal with |- same_outcome (bind ?r _) _ => destruct r as [ [] | e ] end; cbn [bind]; [ | exact I ].
  rewrite (has_non_value_leaf_rel leaf_same _ _ (@leaf_same_kind arg1) Hs).
  destruct (has_non_value_leaf (r_cond r2)); cbn [bind]; [ exact I | ].
  match goal with |- context [filter_tree T _ (r_cond r1) ?d] =>
    pose proof (C14_strict_equal_behaviour arg1 (resolve1 T (Some doc)) _ _ Hs Hres d) as H;
    destruct (filter_tree T (resolve1 T (Some doc)) (r_cond r1) d) as [ f1 | e1 ];
    destruct (filter_tree T (resolve1 T (Some doc)) (r_cond r2) d) as [ f2 | e2 ]
  end; cbn [res_same] in H; try contradiction; cbn [bind same_outcome]; [ | exact I ].
  rewrite (failures_of_same f1 f2 H). destruct H as [_ [_ [_ [Hr _]]]]. rewrite Hr. reflexivity.
Qed.

(* Rule.test(data): rules whose conditions are cond_same (keyword arguments literal) give the same verdict,
   the same failure list and the same cast document on every document *)
Theorem C14_strict_equal_rule_test r1 r2 doc copy :
  path_same (r_path r1) (r_path r2) -> r_cast r1 = r_cast r2 -> cond_same (r_cond r1) (r_cond r2) ->
  (forall l, In l (leaves (r_cond r1)) -> kw_literal l) ->
  same_outcome (rule_test T r1 doc copy) (rule_test T r2 doc copy).
Proof.
  intros Hp Hc Hs Hlit. unfold rule_test. rewrite <- Hc.
  assert (HJ : forall dc, same_outcome (judge T r1 dc) (judge T r2 dc)).
  { intros dc. apply C14_strict_equal_judge; [ exact Hp | exact Hs | ].
    intros l Hin. apply kw_resolvable_lit, Hlit, Hin. }
  destruct (mk_data doc) as [ d0 | e ]; cbn [bind]; [ | exact I ].
  destruct (r_cast r1) as [ | c0 casts ].
  - specialize (HJ doc). destruct (judge T r1 doc) as [ t1 | e1 ]; destruct (judge T r2 doc) as [ t2 | e2 ];
      cbn [same_outcome] in HJ; try contradiction; cbn [bind same_outcome]; [ rewrite HJ; reflexivity | exact I ].
  - pose proof (selection_same _ _ doc Hp) as Hsel.
    destruct (selection T (r_path r1) doc) as [ sel | e ]; destruct (selection T (r_path r2) doc) as [ sel2 | e2 ];
      cbn [same_outcome] in Hsel; try contradiction; cbn [bind]; [ subst sel2 | exact I ].
    match goal with |- same_outcome (bind ?r _) _ => destruct r as [ cp1 | e ] end; cbn [bind]; [ | exact I ].
    specialize (HJ cp1). destruct (judge T r1 cp1) as [ t1 | e1 ]; destruct (judge T r2 cp1) as [ t2 | e2 ];
      cbn [same_outcome] in HJ; try contradiction; cbn [bind same_outcome]; [ rewrite HJ; reflexivity | exact I ].
Qed.

(* ------------------------------------------------------------------ *)
(* 2h. part_same / path_same (with the same labels) imply ==             *)

Definition part_label {A} (p : part A) : option pyval :=
  match p with PMap _ l | PList _ l | PMol _ _ _ l => l end.

Lemma olabel_eqb_refl_wf l : olabel_ok WF l -> olabel_eqb l l = true.
Proof. intros H. rewrite olabel_eqb_py. apply py_eq_refl_wf. exact H. Qed.

Lemma part_same_eqb (p q : part pyval) : part_same p q -> part_label p = part_label q -> part_ok WF p ->
  part_eqb p q = true.
Proof.
  intros Hs Hl Hok.
  destruct Hs as [ c c' l l' Hc | c c' l l' Hc | c lc mc c' lc' mc' l l' Hc Hlc Hmc ];
    cbn [part_label] in Hl; subst l'; cbn [part_eqb part_ok] in *.
  - destruct Hok as [Oc Ol]. rewrite (C14_cond_same_eq_lit c c' Hc Oc), (olabel_eqb_refl_wf l Ol). reflexivity.
  - destruct Hok as [Oc Ol]. rewrite (C14_cond_same_eq_lit c c' Hc Oc), (olabel_eqb_refl_wf l Ol). reflexivity.
  - destruct Hok as [Oc [Olc [Omc Ol]]].
    rewrite (C14_cond_same_eq_lit c c' Hc Oc), (C14_cond_same_eq_lit lc lc' Hlc Olc),
      (C14_cond_same_eq_lit mc mc' Hmc Omc), (olabel_eqb_refl_wf l Ol). reflexivity.
Qed.

Theorem C14_path_same_eq (p q : dpath pyval) : path_same p q ->
  map part_label (p_parts p) = map part_label (p_parts q) -> path_ok WF p -> path_eqb p q = true.
Proof.
  intros [Hps [Hc [Hd [Hm Hsrc]]]] Hl [Hok Hs]. unfold path_eqb.
  rewrite <- Hc, <- Hd, <- Hm, <- Hsrc, Bool.eqb_reflx, datum_type_eqb_refl, multi_type_eqb_refl.
  rewrite osrc_eqb_py, (py_eq_refl_wf _ Hs), !andb_true_r.
  revert Hl Hok. generalize (p_parts p) (p_parts q) Hps. clear.
  induction 1 as [ | x y r1 r2 Hxy Hr IH ]; intros Hl Hok; [ reflexivity | ].
  cbn [map] in Hl. inversion Hl as [[Hl1 Hl2]]. cbn [list_eqb].
  rewrite (part_same_eqb x y Hxy Hl1 (Hok x (or_introl eq_refl))). cbn [andb].
  apply IH; [ exact Hl2 | intros z Hz; apply Hok; right; exact Hz ].
Qed.

Example path_same_inhabitant :
  path_same
    {| p_parts := [PMap (CBin BoAnd (CLeaf ex_items_ab) (CBin BoOr (CLeaf ex_len) (CLeaf ex_truthy))) None];
       p_concrete := false; p_dt := DtNone; p_mt := MtNone; p_src := None |}
    {| p_parts := [PMap (CBin BoAnd (CBin BoOr (CLeaf ex_truthy) (CLeaf ex_len)) (CLeaf ex_items_ba)) None];
       p_concrete := false; p_dt := DtNone; p_mt := MtNone; p_src := None |}.
Proof.
  unfold path_same. cbn. repeat split. constructor; [ | constructor ]. apply PS_map. exact cond_same_inhabitant.
Qed.

(* ------------------------------------------------------------------ *)
(* 3. callables that only apply == / != to their argument: == arguments give the same behaviour *)

Local Arguments py_eq : simpl never.

Lemma call_equal_to_kw p v : call_def call_fuel (t_defs T) "equal_to" [p] [("value", v)] = Ok (VBool (py_eq p v)).
Proof. reflexivity. Qed.
Lemma call_equal_to_pos p v : call_def call_fuel (t_defs T) "equal_to" [p; v] [] = Ok (VBool (py_eq p v)).
Proof. reflexivity. Qed.
Lemma call_not_equal_to_kw p v :
  call_def call_fuel (t_defs T) "not_equal_to" [p] [("value", v)] = Ok (VBool (negb (py_eq p v))).
Proof. reflexivity. Qed.
Lemma call_not_equal_to_pos p v :
  call_def call_fuel (t_defs T) "not_equal_to" [p; v] [] = Ok (VBool (negb (py_eq p v))).
Proof. reflexivity. Qed.

(* the leaves cls.equal_to(a) / cls.not_equal_to(a); kwform: the argument is stored as value=a (what the DSL
   constructors do) or positionally *)
Definition eq_leaf {A} (cls : string) (k : dkind) (p : preproc) (ne kwform : bool) (a : A) : leaf A :=
  {| l_cls := cls; l_kind := k; l_pre := p;
     l_call := if ne then "not_equal_to" else "equal_to";
     l_args := if kwform then [] else [a];
     l_kwargs := if kwform then [("value", a)] else [] |}.

Example eq_leaf_built :
  build_leaf T idlit "Value" "equal_to" [VInt 1] [] = Ok (eq_leaf "Value" DValue PNone false true (VInt 1)) /\
  build_leaf T idlit "ValueLength" "not_equal_to" [] [("value", VInt 2)]
    = Ok (eq_leaf "ValueLength" DValue PLen true true (VInt 2)).
Proof. vm_compute. split; reflexivity. Qed.

Lemma py_eq_congr_r p v v' : wf_val p = true -> wf_val v = true -> wf_val v' = true ->
  py_eq v v' = true -> py_eq p v = py_eq p v'.
Proof.
  intros Hp Hv Hv' H. apply bool_eq_of_imp; intros E.
  - exact (py_eq_trans_wf p v v' Hp Hv Hv' E H).
  - apply (py_eq_trans_wf p v' v Hp Hv' Hv E). rewrite (py_eq_sym_wf v' v Hv' Hv). exact H.
Qed.

Lemma pre_apply_wf p x y : wf_val x = true -> pre_apply p x = Ok y -> wf_val y = true.
Proof.
  intros Hx. destruct p; cbn [pre_apply].
  - intros H. inversion H; subst. exact Hx.
  - destruct x; cbn [py_len]; intros H; inversion H; reflexivity.
  - intros H. inversion H. reflexivity.
Qed.

Section EqLeaf.
  Variable A : Type.
  Variable resolve : A -> res pyval.

  Lemma call_eq_leaf cls k p ne kwform a v x : resolve a = Ok v ->
    call_leaf T resolve (eq_leaf cls k p ne kwform a) x = Ok (VBool (if ne then negb (py_eq x v) else py_eq x v)).
  Proof.
    intros Hr. unfold call_leaf, eq_leaf. cbn [l_args l_kwargs l_call].
    destruct kwform; cbn [mapM resolve_kw bind]; rewrite Hr; cbn [bind]; destruct ne; reflexivity.
  Qed.

  (* main statement (3) *)
  Theorem C14_value_type_insensitive_callables cls k p ne kwform a a' v v' :
    resolve a = Ok v -> resolve a' = Ok v' -> wf_val v = true -> wf_val v' = true -> py_eq v v' = true ->
    forall x, wf_val x = true ->
      eval_item T resolve (eq_leaf cls k p ne kwform a) x = eval_item T resolve (eq_leaf cls k p ne kwform a') x.
  Proof.
    intros Hr Hr' Hv Hv' He x Hx. unfold eval_item. cbn [eq_leaf l_pre].
    change (l_pre (eq_leaf cls k p ne kwform a)) with p.
    destruct (pre_apply p x) as [ y | e ] eqn:Ep; [ | reflexivity ].
    rewrite (call_eq_leaf cls k p ne kwform a v y Hr), (call_eq_leaf cls k p ne kwform a' v' y Hr').
    rewrite (py_eq_congr_r y v v' (pre_apply_wf p x y Hx Ep) Hv Hv' He). reflexivity.
  Qed.

  Definition data_wf (d : data) : Prop := forall x, In x (d_keys d ++ d_vals d) -> wf_val x = true.

  Lemma mapM_ext_in {X Y} (f g : X -> res Y) l : (forall x, In x l -> f x = g x) -> mapM f l = mapM g l.
  Proof.
    intros H. induction l as [ | x l IH ]; [ reflexivity | ]. cbn [mapM].
    rewrite (H x (or_introl eq_refl)), IH by (intros y Hy; apply H; right; exact Hy). reflexivity.
  Qed.

  Theorem C14_eq_leaf_filter cls k p ne kwform a a' v v' d :
    resolve a = Ok v -> resolve a' = Ok v' -> wf_val v = true -> wf_val v' = true -> py_eq v v' = true ->
    data_wf d ->
    filter_leaf T resolve (eq_leaf cls k p ne kwform a) d = filter_leaf T resolve (eq_leaf cls k p ne kwform a') d.
  Proof.
    intros Hr Hr' Hv Hv' He Hd. unfold filter_leaf. change (l_kind (eq_leaf cls k p ne kwform a)) with k.
    change (l_kind (eq_leaf cls k p ne kwform a')) with k.
    rewrite (mapM_ext_in (eval_item T resolve (eq_leaf cls k p ne kwform a))
                         (eval_item T resolve (eq_leaf cls k p ne kwform a')) (datums k d)); [ reflexivity | ].
    intros x Hx. apply (C14_value_type_insensitive_callables cls k p ne kwform a a' v v'); try assumption.
    apply Hd. apply in_or_app. destruct k; cbn [datums] in Hx; auto.
  Qed.

  (* trees: leaves related by leaf_same or by == arguments of equal_to / not_equal_to, operands in any order *)
  Definition leaf_eqarg (l1 l2 : leaf A) : Prop :=
    leaf_same l1 l2 \/
    exists cls k p ne kwform a a' v v',
      l1 = eq_leaf cls k p ne kwform a /\ l2 = eq_leaf cls k p ne kwform a' /\
      resolve a = Ok v /\ resolve a' = Ok v' /\ wf_val v = true /\ wf_val v' = true /\ py_eq v v' = true.

  Theorem C14_eqarg_behaviour c1 c2 d :
    cond_rel leaf_eqarg c1 c2 -> (forall l, In l (leaves c1) -> kw_resolvable resolve l) -> data_wf d ->
    res_same (filter_tree T resolve c1 d) (filter_tree T resolve c2 d).
  Proof.
    intros Hs Hres Hd. apply (cond_rel_behaviour A T resolve leaf_eqarg d c1 c2); [ | exact Hs ].
    intros l1 l2 Hin [ Hl | [cls [k [p [ne [kwform [a [a' [v [v' [E1 [E2 [Hr [Hr' [Hv [Hv' He]]]]]]]]]]]]]]] ].
    - rewrite (leaf_same_filter A resolve l1 l2 d Hl (Hres l1 Hin)). apply res_same_refl.
    - subst l1 l2. rewrite (C14_eq_leaf_filter cls k p ne kwform a a' v v' d Hr Hr' Hv Hv' He Hd).
      apply res_same_refl.
  Qed.
End EqLeaf.

(* Value.equal_to(1.0) and Value.equal_to(1): ==, and (unlike in_range) identical behaviour *)
Example C14_equal_to_float_int d : data_wf d ->
  filter_leaf T res0 (eq_leaf "Value" DValue PNone false true one_float) d =
  filter_leaf T res0 (eq_leaf "Value" DValue PNone false true (VInt 1)) d.
Proof.
  intros Hd. apply (C14_eq_leaf_filter pyval res0 "Value" DValue PNone false true one_float (VInt 1) one_float (VInt 1));
    try reflexivity. exact Hd.
Qed.

Print Assumptions C14_commuted_behaviour.
Print Assumptions C14_commuted_cases.
Print Assumptions C14_commuted_fields.
Print Assumptions C14_comm_behaviour.
Print Assumptions C14_strict_equal_behaviour.
Print Assumptions C14_cond_same_eq.
Print Assumptions C14_strict_equal_run_filter.
Print Assumptions C14_strict_equal_rule_test.
Print Assumptions C14_value_type_insensitive_callables.
Print Assumptions C14_eqarg_behaviour.
Print Assumptions call_def_T_perm.
Print Assumptions C14_path_same_get_data.
Print Assumptions C14_path_same_eq.
Print Assumptions C14_strict_equal_judge.
Print Assumptions C14_cond_same_eq_lit.
Print Assumptions C14_eq_leaf_filter.
