(* Proofs about the model of Schema.to_tree (Valida/Tree.v): property C20, the part about the tree.

   Main theorems (all closed under the global context, see the end of the file):
     T1_items_invariants            keys of the items are distinct; sort_items is a sorted permutation
     T2_each_rule_once              every rule has exactly one flat node, with its condition and doc   (whole tree)
     T2_each_rule_once_subtree      the same for to_tree(from_path = p)
     T3_parents, T3_parents_sorted  the parent reference is -1 or the index of an EARLIER item whose key is the key
                                    without its last component
     T3_prefix_closed_no_keyerror, T3_ok_prefix_closed, T3_keyerror_iff   KeyError iff some parent key is missing
     T3_flat_tree_parents           the same on the nodes returned by to_tree(): the parent's path_str is the node's
                                    path_str without its last component
     T4_flat_nested_same_nodes, T4_run_tree_same_nodes   the nested form has the same nodes as the flat form
     T4_nested_structure            top-level nodes of the nested form have no parent; every (node, child) edge at any
                                    depth extends the path_str by one component
     T5_required_value, T5_required_true_iff / false_iff / none_iff, T5_required_whole, T5_flat_tree_required
                                    the required flags (or-accumulation; a later allowed_keys never resets a flag)
     T6_subtree                     to_tree(from_path = p) = to_tree() of the rules below p, prefix removed, then readd
     steps_total, flat_tree_total   the steps never fail when every named key is a valid path part
   Counterexamples on the model (hypotheses that cannot be dropped):
     T2_duplicate_path_counterexample, T3_not_prefix_closed_counterexample,
     T6_subtree_root_without_rule_counterexample *)
From Coq Require Import ZArith NArith List Bool String Ascii Lia Permutation Sorted RelationClasses.
From Valida Require Import Py Tree.
Import ListNotations.
Local Open Scope string_scope.
Local Open Scope list_scope.

(* ---------- skey_eqb reflects equality ---------- *)
Lemma skey_eqb_eq a b : skey_eqb a b = true <-> a = b.
Proof.
  revert b; induction a as [|x a IH]; destruct b as [|y b]; cbn; try (split; congruence).
  rewrite andb_true_iff, String.eqb_eq, IH. split; [intros [-> ->]; auto | intros H; inversion H; auto].
Qed.
Lemma skey_eqb_spec a b : reflect (a = b) (skey_eqb a b).
Proof. apply iff_reflect. symmetry. apply skey_eqb_eq. Qed.
Lemma skey_eqb_refl a : skey_eqb a a = true.
Proof. apply skey_eqb_eq; reflexivity. Qed.
Lemma skey_eqb_neq a b : a <> b -> skey_eqb a b = false.
Proof. intros H. destruct (skey_eqb_spec a b); congruence. Qed.

(* ---------- order facts: strings ---------- *)
Lemma ascii_compare_refl a : Ascii.compare a a = Eq.
Proof. unfold Ascii.compare. apply N.compare_refl. Qed.
Lemma ascii_compare_lt_trans a b c : Ascii.compare a b = Lt -> Ascii.compare b c = Lt -> Ascii.compare a c = Lt.
Proof. unfold Ascii.compare. rewrite !N.compare_lt_iff. apply N.lt_trans. Qed.
Lemma str_compare_refl s : String.compare s s = Eq.
Proof. induction s as [|a s IH]; cbn; auto. rewrite ascii_compare_refl. exact IH. Qed.
Lemma str_compare_eq s t : String.compare s t = Eq <-> s = t.
Proof. split; [apply String.compare_eq_iff | intros ->; apply str_compare_refl]. Qed.
Lemma str_compare_lt_trans s t u : String.compare s t = Lt -> String.compare t u = Lt -> String.compare s u = Lt.
Proof.
  revert t u; induction s as [|a s IH]; intros [|b t] [|c u]; cbn; try congruence.
  destruct (Ascii.compare a b) eqn:Eab; try discriminate.
  - apply Ascii.compare_eq_iff in Eab; subst b.
    destruct (Ascii.compare a c) eqn:Eac; try congruence. apply IH.
  - destruct (Ascii.compare b c) eqn:Ebc; try discriminate.
    + apply Ascii.compare_eq_iff in Ebc; subst c. rewrite Eab. auto.
    + rewrite (ascii_compare_lt_trans _ _ _ Eab Ebc). auto.
Qed.
Lemma str_compare_gt_lt s t : String.compare s t = Gt <-> String.compare t s = Lt.
Proof. rewrite String.compare_antisym. destruct (String.compare t s); cbn; split; congruence. Qed.

(* ---------- order facts: keys ---------- *)
Lemma skey_ltb_irrefl a : skey_ltb a a = false.
Proof. induction a as [|x a IH]; cbn; auto. rewrite str_compare_refl. exact IH. Qed.
Lemma skey_ltb_trans a b c : skey_ltb a b = true -> skey_ltb b c = true -> skey_ltb a c = true.
Proof.
  revert b c; induction a as [|x a IH]; intros [|y b] [|z c]; cbn; try congruence.
  destruct (String.compare x y) eqn:Exy; try discriminate.
  - apply String.compare_eq_iff in Exy; subst y.
    destruct (String.compare x z) eqn:Exz; try congruence. apply IH.
  - destruct (String.compare y z) eqn:Eyz; try discriminate.
    + apply String.compare_eq_iff in Eyz; subst z. rewrite Exy; auto.
    + rewrite (str_compare_lt_trans _ _ _ Exy Eyz). auto.
Qed.
Lemma skey_ltb_total a b : a <> b -> skey_ltb a b = false -> skey_ltb b a = true.
Proof.
  revert b; induction a as [|x a IH]; intros [|y b]; cbn; try congruence.
  intros Hne. rewrite (String.compare_antisym y x).
  destruct (String.compare x y) eqn:Exy; cbn; try congruence.
  apply String.compare_eq_iff in Exy; subst y. apply IH. congruence.
Qed.
Lemma skey_ltb_asym a b : skey_ltb a b = true -> skey_ltb b a = false.
Proof.
  intros H. destruct (skey_ltb b a) eqn:E; auto.
  pose proof (skey_ltb_trans _ _ _ H E) as H1. rewrite skey_ltb_irrefl in H1. discriminate.
Qed.
Lemma skey_ltb_neq a b : skey_ltb a b = true -> a <> b.
Proof. intros H ->. rewrite skey_ltb_irrefl in H. discriminate. Qed.
Lemma skey_ltb_removelast k : k <> [] -> skey_ltb (removelast k) k = true.
Proof.
  induction k as [|x k IH]; [congruence|]. intros _. destruct k as [|y k]; [reflexivity|].
  change (removelast (x :: y :: k)) with (x :: removelast (y :: k)).
  cbn [skey_ltb]. rewrite str_compare_refl. apply IH. discriminate.
Qed.
Lemma skey_nil_least k : k <> [] -> skey_ltb [] k = true.
Proof. destruct k; [congruence | reflexivity]. Qed.

(* ---------- frame lemmas: dicts ---------- *)
Lemma dget_dset_same f v d : dget f (dset f v d) = Some v.
Proof.
  induction d as [|[k' v'] r IH]; cbn.
  - rewrite String.eqb_refl; auto.
  - destruct (String.eqb f k') eqn:E; cbn; rewrite E; auto.
Qed.
Lemma dget_dset_other f g v d : f <> g -> dget g (dset f v d) = dget g d.
Proof.
  intros Hne. induction d as [|[k' v'] r IH]; cbn.
  - destruct (String.eqb_spec g f); congruence.
  - destruct (String.eqb f k') eqn:E; cbn.
    + apply String.eqb_eq in E; subst k'. destruct (String.eqb_spec g f); congruence.
    + rewrite IH; reflexivity.
Qed.

(* ---------- frame lemmas: items ---------- *)
Notation keys := (map (@fst skey pdict)).
Definition fld (k : skey) (f : string) (m : items) : option pyval := dget f (iget0 k m).

Lemma iget_iset_same k d m : iget k (iset k d m) = Some d.
Proof.
  induction m as [|[k' d'] r IH]; cbn.
  - rewrite skey_eqb_refl; auto.
  - destruct (skey_eqb k k') eqn:E; cbn; rewrite E; auto.
Qed.
Lemma iget_iset_other k k' d m : k <> k' -> iget k' (iset k d m) = iget k' m.
Proof.
  intros Hne. induction m as [|[k2 d2] r IH]; cbn.
  - rewrite skey_eqb_neq; auto.
  - destruct (skey_eqb k k2) eqn:E; cbn.
    + apply skey_eqb_eq in E; subst k2. rewrite (skey_eqb_neq k' k); auto.
    + rewrite IH; reflexivity.
Qed.
Lemma iget0_iset_same k d m : iget0 k (iset k d m) = d.
Proof. unfold iget0. rewrite iget_iset_same. reflexivity. Qed.
Lemma iget0_iset_other k k' d m : k <> k' -> iget0 k' (iset k d m) = iget0 k' m.
Proof. intros H. unfold iget0. rewrite iget_iset_other; auto. Qed.
Lemma iget_iput_same k f v m : iget k (iput k f v m) = Some (dset f v (iget0 k m)).
Proof. apply iget_iset_same. Qed.
Lemma iget_iput_other k k' f v m : k <> k' -> iget k' (iput k f v m) = iget k' m.
Proof. apply iget_iset_other. Qed.

Lemma fld_iput_same k f v m : fld k f (iput k f v m) = Some v.
Proof. unfold fld, iput. rewrite iget0_iset_same. apply dget_dset_same. Qed.
Lemma fld_iput_other k f v k' f' m : k <> k' \/ f <> f' -> fld k' f' (iput k f v m) = fld k' f' m.
Proof.
  intros H. unfold fld, iput. destruct (skey_eqb_spec k k') as [->|Hk].
  - rewrite iget0_iset_same. destruct H as [H|H]; [congruence|]. apply dget_dset_other; auto.
  - rewrite iget0_iset_other; auto.
Qed.
Lemma fld_iset_new k d m k' f' : iget k m = None -> dget f' d = None -> fld k' f' (iset k d m) = fld k' f' m.
Proof.
  intros Hn Hd. unfold fld. destruct (skey_eqb_spec k k') as [->|Hk].
  - rewrite iget0_iset_same. unfold iget0. rewrite Hn. cbn. exact Hd.
  - rewrite iget0_iset_other; auto.
Qed.

Lemma iget_none_iff k m : iget k m = None <-> ~ In k (keys m).
Proof.
  induction m as [|[k' d'] r IH]; cbn.
  - tauto.
  - destruct (skey_eqb_spec k k') as [->|Hk].
    + split; [discriminate | intros H; exfalso; apply H; auto].
    + rewrite IH. split; [intros H [H1|H1]; [congruence | contradiction] | tauto].
Qed.
Lemma iget_some_in k d m : iget k m = Some d -> In (k, d) m.
Proof.
  induction m as [|[k' d'] r IH]; cbn; [discriminate|].
  destruct (skey_eqb_spec k k') as [->|Hk]; [intros [= ->]; auto | auto].
Qed.
Lemma in_iget_nodup k d m : NoDup (keys m) -> In (k, d) m -> iget k m = Some d.
Proof.
  induction m as [|[k' d'] r IH]; cbn; [tauto|].
  intros Hnd [H|H].
  - inversion H; subst. rewrite skey_eqb_refl. reflexivity.
  - inversion Hnd as [|? ? Hni Hnd']; subst.
    destruct (skey_eqb_spec k k') as [->|Hk]; [|auto].
    exfalso. apply Hni. change (In (fst (k', d)) (map fst r)). apply in_map. exact H.
Qed.
Lemma keys_iset k d m : keys (iset k d m) = match iget k m with Some _ => keys m | None => keys m ++ [k] end.
Proof.
  induction m as [|[k' d'] r IH]; cbn; auto.
  destruct (skey_eqb k k') eqn:E; cbn; auto. rewrite IH. destruct (iget k r); reflexivity.
Qed.
Lemma nodup_keys_iset k d m : NoDup (keys m) -> NoDup (keys (iset k d m)).
Proof.
  intros H. rewrite keys_iset. destruct (iget k m) eqn:E; auto.
  apply iget_none_iff in E.
  apply NoDup_rev in H. rewrite <- (rev_involutive (keys m ++ [k])). apply NoDup_rev.
  rewrite rev_app_distr. cbn. constructor; auto. rewrite <- in_rev. exact E.
Qed.
Lemma keys_iset_incl k d m : incl (keys m) (keys (iset k d m)).
Proof. rewrite keys_iset. destruct (iget k m); [apply incl_refl | apply incl_appl, incl_refl]. Qed.
Lemma keys_iset_in k d m : In k (keys (iset k d m)).
Proof.
  destruct (in_dec (list_eq_dec string_dec) k (keys (iset k d m))) as [H|H]; auto.
  apply iget_none_iff in H. rewrite iget_iset_same in H. discriminate.
Qed.

(* ---------- write footprints ---------- *)
(* [wr W m m']: m' is obtained from m by creating entries and by field writes items[k][f] = v with W k f *)
Inductive wr (W : skey -> string -> Prop) (m : items) : items -> Prop :=
| wr_refl : wr W m m
| wr_put m1 k f v : wr W m m1 -> W k f -> wr W m (iput k f v m1)
| wr_new m1 k : wr W m m1 -> iget k m1 = None -> wr W m (iset k [] m1)
| wr_new1 m1 k f v : wr W m m1 -> iget k m1 = None -> W k f -> wr W m (iset k [(f, v)] m1).

Lemma wr_trans W m m1 m2 : wr W m m1 -> wr W m1 m2 -> wr W m m2.
Proof. intros H1 H2. induction H2; [assumption | constructor; auto ..]. Qed.
Lemma wr_weaken (W W' : skey -> string -> Prop) m m' : (forall k f, W k f -> W' k f) -> wr W m m' -> wr W' m m'.
Proof. intros HW H. induction H; [constructor | constructor; auto ..]. Qed.
Lemma wr_fld W m m' k f : wr W m m' -> ~ W k f -> fld k f m' = fld k f m.
Proof.
  intros H HW. induction H as [|m1 k1 f1 v H IH HW1|m1 k1 H IH Hn|m1 k1 f1 v H IH Hn HW1]; auto.
  - rewrite fld_iput_other; [auto|].
    destruct (skey_eqb_spec k1 k) as [->|]; auto. destruct (String.eqb_spec f1 f) as [->|]; auto; contradiction.
  - rewrite fld_iset_new; auto.
  - rewrite <- IH. unfold fld. destruct (skey_eqb_spec k1 k) as [->|Hk].
    + rewrite iget0_iset_same. unfold iget0. rewrite Hn. cbn.
      destruct (String.eqb_spec f f1) as [->|]; [contradiction | reflexivity].
    + rewrite iget0_iset_other; auto.
Qed.
Lemma wr_nodup W m m' : wr W m m' -> NoDup (keys m) -> NoDup (keys m').
Proof. intros H Hn. induction H; auto; apply nodup_keys_iset; auto. Qed.
Lemma wr_incl W m m' : wr W m m' -> incl (keys m) (keys m').
Proof.
  intros H. induction H; [apply incl_refl | | |]; (eapply incl_tran; [exact IHwr | apply keys_iset_incl]).
Qed.

Definition ensure (k : skey) (m : items) : items := match iget k m with Some _ => m | None => iset k [] m end.
Lemma wr_ensure W m m1 k : wr W m m1 -> wr W m (ensure k m1).
Proof. intros H. unfold ensure. destruct (iget k m1) eqn:E; auto. apply wr_new; auto. Qed.
Lemma ensure_in k m : In k (keys (ensure k m)).
Proof.
  unfold ensure. destruct (iget k m) eqn:E; [|apply keys_iset_in].
  destruct (in_dec (list_eq_dec string_dec) k (keys m)) as [H|H]; auto.
  apply iget_none_iff in H. congruence.
Qed.
Lemma fld_ensure k m k' f : fld k' f (ensure k m) = fld k' f m.
Proof. unfold ensure. destruct (iget k m) eqn:E; auto. apply fld_iset_new; auto. Qed.

Section Phases.
  Variable from_str : skey.

  Definition pref (rf : rfacts) : bool := is_prefix from_str (rf_path_str rf).
  Definition eff_ps (rf : rfacts) : skey := skipn (n_from from_str) (rf_path_str rf).
  Definition eff_simple (rf : rfacts) : list pyval := skipn (n_from from_str) (rf_path_simple rf).

  Definition phase1 (rf : rfacts) (m : items) : items :=
    let ps := eff_ps rf in
    iput ps "doc" (rf_doc rf) (iput ps "path" (VTuple (eff_simple rf)) (iput ps "condition" (rf_cond rf) (ensure ps m))).

  Definition p3_key_type (rf : rfacts) (m : items) : items :=
    match rf_key_type rf with
    | Some (kt, fmt) => iput (eff_ps rf) "key_type_fmt" fmt (iput (eff_ps rf) "key_type" kt m)
    | None => m
    end.
  Definition p3_type (rf : rfacts) (m : items) : items :=
    match rf_type rf with
    | Some (t, fmt) => iput (eff_ps rf) "type_fmt" fmt (iput (eff_ps rf) "type" t m)
    | None => m
    end.
  Definition p3_parent (rf : rfacts) : skey :=
    if Nat.eqb (List.length (rf_path_str rf)) 1 then [] else removelast (eff_ps rf).
  Definition p3_imp (parent : skey) (imp : option string) (m : items) : items :=
    match imp with
    | Some name =>
        if truthy_opt (dget "type" (iget0 parent m)) then m
        else iput parent "type_fmt" (VStr name) (iput parent "type" (VStr name) m)
    | None => m
    end.
  Definition p3_move (ps parent : skey) (flag : bool) (ft ff : string) (m : items) : items :=
    match dget "type" (iget0 ps m), flag with
    | Some t, true =>
        match dget "type_fmt" (iget0 ps m) with
        | Some f => iput ps "type_info_in_parent" (VBool true) (iput parent ff f (iput parent ft t m))
        | None => m
        end
    | _, _ => m
    end.
  Definition phase3 (rf : rfacts) (m : items) : items :=
    let m := p3_type rf (p3_key_type rf m) in
    match rf_imp rf with
    | None => m
    | Some imp =>
        p3_move (eff_ps rf) (p3_parent rf) (rf_last_map rf) "map_value_type" "map_value_type_fmt"
          (p3_move (eff_ps rf) (p3_parent rf) (rf_last_list rf) "list_value_type" "list_value_type_fmt"
             (p3_imp (p3_parent rf) imp (ensure (p3_parent rf) m)))
    end.

  Lemma step_phases m rf :
    step from_str m rf =
    if negb (pref rf) then Ok m
    else let* m2 := add_keys (eff_ps rf) (eff_simple rf) (rf_keys rf) (phase1 rf m) in Ok (phase3 rf m2).
  Proof.
    transitivity
      (if negb (pref rf) then Ok m
       else let* m2 := add_keys (eff_ps rf) (eff_simple rf) (rf_keys rf) (phase1 rf m) in
            match rf_imp rf with
            | None => Ok (p3_type rf (p3_key_type rf m2))
            | Some imp =>
                Ok (p3_move (eff_ps rf) (p3_parent rf) (rf_last_map rf) "map_value_type" "map_value_type_fmt"
                      (p3_move (eff_ps rf) (p3_parent rf) (rf_last_list rf) "list_value_type" "list_value_type_fmt"
                         (p3_imp (p3_parent rf) imp (ensure (p3_parent rf) (p3_type rf (p3_key_type rf m2))))))
            end).
    - reflexivity.
    - destruct (negb (pref rf)); [reflexivity|].
      destruct (add_keys (eff_ps rf) (eff_simple rf) (rf_keys rf) (phase1 rf m)) as [m2|e]; [|reflexivity].
      cbn [bind]. unfold phase3. destruct (rf_imp rf); reflexivity.
  Qed.
End Phases.

(* the fields written by the third phase of a step (types, implicit parent types, type information moved to the parent) *)
Definition wfield3 (f : string) : bool :=
  existsb (String.eqb f)
    ["key_type"; "key_type_fmt"; "type"; "type_fmt"; "list_value_type"; "list_value_type_fmt";
     "map_value_type"; "map_value_type_fmt"; "type_info_in_parent"].
Definition W1 (ps : skey) (k : skey) (f : string) : Prop := k = ps /\ (f = "condition" \/ f = "path" \/ f = "doc").
Definition Wk (ps : skey) (k : skey) (f : string) : Prop := (exists s, k = ps ++ [s]) /\ (f = "path" \/ f = "required").
Definition W3 (k : skey) (f : string) : Prop := wfield3 f = true.
Definition Wstep (ps : skey) (k : skey) (f : string) : Prop := W1 ps k f \/ Wk ps k f \/ W3 k f.

Section Frames.
  Variable from_str : skey.
  Notation eff_ps := (eff_ps from_str).
  Notation eff_simple := (eff_simple from_str).
  Notation pref := (pref from_str).

  Lemma phase1_wr rf m : wr (W1 (eff_ps rf)) m (phase1 from_str rf m).
  Proof.
    unfold phase1. cbv zeta. repeat (apply wr_put; [|unfold W1; auto]). apply wr_ensure, wr_refl.
  Qed.

  Lemma W3_put m m1 k f v : wfield3 f = true -> wr W3 m m1 -> wr W3 m (iput k f v m1).
  Proof. intros. apply wr_put; auto. Qed.
  Lemma p3_move_wr m m1 ps parent flag ft ff :
    wfield3 ft = true -> wfield3 ff = true -> wr W3 m m1 -> wr W3 m (p3_move ps parent flag ft ff m1).
  Proof.
    intros Ht Hf H. unfold p3_move.
    destruct (dget "type" (iget0 ps m1)) as [t|]; [|exact H].
    destruct flag; [|exact H].
    destruct (dget "type_fmt" (iget0 ps m1)) as [f|]; [|exact H].
    repeat (apply W3_put; [assumption || reflexivity|]). exact H.
  Qed.
  Lemma phase3_wr rf m : wr W3 m (phase3 from_str rf m).
  Proof.
    unfold phase3. cbv zeta.
    assert (H2 : wr W3 m (p3_type from_str rf (p3_key_type from_str rf m))).
    { unfold p3_type, p3_key_type.
      destruct (rf_type rf) as [[t fmt]|]; destruct (rf_key_type rf) as [[kt kfmt]|];
        repeat (apply W3_put; [reflexivity|]); apply wr_refl. }
    destruct (rf_imp rf) as [imp|]; [|exact H2].
    apply p3_move_wr; [reflexivity | reflexivity |].
    apply p3_move_wr; [reflexivity | reflexivity |].
    unfold p3_imp. destruct imp as [name|]; [|apply wr_ensure, H2].
    destruct (truthy_opt _); [apply wr_ensure, H2|].
    repeat (apply W3_put; [reflexivity|]). apply wr_ensure, H2.
  Qed.

  Lemma add_keys_wr ps simple ks m m' : add_keys ps simple ks m = Ok m' -> wr (Wk ps) m m'.
  Proof.
    revert m. induction ks as [|[[key kstr] isreq] r IH]; intros m; cbn [add_keys].
    - intros [= <-]. apply wr_refl.
    - destruct kstr as [s|]; [|discriminate]. intros H. apply IH in H. clear IH.
      eapply wr_trans; [|exact H]. apply wr_put.
      + destruct (iget (ps ++ [s]) m) eqn:E; [apply wr_refl|]. apply wr_new1; [apply wr_refl | exact E |].
        split; eauto.
      + split; eauto.
  Qed.

  Lemma step_wr m rf m' : step from_str m rf = Ok m' -> wr (Wstep (eff_ps rf)) m m'.
  Proof.
    rewrite step_phases. destruct (negb (pref rf)); [intros [= <-]; apply wr_refl|].
    destruct (add_keys (eff_ps rf) (eff_simple rf) (rf_keys rf) (phase1 from_str rf m)) as [m2|e] eqn:E; [|discriminate].
    cbn [bind]. intros [= <-].
    eapply wr_trans; [eapply wr_weaken; [|apply phase1_wr] | eapply wr_trans; [eapply wr_weaken; [|eapply add_keys_wr; exact E] | eapply wr_weaken; [|apply phase3_wr]]];
      unfold Wstep; intros; tauto.
  Qed.

  (* every step only creates entries / writes fields: the keys stay distinct and are never removed *)
  Lemma steps_wr m rs m' : steps from_str m rs = Ok m' -> wr (fun k f => exists rf, In rf rs /\ pref rf = true /\ Wstep (eff_ps rf) k f) m m'.
  Proof.
    revert m. induction rs as [|rf r IH]; intros m; cbn [steps].
    - intros [= <-]. apply wr_refl.
    - destruct (step from_str m rf) as [m1|e] eqn:E; [|discriminate]. cbn [bind]. intros H.
      apply IH in H. eapply wr_trans.
      + destruct (pref rf) eqn:Ep.
        * apply step_wr in E. eapply wr_weaken; [|exact E]. intros k f Hw. exists rf. cbn. auto.
        * rewrite step_phases, Ep in E. cbn in E. injection E as <-. apply wr_refl.
      + eapply wr_weaken; [|exact H]. intros k f (rf' & Hin & Hp & Hw). exists rf'. cbn. auto.
  Qed.
End Frames.

(* ---------- (T5) required flags ---------- *)
Definition acc1 (o : option pyval) (b : bool) : option pyval := Some (VBool (truthy_opt o || b)).
Definition acc_req (o : option pyval) (bs : list bool) : option pyval := fold_left acc1 bs o.
(* the required_keys / allowed_keys entries of a rule with effective path ps that name the key k' *)
Definition key_hits (ps k' : skey) (ks : list (pyval * option string * bool)) : list bool :=
  flat_map (fun e : pyval * option string * bool =>
              match e with
              | (_, Some s, b) => if skey_eqb (ps ++ [s]) k' then [b] else []
              | (_, None, _) => []
              end) ks.

Lemma in_key_hits ps k' ks b :
  In b (key_hits ps k' ks) <-> exists key s, In (key, Some s, b) ks /\ ps ++ [s] = k'.
Proof.
  unfold key_hits. rewrite in_flat_map. split.
  - intros ([[key [s|]] b'] & Hin & Hb); [|destruct Hb].
    destruct (skey_eqb_spec (ps ++ [s]) k') as [He|]; [|destruct Hb].
    destruct Hb as [<-|[]]. eauto.
  - intros (key & s & Hin & He). exists (key, Some s, b). split; auto.
    rewrite (proj2 (skey_eqb_eq _ _) He). left; reflexivity.
Qed.

Lemma acc_req_some c bs : acc_req (Some (VBool c)) bs = Some (VBool (c || existsb (fun b => b) bs)).
Proof.
  revert c. induction bs as [|b bs IH]; intros c.
  - cbn. rewrite orb_false_r. reflexivity.
  - change (acc_req (Some (VBool c)) (b :: bs)) with (acc_req (acc1 (Some (VBool c)) b) bs).
    unfold acc1. cbn [truthy_opt py_truthy]. rewrite IH. cbn [existsb]. rewrite orb_assoc. reflexivity.
Qed.
Lemma acc_req_none bs :
  acc_req None bs = match bs with [] => None | _ => Some (VBool (existsb (fun b => b) bs)) end.
Proof.
  destruct bs as [|b bs]; [reflexivity|].
  change (acc_req None (b :: bs)) with (acc_req (acc1 None b) bs).
  unfold acc1. cbn [truthy_opt]. rewrite acc_req_some. reflexivity.
Qed.
Lemma acc_req_app o bs1 bs2 : acc_req o (bs1 ++ bs2) = acc_req (acc_req o bs1) bs2.
Proof. apply fold_left_app. Qed.

Lemma add_keys_req ps simple ks m m' k' :
  add_keys ps simple ks m = Ok m' ->
  fld k' "required" m' = acc_req (fld k' "required" m) (key_hits ps k' ks).
Proof.
  revert m. induction ks as [|[[key kstr] isreq] r IH]; intros m; cbn [add_keys].
  - intros [= <-]. reflexivity.
  - destruct kstr as [s|]; [|discriminate]. intros H. apply IH in H. clear IH. rewrite H. clear H.
    change (key_hits ps k' ((key, Some s, isreq) :: r))
      with ((if skey_eqb (ps ++ [s]) k' then [isreq] else []) ++ key_hits ps k' r).
    rewrite acc_req_app. f_equal.
    set (m1 := match iget (ps ++ [s]) m with Some _ => m | None => iset (ps ++ [s]) [("path", VTuple (simple ++ [key]))] m end).
    assert (Hm1 : forall k, fld k "required" m1 = fld k "required" m).
    { intros k. unfold m1. destruct (iget (ps ++ [s]) m) eqn:E; [reflexivity|]. apply fld_iset_new; auto. }
    destruct (skey_eqb_spec (ps ++ [s]) k') as [<-|Hne].
    + rewrite fld_iput_same. cbn. unfold acc1. rewrite <- Hm1. reflexivity.
    + rewrite fld_iput_other; auto. cbn. apply Hm1.
Qed.

Section Required.
  Variable from_str : skey.
  Notation eff_ps := (eff_ps from_str).
  Notation eff_simple := (eff_simple from_str).
  Notation pref := (pref from_str).

  Definition rule_hits (k' : skey) (rf : rfacts) : list bool :=
    if pref rf then key_hits (eff_ps rf) k' (rf_keys rf) else [].

  Lemma W1_not_required ps k : ~ W1 ps k "required".
  Proof. intros [_ [H|[H|H]]]; discriminate. Qed.
  Lemma W3_not_required k : ~ W3 k "required".
  Proof. unfold W3. cbn. discriminate. Qed.

  Lemma step_req m rf m' k' :
    step from_str m rf = Ok m' ->
    fld k' "required" m' = acc_req (fld k' "required" m) (rule_hits k' rf).
  Proof.
    rewrite step_phases. unfold rule_hits. destruct (pref rf); cbn [negb].
    - destruct (add_keys (eff_ps rf) (eff_simple rf) (rf_keys rf) (phase1 from_str rf m)) as [m2|e] eqn:E; [|discriminate].
      cbn [bind]. intros [= <-].
      rewrite (wr_fld _ _ _ k' "required" (phase3_wr from_str rf m2) (W3_not_required k')).
      rewrite (add_keys_req _ _ _ _ _ k' E).
      rewrite (wr_fld _ _ _ k' "required" (phase1_wr from_str rf m) (W1_not_required _ k')). reflexivity.
    - intros [= <-]. reflexivity.
  Qed.

  Lemma steps_req m rs m' k' :
    steps from_str m rs = Ok m' ->
    fld k' "required" m' = acc_req (fld k' "required" m) (flat_map (rule_hits k') rs).
  Proof.
    revert m. induction rs as [|rf r IH]; intros m; cbn [steps].
    - intros [= <-]. reflexivity.
    - destruct (step from_str m rf) as [m1|e] eqn:E; [|discriminate]. cbn [bind]. intros H.
      apply IH in H. rewrite H. cbn [flat_map]. rewrite acc_req_app. f_equal. apply step_req. exact E.
  Qed.

  (* the value of the "required" field of the entry k' after all rules: the disjunction of the flags of all entries that
     name k' (absent when no entry names it) *)
  Theorem T5_required_value rs m k' :
    steps from_str [] rs = Ok m ->
    fld k' "required" m =
    match flat_map (rule_hits k') rs with
    | [] => None
    | bs => Some (VBool (existsb (fun b => b) bs))
    end.
  Proof.
    intros H. rewrite (steps_req _ _ _ k' H). change (fld k' "required" []) with (@None pyval).
    rewrite acc_req_none. destruct (flat_map (rule_hits k') rs); reflexivity.
  Qed.

  (* [names rs k' b]: an always-applicable allowed_keys (b = false) / required_keys (b = true) condition of a rule
     of the sub-tree names the key k' *)
  Definition names (rs : list rfacts) (k' : skey) (b : bool) : Prop :=
    exists rf key s, In rf rs /\ pref rf = true /\ In (key, Some s, b) (rf_keys rf) /\ eff_ps rf ++ [s] = k'.

  Lemma in_hits rs k' b : In b (flat_map (rule_hits k') rs) <-> names rs k' b.
  Proof.
    rewrite in_flat_map. unfold names, rule_hits. split.
    - intros (rf & Hin & Hb). destruct (pref rf) eqn:Ep; [|destruct Hb].
      apply in_key_hits in Hb. destruct Hb as (key & s & H1 & H2). exists rf, key, s. auto.
    - intros (rf & key & s & Hin & Hp & H1 & H2). exists rf. split; auto. rewrite Hp.
      apply in_key_hits. eauto.
  Qed.

  Theorem T5_required_true_iff rs m k' :
    steps from_str [] rs = Ok m ->
    (fld k' "required" m = Some (VBool true) <-> names rs k' true).
  Proof.
    intros H. rewrite (T5_required_value _ _ k' H). rewrite <- in_hits.
    destruct (flat_map (rule_hits k') rs) as [|b0 bs] eqn:E.
    - split; [discriminate | intros []].
    - split.
      + intros [= Hx]. change (existsb (fun b => b) (b0 :: bs) = true) in Hx. apply existsb_exists in Hx. destruct Hx as (b & Hin & ->). exact Hin.
      + intros Hin. f_equal. f_equal. apply existsb_exists. exists true. auto.
  Qed.

  Theorem T5_required_false_iff rs m k' :
    steps from_str [] rs = Ok m ->
    (fld k' "required" m = Some (VBool false) <-> names rs k' false /\ ~ names rs k' true).
  Proof.
    intros H. pose proof (T5_required_true_iff _ _ k' H) as Ht. rewrite <- Ht.
    rewrite (T5_required_value _ _ k' H). rewrite <- in_hits.
    destruct (flat_map (rule_hits k') rs) as [|b0 bs] eqn:E.
    - split; [discriminate | intros [[] _]].
    - split.
      + intros [= Hx]. change (existsb (fun b => b) (b0 :: bs) = false) in Hx. split; [|rewrite Hx; discriminate].
        destruct b0; [cbn in Hx; discriminate|]. left; reflexivity.
      + intros [_ Hn]. destruct (existsb (fun b => b) (b0 :: bs)); [exfalso; apply Hn|]; reflexivity.
  Qed.

  Theorem T5_required_none_iff rs m k' :
    steps from_str [] rs = Ok m ->
    (fld k' "required" m = None <-> forall b, ~ names rs k' b).
  Proof.
    intros H. rewrite (T5_required_value _ _ k' H).
    destruct (flat_map (rule_hits k') rs) as [|b0 bs] eqn:E.
    - split; auto. intros _ b Hn. apply in_hits in Hn. rewrite E in Hn. destruct Hn.
    - split; [discriminate|]. intros Hn. exfalso. apply (Hn b0). apply in_hits. rewrite E. left; reflexivity.
  Qed.
End Required.

(* the whole tree (from_path = []): the statement on keys k ++ [s] *)
Lemma pref_nil rf : pref [] rf = true.
Proof. reflexivity. Qed.
Lemma eff_ps_nil rf : eff_ps [] rf = rf_path_str rf.
Proof. reflexivity. Qed.

Theorem T5_required_whole rs m k s :
  steps [] [] rs = Ok m ->
  (dget "required" (iget0 (k ++ [s]) m) = Some (VBool true) <->
     exists rf key, In rf rs /\ rf_path_str rf = k /\ In (key, Some s, true) (rf_keys rf))
  /\ (dget "required" (iget0 (k ++ [s]) m) = Some (VBool false) <->
     (exists rf key, In rf rs /\ rf_path_str rf = k /\ In (key, Some s, false) (rf_keys rf))
     /\ ~ (exists rf key, In rf rs /\ rf_path_str rf = k /\ In (key, Some s, true) (rf_keys rf)))
  /\ (dget "required" (iget0 (k ++ [s]) m) = None <->
     forall rf key b, In rf rs -> rf_path_str rf = k -> ~ In (key, Some s, b) (rf_keys rf)).
Proof.
  intros H.
  assert (Hn : forall b, names [] rs (k ++ [s]) b <-> exists rf key, In rf rs /\ rf_path_str rf = k /\ In (key, Some s, b) (rf_keys rf)).
  { intros b. unfold names. split.
    - intros (rf & key & s' & Hin & _ & H1 & H2). rewrite eff_ps_nil in H2.
      apply app_inj_tail in H2. destruct H2 as [H2 ->]. eauto.
    - intros (rf & key & Hin & H1 & H2). exists rf, key, s. rewrite eff_ps_nil, H1. auto. }
  change (dget "required" (iget0 (k ++ [s]) m)) with (fld (k ++ [s]) "required" m).
  split; [|split].
  - rewrite (T5_required_true_iff [] _ _ _ H). apply Hn.
  - rewrite (T5_required_false_iff [] _ _ _ H). rewrite !Hn. reflexivity.
  - rewrite (T5_required_none_iff [] _ _ _ H). split.
    + intros Hx rf key b Hin Hp Hi. apply (Hx b). apply Hn. eauto.
    + intros Hx b Hb. apply Hn in Hb. destruct Hb as (rf & key & Hin & Hp & Hi). exact (Hx rf key b Hin Hp Hi).
Qed.

(* ---------- (T1) items invariants ---------- *)
Definition key_lt (a b : skey * pdict) : Prop := skey_ltb (fst a) (fst b) = true.
#[local] Instance key_lt_trans : Transitive key_lt.
Proof. intros a b c. unfold key_lt. apply skey_ltb_trans. Qed.

Lemma insert_sorted_perm x l : Permutation (insert_sorted x l) (x :: l).
Proof.
  induction l as [|y r IH]; cbn; auto.
  destruct (skey_ltb (fst x) (fst y)); auto.
  eapply perm_trans; [apply perm_skip, IH | apply perm_swap].
Qed.
Lemma sort_items_perm m : Permutation (sort_items m) m.
Proof.
  induction m as [|x r IH]; cbn; auto.
  eapply perm_trans; [apply insert_sorted_perm | apply perm_skip, IH].
Qed.
Lemma insert_sorted_hdrel y x r : key_lt y x -> HdRel key_lt y r -> HdRel key_lt y (insert_sorted x r).
Proof.
  intros Hyx Hr. destruct r as [|z r']; cbn; [constructor; auto|].
  destruct (skey_ltb (fst x) (fst z)); constructor; auto. inversion Hr; auto.
Qed.
Lemma insert_sorted_sorted x l : ~ In (fst x) (keys l) -> Sorted key_lt l -> Sorted key_lt (insert_sorted x l).
Proof.
  induction l as [|y r IH]; cbn; intros Hni Hs.
  - constructor; constructor.
  - destruct (skey_ltb (fst x) (fst y)) eqn:E.
    + constructor; auto.
    + inversion Hs as [|? ? Hs' Hhd]; subst. constructor.
      * apply IH; auto.
      * apply insert_sorted_hdrel; auto. unfold key_lt. apply skey_ltb_total; [|exact E].
        intros He. apply Hni. left. auto.
Qed.
Lemma sort_items_sorted m : NoDup (keys m) -> Sorted key_lt (sort_items m).
Proof.
  induction m as [|x r IH]; cbn; intros Hnd; [constructor|].
  inversion Hnd as [|? ? Hni Hnd']; subst.
  apply insert_sorted_sorted; auto.
  intros Hin. apply Hni. eapply Permutation_in; [|exact Hin]. apply Permutation_map, sort_items_perm.
Qed.
Lemma sort_items_ssorted m : NoDup (keys m) -> StronglySorted key_lt (sort_items m).
Proof. intros H. apply Sorted_StronglySorted; [apply key_lt_trans | apply sort_items_sorted, H]. Qed.
Lemma sort_items_nodup m : NoDup (keys m) -> NoDup (keys (sort_items m)).
Proof. intros H. eapply Permutation_NoDup; [|exact H]. apply Permutation_sym, Permutation_map, sort_items_perm. Qed.

Lemma steps_nodup from_str m0 rs m : steps from_str m0 rs = Ok m -> NoDup (keys m0) -> NoDup (keys m).
Proof. intros H. apply steps_wr in H. eapply wr_nodup; eauto. Qed.
Lemma steps_incl from_str m0 rs m : steps from_str m0 rs = Ok m -> incl (keys m0) (keys m).
Proof. intros H. apply steps_wr in H. eapply wr_incl; eauto. Qed.

Theorem T1_items_invariants from_str rs m :
  steps from_str [] rs = Ok m ->
  NoDup (map fst m)
  /\ Permutation (sort_items m) m
  /\ StronglySorted (fun a b => skey_ltb (fst a) (fst b) = true) (sort_items m).
Proof.
  intros H. assert (Hnd : NoDup (keys m)) by (eapply steps_nodup; [exact H | constructor]).
  split; [exact Hnd|]. split; [apply sort_items_perm | apply sort_items_ssorted, Hnd].
Qed.

(* ---------- (T2) each rule once, with its condition and doc ---------- *)
Section Once.
  Variable from_str : skey.
  Notation eff_ps := (eff_ps from_str).
  Notation eff_simple := (eff_simple from_str).
  Notation pref := (pref from_str).

  Lemma Wstep_not_cond ps k : k <> ps -> ~ Wstep ps k "condition".
  Proof.
    intros Hne [[H _]|[[_ [H|H]]|H]]; [congruence | discriminate | discriminate | unfold W3 in H; cbn in H; discriminate].
  Qed.
  Lemma Wstep_not_doc ps k : k <> ps -> ~ Wstep ps k "doc".
  Proof.
    intros Hne [[H _]|[[_ [H|H]]|H]]; [congruence | discriminate | discriminate | unfold W3 in H; cbn in H; discriminate].
  Qed.
  Lemma Wk_W3_not_cond ps k : ~ (Wk ps k "condition" \/ W3 k "condition").
  Proof. intros [[_ [H|H]]|H]; [discriminate | discriminate | unfold W3 in H; cbn in H; discriminate]. Qed.
  Lemma Wk_W3_not_doc ps k : ~ (Wk ps k "doc" \/ W3 k "doc").
  Proof. intros [[_ [H|H]]|H]; [discriminate | discriminate | unfold W3 in H; cbn in H; discriminate]. Qed.

  Lemma step_cond_doc m rf m' :
    step from_str m rf = Ok m' -> pref rf = true ->
    fld (eff_ps rf) "condition" m' = Some (rf_cond rf) /\ fld (eff_ps rf) "doc" m' = Some (rf_doc rf)
    /\ In (eff_ps rf) (keys m').
  Proof.
    rewrite step_phases. intros H Hp. rewrite Hp in H. cbn [negb] in H.
    destruct (add_keys (eff_ps rf) (eff_simple rf) (rf_keys rf) (phase1 from_str rf m)) as [m2|e] eqn:E; [|discriminate].
    cbn [bind] in H. injection H as <-.
    assert (Hw : wr (fun k f => Wk (eff_ps rf) k f \/ W3 k f) (phase1 from_str rf m) (phase3 from_str rf m2)).
    { eapply wr_trans; [eapply wr_weaken; [|eapply add_keys_wr; exact E] | eapply wr_weaken; [|apply phase3_wr]]; intros; tauto. }
    split; [|split].
    - rewrite (wr_fld _ _ _ _ _ Hw (Wk_W3_not_cond _ _)). unfold phase1. cbv zeta.
      rewrite fld_iput_other by (right; discriminate). rewrite fld_iput_other by (right; discriminate).
      apply fld_iput_same.
    - rewrite (wr_fld _ _ _ _ _ Hw (Wk_W3_not_doc _ _)). unfold phase1. cbv zeta. apply fld_iput_same.
    - apply (wr_incl _ _ _ Hw). unfold phase1. cbv zeta. unfold iput.
      do 3 apply keys_iset_incl. apply ensure_in.
  Qed.

  Lemma steps_cond_doc rs m0 m rf :
    steps from_str m0 rs = Ok m ->
    NoDup (map eff_ps (filter pref rs)) -> In rf rs -> pref rf = true ->
    fld (eff_ps rf) "condition" m = Some (rf_cond rf) /\ fld (eff_ps rf) "doc" m = Some (rf_doc rf)
    /\ In (eff_ps rf) (keys m).
  Proof.
    revert m0. induction rs as [|rf0 r IH]; intros m0; cbn [steps]; [intros _ _ []|].
    destruct (step from_str m0 rf0) as [m1|e] eqn:E; [|discriminate]. cbn [bind]. intros H Hnd Hin Hp.
    destruct Hin as [->|Hin].
    - cbn [filter] in Hnd. rewrite Hp in Hnd. cbn [map] in Hnd. inversion Hnd as [|? ? Hni _]; subst.
      destruct (step_cond_doc _ _ _ E Hp) as (Hc & Hd & Hk).
      pose proof (steps_wr _ _ _ _ H) as Hw.
      assert (Hne : forall rf', In rf' r -> pref rf' = true -> eff_ps rf <> eff_ps rf').
      { intros rf' Hin' Hp' He. apply Hni. rewrite He. apply in_map. apply filter_In. auto. }
      split; [|split].
      + rewrite <- Hc. eapply wr_fld; [exact Hw|]. intros (rf' & Hin' & Hp' & Hx).
        revert Hx. apply Wstep_not_cond. apply Hne; auto.
      + rewrite <- Hd. eapply wr_fld; [exact Hw|]. intros (rf' & Hin' & Hp' & Hx).
        revert Hx. apply Wstep_not_doc. apply Hne; auto.
      + apply (wr_incl _ _ _ Hw). exact Hk.
    - apply (IH m1); auto. cbn [filter] in Hnd. destruct (pref rf0); [|exact Hnd].
      cbn [map] in Hnd. inversion Hnd; auto.
  Qed.
End Once.

(* the shape of the flat items: every sorted entry, with the two added fields *)
Definition flat_of (k : skey) (p : Z) (d : pdict) : pdict := dset "path_str" (VTuple (map VStr k)) (dset "parent" (VInt p) d).
Lemma wp_shape l refs idx out :
  with_parents l refs idx = Ok out ->
  Forall2 (fun kd d' => exists p, d' = flat_of (fst kd) p (snd kd)) l out.
Proof.
  revert refs idx out. induction l as [|[k d] r IH]; intros refs idx out; cbn [with_parents].
  - intros [= <-]. constructor.
  - destruct (refs_get (removelast k) refs) as [p|]; [|discriminate].
    destruct (with_parents r (refs_set k idx refs) (idx + 1)%Z) as [rest|e] eqn:E; [|discriminate].
    cbn [bind]. intros [= <-]. constructor; [exists p; reflexivity | eapply IH; exact E].
Qed.
Lemma flat_of_path_str k p d : dget "path_str" (flat_of k p d) = Some (VTuple (map VStr k)).
Proof. apply dget_dset_same. Qed.
Lemma flat_of_parent k p d : dget "parent" (flat_of k p d) = Some (VInt p).
Proof. unfold flat_of. rewrite dget_dset_other by discriminate. apply dget_dset_same. Qed.
Lemma flat_of_other k p d f : f <> "path_str" -> f <> "parent" -> dget f (flat_of k p d) = dget f d.
Proof. intros H1 H2. unfold flat_of. rewrite !dget_dset_other; auto. Qed.
Lemma map_VStr_inj a b : map VStr a = map VStr b -> a = b.
Proof.
  revert b; induction a as [|x a IH]; destruct b as [|y b]; cbn; try congruence.
  intros H. injection H as -> H. f_equal; auto.
Qed.

Lemma mapM_id {A} (f : A -> res A) l : (forall x, f x = Ok x) -> mapM f l = Ok l.
Proof. intros H. induction l as [|x r IH]; cbn; auto. rewrite H, IH. reflexivity. Qed.
Lemma flat_tree_whole rs l :
  flat_tree [] [] rs = Ok l <->
  exists m, steps [] [] rs = Ok m /\ with_parents (sort_items m) [([], (-1)%Z)] 0%Z = Ok l.
Proof.
  unfold flat_tree. split.
  - destruct (steps [] [] rs) as [m|e]; cbn [bind]; [|discriminate].
    destruct (with_parents (sort_items m) [([], (-1)%Z)] 0%Z) as [l0|e] eqn:Ew; cbn [bind]; [|discriminate].
    rewrite mapM_id by reflexivity. intros [= <-]. eauto.
  - intros (m & Hs & Hw). rewrite Hs. cbn [bind]. rewrite Hw. cbn [bind]. apply mapM_id. reflexivity.
Qed.

Lemma filter_true {A} (l : list A) : filter (fun _ => true) l = l.
Proof. induction l; cbn; congruence. Qed.

Theorem T2_each_rule_once rs l :
  NoDup (map rf_path_str rs) ->
  flat_tree [] [] rs = Ok l ->
  forall rf, In rf rs ->
  exists i d,
    nth_error l i = Some d
    /\ dget "path_str" d = Some (VTuple (map VStr (rf_path_str rf)))
    /\ dget "condition" d = Some (rf_cond rf)
    /\ dget "doc" d = Some (rf_doc rf)
    /\ forall j d', nth_error l j = Some d' -> dget "path_str" d' = Some (VTuple (map VStr (rf_path_str rf))) -> j = i.
Proof.
  intros Hnd Hf rf Hin. apply flat_tree_whole in Hf. destruct Hf as (m & Hs & Hw).
  assert (Hndm : NoDup (keys m)) by (eapply steps_nodup; [exact Hs | constructor]).
  destruct (steps_cond_doc [] rs [] m rf Hs) as (Hc & Hd & Hk); auto.
  { change (pref []) with (fun _ : rfacts => true). rewrite filter_true. exact Hnd. }
  change (eff_ps [] rf) with (rf_path_str rf) in *.
  set (ps := rf_path_str rf) in *.
  (* the entry of ps in m and in the sorted list *)
  destruct (iget ps m) as [d0|] eqn:Eg; [|apply iget_none_iff in Eg; contradiction].
  assert (Hin0 : In (ps, d0) (sort_items m)).
  { eapply Permutation_in; [apply Permutation_sym, sort_items_perm | apply iget_some_in, Eg]. }
  apply In_nth_error in Hin0. destruct Hin0 as (i & Hi).
  pose proof (wp_shape _ _ _ _ Hw) as Hsh.
  assert (Hnth : forall j kd, nth_error (sort_items m) j = Some kd ->
                  exists p, nth_error l j = Some (flat_of (fst kd) p (snd kd))).
  { clear -Hsh. induction Hsh as [|x y l1 l2 Hxy _ IH]; intros j kd Hj.
    - destruct j; discriminate.
    - destruct j as [|j]; cbn in *; [injection Hj as <-; destruct Hxy as (p & ->); eauto | eauto]. }
  destruct (Hnth _ _ Hi) as (p & Hli). cbn [fst snd] in Hli.
  exists i, (flat_of ps p d0). split; [exact Hli|]. split; [apply flat_of_path_str|].
  unfold fld, iget0 in Hc, Hd. rewrite Eg in Hc, Hd.
  split; [rewrite flat_of_other by discriminate; exact Hc|].
  split; [rewrite flat_of_other by discriminate; exact Hd|].
  intros j d' Hj Hp.
  assert (Hlen : List.length (sort_items m) = List.length l) by (clear -Hsh; induction Hsh; cbn; auto).
  destruct (nth_error (sort_items m) j) as [[k dj]|] eqn:Ej.
  - destruct (Hnth _ _ Ej) as (p' & Hj'). cbn [fst snd] in Hj'. rewrite Hj in Hj'. injection Hj' as ->.
    rewrite flat_of_path_str in Hp. injection Hp as Hp. apply map_VStr_inj in Hp. subst k.
    pose proof (sort_items_nodup m Hndm) as Hnds.
    eapply (proj1 (NoDup_nth_error (keys (sort_items m)))); [exact Hnds | |].
    + rewrite map_length. apply nth_error_Some. congruence.
    + rewrite !nth_error_map. rewrite Ej, Hi. reflexivity.
  - apply nth_error_None in Ej. assert (nth_error l j <> None) by congruence.
    apply nth_error_Some in H. lia.
Qed.

(* ---------- (T3) parent references ---------- *)
Lemma refs_get_set k' k i refs :
  refs_get k' (refs_set k i refs) = if skey_eqb k' k then Some i else refs_get k' refs.
Proof.
  induction refs as [|[k2 j] r IH]; cbn; [reflexivity|].
  destruct (skey_eqb_spec k k2) as [->|Hk]; cbn.
  - destruct (skey_eqb k' k2); reflexivity.
  - rewrite IH. destruct (skey_eqb_spec k' k2) as [->|Hk2]; [|reflexivity].
    rewrite (skey_eqb_neq k2 k); auto.
Qed.

Lemma wp_spec l : forall refs idx out,
  with_parents l refs idx = Ok out ->
  forall i k d, nth_error l i = Some (k, d) ->
  exists p, nth_error out i = Some (flat_of k p d)
    /\ ((refs_get (removelast k) refs = Some p
         /\ forall j k' d', (j < i)%nat -> nth_error l j = Some (k', d') -> k' <> removelast k)
        \/ (exists j d', (j < i)%nat /\ nth_error l j = Some (removelast k, d') /\ p = (idx + Z.of_nat j)%Z)).
Proof.
  induction l as [|[k0 d0] r IH]; intros refs idx out; cbn [with_parents].
  - intros _ [|i] k d Hi; discriminate.
  - destruct (refs_get (removelast k0) refs) as [p0|] eqn:E0; [|discriminate].
    destruct (with_parents r (refs_set k0 idx refs) (idx + 1)%Z) as [rest|e] eqn:E; [|discriminate].
    cbn [bind]. intros [= <-] [|i] k d Hi.
    + cbn in Hi. injection Hi as <- <-. exists p0. split; [reflexivity|]. left. split; [exact E0|].
      intros j k' d' Hj. lia.
    + cbn [nth_error] in Hi. destruct (IH _ _ _ E i k d Hi) as (p & Hp & Hcase). exists p. split; [exact Hp|].
      destruct Hcase as [[Hg Hno]|(j & d' & Hj & Hnj & ->)].
      * rewrite refs_get_set in Hg. destruct (skey_eqb_spec (removelast k) k0) as [He|Hne].
        -- injection Hg as <-. right. exists 0%nat, d0. split; [lia|]. split; [cbn; rewrite He; reflexivity | lia].
        -- left. split; [exact Hg|]. intros [|j] k' d' Hj Hn.
           ++ cbn in Hn. injection Hn as <- <-. auto.
           ++ cbn in Hn. apply (Hno j k' d'); [lia | exact Hn].
      * right. exists (S j), d'. split; [lia|]. split; [exact Hnj | lia].
Qed.

Lemma wp_length l : forall refs idx out, with_parents l refs idx = Ok out -> List.length out = List.length l.
Proof.
  intros refs idx out H. apply wp_shape in H. induction H; cbn; auto.
Qed.

Lemma wp_only_keyerror l : forall refs idx e, with_parents l refs idx = Err e -> e = KeyError.
Proof.
  induction l as [|[k0 d0] r IH]; intros refs idx e; cbn [with_parents]; [discriminate|].
  destruct (refs_get (removelast k0) refs) as [p0|]; [|intros [= <-]; reflexivity].
  destruct (with_parents r (refs_set k0 idx refs) (idx + 1)%Z) as [rest|e'] eqn:E; [discriminate|].
  cbn [bind]. intros [= <-]. eapply IH; exact E.
Qed.

(* what the model gives, on any list of entries: the parent of the item i with key k is -1 when k has at most one
   component and the root key () is not an EARLIER item; otherwise it is the index of an earlier item whose key is k
   without its last component *)
Theorem T3_parents l out :
  with_parents l [([], (-1)%Z)] 0%Z = Ok out ->
  List.length out = List.length l /\
  forall i k d, nth_error l i = Some (k, d) ->
  exists p d', nth_error out i = Some d'
    /\ dget "parent" d' = Some (VInt p)
    /\ dget "path_str" d' = Some (VTuple (map VStr k))
    /\ ((p = (-1)%Z /\ removelast k = []
         /\ forall j k' d2, (j < i)%nat -> nth_error l j = Some (k', d2) -> k' <> [])
        \/ ((0 <= p < Z.of_nat i)%Z /\ exists d2, nth_error l (Z.to_nat p) = Some (removelast k, d2))).
Proof.
  intros H. split; [eapply wp_length; exact H|]. intros i k d Hi.
  destruct (wp_spec _ _ _ _ H i k d Hi) as (p & Hp & Hcase).
  exists p, (flat_of k p d). split; [exact Hp|]. split; [apply flat_of_parent|]. split; [apply flat_of_path_str|].
  destruct Hcase as [[Hg Hno]|(j & d' & Hj & Hnj & ->)].
  - left. cbn in Hg. destruct (skey_eqb_spec (removelast k) []) as [He|]; [|discriminate].
    injection Hg as <-. split; [reflexivity|]. split; [exact He|]. rewrite He in Hno. exact Hno.
  - right. split; [lia|]. exists d'. rewrite Z.add_0_l, Nat2Z.id. exact Hnj.
Qed.

(* sorted lists *)
Lemma ssorted_nth {A} (R : A -> A -> Prop) l : StronglySorted R l ->
  forall i j a b, (i < j)%nat -> nth_error l i = Some a -> nth_error l j = Some b -> R a b.
Proof.
  induction 1 as [|x l Hs IH Hall]; intros i j a b Hij Hi Hj; [destruct i; discriminate|].
  destruct j as [|j]; [lia|]. cbn in Hj. destruct i as [|i].
  - cbn in Hi. injection Hi as <-. rewrite Forall_forall in Hall. apply Hall. eapply nth_error_In; exact Hj.
  - cbn in Hi. apply (IH i j); auto. lia.
Qed.
Lemma ssorted_app_r {A} (R : A -> A -> Prop) l1 l2 : StronglySorted R (l1 ++ l2) -> StronglySorted R l2.
Proof. induction l1 as [|x l1 IH]; cbn; auto. intros H. inversion H; auto. Qed.

Lemma skey_ltb_nil_r k : skey_ltb k [] = false.
Proof. destruct k; reflexivity. Qed.

(* on the sorted items: parents precede their children and are their path prefixes *)
Theorem T3_parents_sorted m out :
  NoDup (map fst m) ->
  with_parents (sort_items m) [([], (-1)%Z)] 0%Z = Ok out ->
  List.length out = List.length m /\
  forall i k d, nth_error (sort_items m) i = Some (k, d) ->
  exists p d', nth_error out i = Some d'
    /\ dget "parent" d' = Some (VInt p)
    /\ dget "path_str" d' = Some (VTuple (map VStr k))
    /\ ((p = (-1)%Z /\ removelast k = [] /\ (k = [] \/ ~ In [] (map fst m)))
        \/ ((0 <= p < Z.of_nat i)%Z /\ removelast k <> k
            /\ exists d2, nth_error (sort_items m) (Z.to_nat p) = Some (removelast k, d2))).
Proof.
  intros Hnd H. destruct (T3_parents _ _ H) as [Hlen Hall]. split.
  { rewrite Hlen. apply Permutation_length, sort_items_perm. }
  intros i k d Hi. destruct (Hall i k d Hi) as (p & d' & H1 & H2 & H3 & Hcase).
  exists p, d'. split; [exact H1|]. split; [exact H2|]. split; [exact H3|].
  pose proof (sort_items_ssorted m Hnd) as Hss.
  destruct Hcase as [(-> & He & Hno)|(Hr & d2 & Hn)].
  - left. split; [reflexivity|]. split; [exact He|].
    destruct (in_dec (list_eq_dec string_dec) [] (map fst m)) as [Hin|Hni]; [|right; exact Hni]. left.
    assert (Hin' : In [] (keys (sort_items m))).
    { eapply Permutation_in; [apply Permutation_map, Permutation_sym, sort_items_perm | exact Hin]. }
    apply in_map_iff in Hin'. destruct Hin' as ([k0 d0] & Hk0 & Hin'). cbn in Hk0. subst k0.
    apply In_nth_error in Hin'. destruct Hin' as (j & Hj).
    destruct (Nat.lt_trichotomy j i) as [Hlt|[->|Hgt]].
    + exfalso. exact (Hno j [] d0 Hlt Hj eq_refl).
    + rewrite Hi in Hj. congruence.
    + pose proof (ssorted_nth _ _ Hss i j _ _ Hgt Hi Hj) as Hlt. unfold key_lt in Hlt. cbn in Hlt.
      rewrite skey_ltb_nil_r in Hlt. discriminate.
  - right. split; [exact Hr|]. split; [|eauto].
    intros He. rewrite He in Hn.
    assert (Hp : (Z.to_nat p < i)%nat) by lia.
    pose proof (ssorted_nth _ _ Hss _ _ _ _ Hp Hn Hi) as Hlt. unfold key_lt in Hlt. cbn in Hlt.
    rewrite skey_ltb_irrefl in Hlt. discriminate.
Qed.

(* KeyError: exactly when some key's parent path is neither () nor a key *)
Lemma wp_ok l : forall refs idx,
  (forall l1 k d l2, l = l1 ++ (k, d) :: l2 -> refs_get (removelast k) refs <> None \/ In (removelast k) (keys l1)) ->
  exists out, with_parents l refs idx = Ok out.
Proof.
  induction l as [|[k0 d0] r IH]; intros refs idx Hc; cbn [with_parents]; [eauto|].
  destruct (refs_get (removelast k0) refs) as [p0|] eqn:E0.
  - destruct (IH (refs_set k0 idx refs) (idx + 1)%Z) as (rest & Hrest).
    + intros l1 k d l2 ->. rewrite refs_get_set.
      destruct (skey_eqb_spec (removelast k) k0) as [He|Hne]; [left; discriminate|].
      destruct (Hc ((k0, d0) :: l1) k d l2 eq_refl) as [Hg|Hin]; [left; exact Hg|].
      cbn in Hin. destruct Hin as [Hin|Hin]; [congruence | right; exact Hin].
    + rewrite Hrest. cbn [bind]. eauto.
  - exfalso. destruct (Hc [] k0 d0 r eq_refl) as [Hg|[]]. congruence.
Qed.

Definition prefix_closed (ks : list skey) : Prop :=
  forall k, In k ks -> removelast k = [] \/ In (removelast k) ks.

Theorem T3_prefix_closed_no_keyerror m :
  NoDup (map fst m) -> prefix_closed (map fst m) ->
  exists out, with_parents (sort_items m) [([], (-1)%Z)] 0%Z = Ok out.
Proof.
  intros Hnd Hc. apply wp_ok. intros l1 k d l2 Hl.
  pose proof (sort_items_ssorted m Hnd) as Hss. rewrite Hl in Hss.
  assert (Hk : In k (map fst m)).
  { eapply Permutation_in; [apply Permutation_map, sort_items_perm|]. rewrite Hl, map_app. apply in_or_app. right. left. reflexivity. }
  destruct (Hc k Hk) as [He|Hin]; [left; rewrite He; cbn; discriminate|].
  destruct (list_eq_dec string_dec (removelast k) []) as [He|Hne]; [left; rewrite He; cbn; discriminate|].
  right.
  assert (Hin' : In (removelast k) (keys (sort_items m))).
  { eapply Permutation_in; [apply Permutation_map, Permutation_sym, sort_items_perm | exact Hin]. }
  rewrite Hl, map_app in Hin'. apply in_app_or in Hin'. destruct Hin' as [Hin'|Hin']; [exact Hin'|]. exfalso.
  assert (Hkne : k <> []) by (intros ->; apply Hne; reflexivity).
  pose proof (skey_ltb_removelast k Hkne) as Hlt.
  cbn in Hin'. destruct Hin' as [He|Hin'].
  - rewrite <- He in Hlt at 1. rewrite skey_ltb_irrefl in Hlt. discriminate.
  - apply ssorted_app_r in Hss. inversion Hss as [|? ? _ Hall]; subst.
    apply in_map_iff in Hin'. destruct Hin' as ([k2 d2] & Hk2 & Hin2). cbn in Hk2. subst k2.
    rewrite Forall_forall in Hall. specialize (Hall _ Hin2). unfold key_lt in Hall. cbn in Hall.
    apply skey_ltb_asym in Hall. congruence.
Qed.

Theorem T3_ok_prefix_closed m out :
  with_parents (sort_items m) [([], (-1)%Z)] 0%Z = Ok out -> prefix_closed (map fst m).
Proof.
  intros H k Hk.
  assert (Hin' : In k (keys (sort_items m))).
  { eapply Permutation_in; [apply Permutation_map, Permutation_sym, sort_items_perm | exact Hk]. }
  apply in_map_iff in Hin'. destruct Hin' as ([k0 d0] & Hk0 & Hin'). cbn in Hk0. subst k0.
  apply In_nth_error in Hin'. destruct Hin' as (i & Hi).
  destruct (proj2 (T3_parents _ _ H) i k d0 Hi) as (p & d' & _ & _ & _ & Hcase).
  destruct Hcase as [(_ & He & _)|(_ & d2 & Hn)]; [left; exact He|]. right.
  apply nth_error_In in Hn.
  eapply Permutation_in; [apply Permutation_map, sort_items_perm|].
  change (removelast k) with (fst (removelast k, d2)). apply in_map. exact Hn.
Qed.

Theorem T3_keyerror_iff m :
  NoDup (map fst m) ->
  (with_parents (sort_items m) [([], (-1)%Z)] 0%Z = Err KeyError <->
   exists k, In k (map fst m) /\ removelast k <> [] /\ ~ In (removelast k) (map fst m)).
Proof.
  intros Hnd. split.
  - intros He.
    destruct (Forall_Exists_dec (fun k => removelast k = [] \/ In (removelast k) (map fst m))) with (l := map fst m) as [Hall|Hex].
    + intros k. destruct (list_eq_dec string_dec (removelast k) []) as [H1|H1]; [left; left; exact H1|].
      destruct (in_dec (list_eq_dec string_dec) (removelast k) (map fst m)) as [H2|H2]; [left; right; exact H2|].
      right. intros [H|H]; contradiction.
    + rewrite Forall_forall in Hall. destruct (T3_prefix_closed_no_keyerror m Hnd Hall) as (out & Ho). congruence.
    + apply Exists_exists in Hex. destruct Hex as (k & Hk & Hn). exists k. split; [exact Hk|]. split; intros H; apply Hn; auto.
  - intros (k & Hk & Hne & Hni).
    destruct (with_parents (sort_items m) [([], (-1)%Z)] 0%Z) as [out|e] eqn:E.
    + exfalso. destruct (T3_ok_prefix_closed _ _ E k Hk); contradiction.
    + f_equal. eapply wp_only_keyerror; exact E.
Qed.

(* ---------- (T4) the flat and the nested form contain the same nodes ---------- *)
(* reading the dictionaries produced by [pdict_val]: first entry with a given string key *)
Fixpoint vlookup (k : string) (kvs : list (pyval * pyval)) : option pyval :=
  match kvs with
  | [] => None
  | (VStr k', v) :: r => if String.eqb k k' then Some v else vlookup k r
  | _ :: r => vlookup k r
  end.
Definition is_key (k : string) (v : pyval) : bool := match v with VStr k' => String.eqb k k' | _ => false end.

(* all "path_str" values of a node value and of its "children", at any depth *)
Fixpoint pv_paths (v : pyval) : list pyval :=
  match v with
  | VDict kvs =>
      (match vlookup "path_str" kvs with Some p => [p] | None => [] end) ++
      (fix go (kvs : list (pyval * pyval)) : list pyval :=
         match kvs with
         | [] => []
         | (k, c) :: r =>
             if is_key "children" k then
               match c with
               | VList cs => (fix gol (cs : list pyval) : list pyval :=
                                match cs with [] => [] | x :: cs' => pv_paths x ++ gol cs' end) cs
               | _ => []
               end
             else go r
         end) kvs
  | _ => []
  end.

Lemma pv_paths_dict kvs :
  pv_paths (VDict kvs) =
  (match vlookup "path_str" kvs with Some p => [p] | None => [] end) ++
  (match vlookup "children" kvs with Some (VList cs) => flat_map pv_paths cs | _ => [] end).
Proof.
  cbn [pv_paths]. f_equal.
  induction kvs as [|[k c] r IH]; [reflexivity|].
  cbn [vlookup]. destruct k; cbn [is_key]; try exact IH.
  destruct (String.eqb "children" s); [|exact IH].
  destruct c; try reflexivity.
Qed.

Definition pd_paths (d : pdict) : list pyval :=
  (match dget "path_str" d with Some p => [p] | None => [] end) ++ flat_map pv_paths (children_of d).

Lemma dget_insert_field k x l :
  dget k (insert_field x l) = if String.eqb k (fst x) then Some (snd x) else dget k l.
Proof.
  destruct x as [kx vx]. cbn [fst snd]. induction l as [|[ky vy] r IH]; cbn [insert_field dget fst]; [reflexivity|].
  destruct (String.compare kx ky) eqn:E; cbn [dget]; try reflexivity.
  rewrite IH. destruct (String.eqb_spec k ky) as [->|]; [|reflexivity].
  destruct (String.eqb_spec ky kx) as [->|]; [|reflexivity].
  rewrite str_compare_refl in E. discriminate.
Qed.
Lemma dget_sorted k d : dget k (fold_right insert_field [] d) = dget k d.
Proof.
  induction d as [|[k' v] r IH]; [reflexivity|]. cbn [fold_right]. rewrite dget_insert_field, IH. reflexivity.
Qed.
Lemma vlookup_map k l : vlookup k (map (fun kv : string * pyval => (VStr (fst kv), snd kv)) l) = dget k l.
Proof. induction l as [|[k' v] r IH]; [reflexivity|]. cbn. rewrite IH. reflexivity. Qed.

Lemma pv_paths_pdict_val d : pv_paths (pdict_val d) = pd_paths d.
Proof.
  unfold pdict_val. rewrite pv_paths_dict. rewrite !vlookup_map, !dget_sorted. unfold pd_paths, children_of.
  f_equal. destruct (dget "children" d) as [[]|]; reflexivity.
Qed.

(* one step of the nesting loop *)
Definition nest_step (i : nat) (l : list pdict) : list pdict :=
  match nth_error l i with
  | Some d =>
      match dget "parent" d with
      | Some (VInt p) =>
          if (p <? 0)%Z then l
          else
            let pi := Z.to_nat p in
            match nth_error l pi with
            | Some pd => remove_nth (set_nth_d l pi (dset "children" (VList (children_of pd ++ [pdict_val d])) pd)) i
            | None => l
            end
      | _ => l
      end
  | None => l
  end.
Lemma nest_from_unfold i l :
  nest_from i l = match i with O => nest_step i l | S j => nest_from j (nest_step i l) end.
Proof. destruct i; reflexivity. Qed.

Lemma nth_set_nth_d l i d j :
  nth_error (set_nth_d l i d) j = if Nat.eqb j i then (match nth_error l i with Some _ => Some d | None => None end) else nth_error l j.
Proof.
  revert i j. induction l as [|x r IH]; intros [|i] [|j]; cbn; try reflexivity.
  - destruct (Nat.eqb j i); [destruct i|]; reflexivity.
  - apply IH.
Qed.
Lemma nth_remove_nth_lt l i j : (j < i)%nat -> nth_error (remove_nth l i) j = nth_error l j.
Proof.
  revert i j. induction l as [|x r IH]; intros [|i] [|j] H; cbn; try reflexivity; try lia.
  apply IH. lia.
Qed.
Lemma perm_remove_nth {B} (g : pdict -> list B) l i d :
  nth_error l i = Some d -> Permutation (flat_map g l) (g d ++ flat_map g (remove_nth l i)).
Proof.
  revert i. induction l as [|x r IH]; intros [|i] H; cbn in *; try discriminate.
  - injection H as ->. reflexivity.
  - rewrite (IH i H). rewrite !app_assoc. apply Permutation_app_tail, Permutation_app_comm.
Qed.
Lemma perm_set_nth_d {B} (g : pdict -> list B) l i d d' extra :
  nth_error l i = Some d -> Permutation (g d') (extra ++ g d) ->
  Permutation (flat_map g (set_nth_d l i d')) (extra ++ flat_map g l).
Proof.
  revert i. induction l as [|x r IH]; intros [|i] H Hp; cbn in *; try discriminate.
  - injection H as ->. rewrite Hp. rewrite app_assoc. reflexivity.
  - rewrite (IH i H Hp). rewrite !app_assoc. apply Permutation_app_tail, Permutation_app_comm.
Qed.

Lemma pd_paths_add_child pd v :
  pd_paths (dset "children" (VList (children_of pd ++ [v])) pd) = pd_paths pd ++ pv_paths v.
Proof.
  unfold pd_paths. rewrite dget_dset_other by discriminate.
  unfold children_of at 1. rewrite dget_dset_same. rewrite flat_map_app. cbn [flat_map].
  rewrite app_nil_r, app_assoc. reflexivity.
Qed.

(* every item still to be processed refers to a parent strictly before it *)
Definition parents_before (i : nat) (l : list pdict) : Prop :=
  forall j d p, (j <= i)%nat -> nth_error l j = Some d -> dget "parent" d = Some (VInt p) -> (p < Z.of_nat j)%Z.

Lemma nest_step_perm i l : parents_before i l -> Permutation (flat_map pd_paths (nest_step i l)) (flat_map pd_paths l).
Proof.
  intros Hpb. unfold nest_step.
  destruct (nth_error l i) as [d|] eqn:Ei; [|reflexivity].
  destruct (dget "parent" d) as [[]|] eqn:Ep; try reflexivity.
  destruct (z <? 0)%Z eqn:Ez; [reflexivity|]. cbv zeta.
  destruct (nth_error l (Z.to_nat z)) as [pd|] eqn:Epd; [|reflexivity].
  pose proof (Hpb i d z (le_n _) Ei Ep) as Hlt. apply Z.ltb_ge in Ez.
  assert (Hne : Z.to_nat z <> i) by lia.
  set (pd' := dset "children" (VList (children_of pd ++ [pdict_val d])) pd).
  assert (H1 : Permutation (flat_map pd_paths (set_nth_d l (Z.to_nat z) pd')) (pd_paths d ++ flat_map pd_paths l)).
  { apply perm_set_nth_d with (d := pd); [exact Epd|]. unfold pd'. rewrite pd_paths_add_child, pv_paths_pdict_val.
    apply Permutation_app_comm. }
  assert (H2 : nth_error (set_nth_d l (Z.to_nat z) pd') i = Some d).
  { rewrite nth_set_nth_d. destruct (Nat.eqb_spec i (Z.to_nat z)); [congruence | exact Ei]. }
  pose proof (perm_remove_nth pd_paths _ _ _ H2) as H3.
  eapply Permutation_app_inv_l. rewrite <- H3. exact H1.
Qed.

Lemma nest_step_before i l j : (j < i)%nat -> parents_before i l -> parents_before j (nest_step i l).
Proof.
  intros Hji Hpb. unfold nest_step.
  assert (Hw : parents_before j l) by (intros j' d p Hj'; apply Hpb; lia).
  destruct (nth_error l i) as [d|] eqn:Ei; [|exact Hw].
  destruct (dget "parent" d) as [[]|] eqn:Ep; try exact Hw.
  destruct (z <? 0)%Z eqn:Ez; [exact Hw|]. cbv zeta.
  destruct (nth_error l (Z.to_nat z)) as [pd|] eqn:Epd; [|exact Hw].
  intros j' d' p Hj' Hn Hp. rewrite nth_remove_nth_lt in Hn by lia. rewrite nth_set_nth_d in Hn.
  destruct (Nat.eqb_spec j' (Z.to_nat z)) as [->|Hne].
  - rewrite Epd in Hn. injection Hn as <-. rewrite dget_dset_other in Hp by discriminate.
    apply (Hpb (Z.to_nat z) pd p); [lia | exact Epd | exact Hp].
  - apply (Hpb j' d' p); [lia | exact Hn | exact Hp].
Qed.

Lemma nest_from_perm i : forall l, parents_before i l -> Permutation (flat_map pd_paths (nest_from i l)) (flat_map pd_paths l).
Proof.
  induction i as [|i IH]; intros l Hpb; rewrite nest_from_unfold.
  - apply nest_step_perm, Hpb.
  - rewrite IH; [apply nest_step_perm, Hpb | apply nest_step_before; [lia | exact Hpb]].
Qed.

(* the flat items have no children, and refer to earlier parents *)
Lemma Wstep_not_children ps k : ~ Wstep ps k "children".
Proof.
  intros [[_ [H|[H|H]]]|[[_ [H|H]]|H]]; discriminate.
Qed.
Lemma steps_no_children from_str rs m k : steps from_str [] rs = Ok m -> fld k "children" m = None.
Proof.
  intros H. apply steps_wr in H. rewrite (wr_fld _ _ _ k "children" H); [reflexivity|].
  intros (rf & _ & _ & Hx). revert Hx. apply Wstep_not_children.
Qed.

Lemma flat_items_shape rs l :
  flat_tree [] [] rs = Ok l ->
  parents_before (List.length l - 1) l
  /\ forall d, In d l -> exists p, dget "path_str" d = Some p /\ pd_paths d = [p].
Proof.
  intros Hf. apply flat_tree_whole in Hf. destruct Hf as (m & Hs & Hw).
  assert (Hndm : NoDup (keys m)) by (eapply steps_nodup; [exact Hs | constructor]).
  destruct (T3_parents_sorted m l Hndm Hw) as [Hlen Hall].
  pose proof (wp_shape _ _ _ _ Hw) as Hsh.
  assert (Hlen2 : List.length (sort_items m) = List.length l) by (clear -Hsh; induction Hsh; cbn; auto).
  split.
  - intros j d p _ Hj Hp.
    destruct (nth_error (sort_items m) j) as [[k d0]|] eqn:Ej.
    + destruct (Hall j k d0 Ej) as (p' & d' & H1 & H2 & _ & Hcase). rewrite Hj in H1. injection H1 as <-.
      rewrite Hp in H2. injection H2 as <-. destruct Hcase as [(-> & _)|(Hr & _)]; lia.
    + apply nth_error_None in Ej. assert (Hx : nth_error l j <> None) by congruence. apply nth_error_Some in Hx. lia.
  - intros d Hin. apply In_nth_error in Hin. destruct Hin as (j & Hj).
    destruct (nth_error (sort_items m) j) as [[k d0]|] eqn:Ej.
    + destruct (wp_spec _ _ _ _ Hw j k d0 Ej) as (p & Hp & _). rewrite Hj in Hp. injection Hp as ->.
      exists (VTuple (map VStr k)). split; [apply flat_of_path_str|].
      unfold pd_paths, children_of. rewrite flat_of_path_str. rewrite flat_of_other by discriminate.
      assert (Hd0 : iget k m = Some d0).
      { apply in_iget_nodup; auto. eapply Permutation_in; [apply sort_items_perm | eapply nth_error_In; exact Ej]. }
      pose proof (steps_no_children [] rs m k Hs) as Hc. unfold fld, iget0 in Hc. rewrite Hd0 in Hc. rewrite Hc. reflexivity.
    + apply nth_error_None in Ej. assert (Hx : nth_error l j <> None) by congruence. apply nth_error_Some in Hx. lia.
Qed.

Theorem T4_flat_nested_same_nodes rs l nl :
  flat_tree [] [] rs = Ok l -> nested_tree [] [] rs = Ok nl ->
  exists paths,
    Forall2 (fun d p => dget "path_str" d = Some p) l paths
    /\ Permutation (flat_map pd_paths nl) paths.
Proof.
  intros Hf Hn. destruct (flat_items_shape rs l Hf) as [Hpb Hno].
  unfold nested_tree in Hn. rewrite Hf in Hn. cbn [bind] in Hn.
  assert (Hperm : Permutation (flat_map pd_paths nl) (flat_map pd_paths l)).
  { destruct l as [|d0 r]; [injection Hn as <-; reflexivity|]. injection Hn as <-. apply nest_from_perm, Hpb. }
  clear Hn Hpb Hf.
  assert (Hex : exists paths, Forall2 (fun d p => dget "path_str" d = Some p) l paths /\ flat_map pd_paths l = paths).
  { clear -Hno. induction l as [|d r IH]; [exists []; split; constructor|].
    specialize (IH (fun d0 Hd0 => Hno d0 (or_intror Hd0))). destruct IH as (ps & H1 & H2).
    destruct (Hno d (or_introl eq_refl)) as (p & Hp & Hpd).
    exists (p :: ps). split; [constructor; auto|]. cbn [flat_map]. rewrite Hpd, H2. reflexivity. }
  destruct Hex as (paths & H1 & H2). exists paths. split; [exact H1|]. rewrite <- H2. exact Hperm.
Qed.

(* the same statement on the values returned by to_tree(nested=True) and to_tree(nested=False) *)
Definition all_paths (v : pyval) : list pyval := match v with VList vs => flat_map pv_paths vs | _ => [] end.
Theorem T4_run_tree_same_nodes rs vf vn :
  run_tree [] [] false rs = Ok vf -> run_tree [] [] true rs = Ok vn ->
  Permutation (all_paths vn) (all_paths vf).
Proof.
  unfold run_tree. destruct (flat_tree [] [] rs) as [l|e] eqn:Ef; cbn [bind]; [|discriminate]. intros [= <-].
  destruct (nested_tree [] [] rs) as [nl|e] eqn:En; cbn [bind]; [|discriminate]. intros [= <-].
  destruct (flat_items_shape rs l Ef) as [Hpb _].
  unfold nested_tree in En. rewrite Ef in En. cbn [bind] in En.
  assert (Hperm : Permutation (flat_map pd_paths nl) (flat_map pd_paths l)).
  { destruct l as [|d0 r]; [injection En as <-; reflexivity|]. injection En as <-. apply nest_from_perm, Hpb. }
  cbn [all_paths].
  assert (Hm : forall l0, flat_map pv_paths (map pdict_val l0) = flat_map pd_paths l0).
  { induction l0 as [|x r IH]; [reflexivity|]. cbn [flat_map map]. rewrite pv_paths_pdict_val, IH. reflexivity. }
  rewrite !Hm. exact Hperm.
Qed.

(* ---------- (T6) a sub-tree root gives the sub-tree ---------- *)
(* the rule seen from the sub-tree root: the first n parts of its path removed *)
Definition strip (n : nat) (rf : rfacts) : rfacts :=
  {| rf_path_str := skipn n (rf_path_str rf);
     rf_path_simple := skipn n (rf_path_simple rf);
     rf_cond := rf_cond rf;
     rf_doc := rf_doc rf;
     rf_keys := rf_keys rf;
     rf_key_type := rf_key_type rf;
     rf_type := rf_type rf;
     rf_imp := rf_imp rf;
     rf_last_list := rf_last_list rf;
     rf_last_map := rf_last_map rf |}.

Lemma p3_parent_removelast from_str rf : p3_parent from_str rf = removelast (eff_ps from_str rf).
Proof.
  unfold p3_parent, eff_ps. destruct (rf_path_str rf) as [|x [|y r]]; cbn [List.length Nat.eqb]; try reflexivity.
  destruct (n_from from_str) as [|[|n]]; reflexivity.
Qed.

Lemma step_strip from_str m rf :
  pref from_str rf = true -> step from_str m rf = step [] m (strip (n_from from_str) rf).
Proof.
  intros Hp. rewrite !step_phases. rewrite Hp. rewrite pref_nil. cbn [negb].
  change (phase1 [] (strip (n_from from_str) rf) m) with (phase1 from_str rf m).
  change (eff_ps [] (strip (n_from from_str) rf)) with (eff_ps from_str rf).
  change (eff_simple [] (strip (n_from from_str) rf)) with (eff_simple from_str rf).
  change (rf_keys (strip (n_from from_str) rf)) with (rf_keys rf).
  destruct (add_keys (eff_ps from_str rf) (eff_simple from_str rf) (rf_keys rf) (phase1 from_str rf m)) as [m2|e]; [|reflexivity].
  cbn [bind]. f_equal. unfold phase3. cbv zeta. rewrite !p3_parent_removelast. reflexivity.
Qed.

Lemma steps_strip from_str rs : forall m,
  steps from_str m rs = steps [] m (map (strip (n_from from_str)) (filter (pref from_str) rs)).
Proof.
  induction rs as [|rf r IH]; intros m; [reflexivity|]. cbn [steps filter].
  destruct (pref from_str rf) eqn:Ep.
  - cbn [map steps]. rewrite (step_strip _ _ _ Ep).
    destruct (step [] m (strip (n_from from_str) rf)) as [m1|e]; [|reflexivity]. cbn [bind]. apply IH.
  - rewrite step_phases, Ep. cbn [negb bind]. apply IH.
Qed.

(* to_tree(from_path = p) is to_tree() of the rules below p with the prefix p removed from their paths, followed by
   re-adding the last component of p to every node *)
Theorem T6_subtree from_str from_simple rs :
  flat_tree from_str from_simple rs =
  let* l := flat_tree [] [] (map (strip (n_from from_str)) (filter (pref from_str) rs)) in
  mapM (readd from_str from_simple) l.
Proof.
  unfold flat_tree. rewrite steps_strip.
  destruct (steps [] [] (map (strip (n_from from_str)) (filter (pref from_str) rs))) as [m|e]; [|reflexivity].
  cbn [bind]. destruct (with_parents (sort_items m) [([], (-1)%Z)] 0%Z) as [l|e]; [|reflexivity].
  cbn [bind]. rewrite (mapM_id (readd [] [])) by reflexivity. reflexivity.
Qed.

Lemma mapM_Forall2 {A B} (f : A -> res B) l out : mapM f l = Ok out -> Forall2 (fun a b => f a = Ok b) l out.
Proof.
  revert out. induction l as [|x r IH]; intros out; cbn [mapM].
  - intros [= <-]. constructor.
  - destruct (f x) as [y|e] eqn:E; [|discriminate]. cbn [bind].
    destruct (mapM f r) as [ys|e]; [|discriminate]. cbn [bind]. intros [= <-]. constructor; auto.
Qed.
Lemma Forall2_nth {A B} (R : A -> B -> Prop) l1 l2 : Forall2 R l1 l2 ->
  (forall i a, nth_error l1 i = Some a -> exists b, nth_error l2 i = Some b /\ R a b)
  /\ (forall i b, nth_error l2 i = Some b -> exists a, nth_error l1 i = Some a /\ R a b).
Proof.
  induction 1 as [|x y l1 l2 Hxy _ [IH1 IH2]]; split; intros [|i] z Hz; cbn in *; try discriminate.
  - injection Hz as <-. eauto.
  - apply IH1, Hz.
  - injection Hz as <-. eauto.
  - apply IH2, Hz.
Qed.

(* the path_str of a rule's node in the sub-tree *)
Definition sub_path (from_str : skey) (from_simple : list pyval) (rf : rfacts) : skey :=
  match from_simple with
  | [] => eff_ps from_str rf
  | _ => last from_str "" :: eff_ps from_str rf
  end.

Lemma readd_fields from_str from_simple d d' :
  readd from_str from_simple d = Ok d' ->
  (forall f, f <> "path" -> f <> "path_str" -> dget f d' = dget f d)
  /\ (forall k, dget "path_str" d = Some (VTuple (map VStr k)) ->
        dget "path_str" d' = Some (VTuple (map VStr (match from_simple with [] => k | _ => last from_str "" :: k end))))
  /\ (forall k', dget "path_str" d' = Some (VTuple (map VStr (match from_simple with [] => k' | _ => last from_str "" :: k' end))) ->
        forall k, dget "path_str" d = Some (VTuple (map VStr k)) -> k = k').
Proof.
  unfold readd. destruct from_simple as [|s0 sr].
  - intros [= <-]. split; [auto|]. split; [auto|]. intros k' H1 k H2. rewrite H1 in H2. injection H2 as H2.
    symmetry. apply map_VStr_inj. exact H2.
  - destruct (dget "path" d) as [[]|]; try discriminate.
    destruct (dget "path_str" d) as [[]|] eqn:Eps; try discriminate. intros [= <-].
    split; [|split].
    + intros f H1 H2. rewrite !dget_dset_other; auto.
    + intros k [= Hk]. rewrite dget_dset_same. subst. reflexivity.
    + intros k' H1 k H2. rewrite dget_dset_same in H1. injection H2 as H2. cbn [map] in H1. injection H1 as H1.
      apply map_VStr_inj. congruence.
Qed.

Theorem T2_each_rule_once_subtree from_str from_simple rs l :
  NoDup (map (eff_ps from_str) (filter (pref from_str) rs)) ->
  flat_tree from_str from_simple rs = Ok l ->
  forall rf, In rf rs -> pref from_str rf = true ->
  exists i d,
    nth_error l i = Some d
    /\ dget "path_str" d = Some (VTuple (map VStr (sub_path from_str from_simple rf)))
    /\ dget "condition" d = Some (rf_cond rf)
    /\ dget "doc" d = Some (rf_doc rf)
    /\ forall j d', nth_error l j = Some d' ->
         dget "path_str" d' = Some (VTuple (map VStr (sub_path from_str from_simple rf))) -> j = i.
Proof.
  intros Hnd Hf rf Hin Hp. rewrite T6_subtree in Hf.
  set (rs' := map (strip (n_from from_str)) (filter (pref from_str) rs)) in *.
  destruct (flat_tree [] [] rs') as [l0|e] eqn:E0; [|discriminate]. cbn [bind] in Hf.
  assert (Hnd' : NoDup (map rf_path_str rs')).
  { unfold rs'. rewrite map_map. exact Hnd. }
  assert (Hin' : In (strip (n_from from_str) rf) rs').
  { unfold rs'. apply in_map. apply filter_In. auto. }
  destruct (T2_each_rule_once rs' l0 Hnd' E0 _ Hin') as (i & d0 & Hi & Hps & Hc & Hd & Huniq).
  cbn [strip rf_path_str rf_cond rf_doc] in Hps, Hc, Hd, Huniq. fold (eff_ps from_str rf) in Hps, Huniq.
  apply mapM_Forall2 in Hf. destruct (Forall2_nth _ _ _ Hf) as [Hfw Hbw].
  destruct (Hfw i d0 Hi) as (d & Hid & Hrd).
  destruct (readd_fields _ _ _ _ Hrd) as (Hoth & Hpath & _).
  exists i, d. split; [exact Hid|]. split; [apply Hpath, Hps|].
  split; [rewrite Hoth by discriminate; exact Hc|]. split; [rewrite Hoth by discriminate; exact Hd|].
  intros j d' Hj Hpj. destruct (Hbw j d' Hj) as (d0' & Hj0 & Hrd').
  destruct (readd_fields _ _ _ _ Hrd') as (_ & _ & Hinv).
  (* the flat item d0' has a path_str of the form map VStr k *)
  apply flat_tree_whole in E0. destruct E0 as (m & _ & Hw).
  pose proof (wp_shape _ _ _ _ Hw) as Hsh. destruct (Forall2_nth _ _ _ Hsh) as [_ Hsb].
  destruct (Hsb j d0' Hj0) as ([k dk] & _ & (p & ->)). cbn [fst snd] in *.
  pose proof (Hinv (eff_ps from_str rf) Hpj k (flat_of_path_str _ _ _)) as ->.
  apply (Huniq j _ Hj0). apply flat_of_path_str.
Qed.

(* a concrete schema: a root mapping with required / allowed keys, a child with a type, a grandchild under a list part *)
Definition ex_root : rfacts :=
  {| rf_path_str := []; rf_path_simple := [];
     rf_cond := VObj 1; rf_doc := VStr "the root";
     rf_keys := [(VStr "a", Some "a", true); (VStr "b", Some "b", false); (VStr "a", Some "a", false)];
     rf_key_type := None; rf_type := Some (VList [VObj 10], VStr "dict");
     rf_imp := None; rf_last_list := false; rf_last_map := false |}.
Definition ex_child : rfacts :=
  {| rf_path_str := ["a"]; rf_path_simple := [VStr "a"];
     rf_cond := VObj 2; rf_doc := VStr "the child a";
     rf_keys := [];
     rf_key_type := None; rf_type := Some (VList [VObj 11], VStr "list");
     rf_imp := Some (Some "dict"); rf_last_list := false; rf_last_map := false |}.
Definition ex_grandchild : rfacts :=
  {| rf_path_str := ["a"; "[]"]; rf_path_simple := [VStr "a"; VObj 99];
     rf_cond := VObj 3; rf_doc := VStr "every element of a";
     rf_keys := [];
     rf_key_type := None; rf_type := Some (VList [VObj 12], VStr "int");
     rf_imp := Some (Some "list"); rf_last_list := true; rf_last_map := false |}.
Definition ex_rules : list rfacts := [ex_root; ex_child; ex_grandchild].

Example ex_T5_required :
  exists m, steps [] [] ex_rules = Ok m
    /\ dget "required" (iget0 ([] ++ ["a"]) m) = Some (VBool true)
    /\ dget "required" (iget0 ([] ++ ["b"]) m) = Some (VBool false)
    /\ dget "required" (iget0 (["a"] ++ ["[]"]) m) = None.
Proof.
  eexists. split; [vm_compute; reflexivity|]. split; [vm_compute; reflexivity|]. split; vm_compute; reflexivity.
Qed.
(* the key "a" is named by required_keys and then by allowed_keys: the flag stays True *)
Example ex_T5_names : names [] ex_rules ["a"] true /\ names [] ex_rules ["a"] false /\ names [] ex_rules ["b"] false.
Proof.
  split; [|split].
  - exists ex_root, (VStr "a"), "a". repeat split; try reflexivity; cbn; auto 6.
  - exists ex_root, (VStr "a"), "a". repeat split; try reflexivity; cbn; auto 6.
  - exists ex_root, (VStr "b"), "b". repeat split; try reflexivity; cbn; auto 6.
Qed.

Example ex_T1_items :
  exists m, steps [] [] ex_rules = Ok m
    /\ map fst m = [[]; ["a"]; ["b"]; ["a"; "[]"]]
    /\ map fst (sort_items m) = [[]; ["a"]; ["a"; "[]"]; ["b"]].
Proof. eexists. split; [vm_compute; reflexivity|]. split; vm_compute; reflexivity. Qed.

Example ex_T2_hypotheses :
  NoDup (map rf_path_str ex_rules)
  /\ exists l, flat_tree [] [] ex_rules = Ok l
       /\ map (dget "path_str") l =
          [Some (VTuple []); Some (VTuple [VStr "a"]); Some (VTuple [VStr "a"; VStr "[]"]); Some (VTuple [VStr "b"])]
       /\ map (dget "condition") l = [Some (VObj 1); Some (VObj 2); Some (VObj 3); None].
Proof.
  split.
  - cbn. repeat constructor; cbn; intuition discriminate.
  - eexists. split; [vm_compute; reflexivity|]. split; vm_compute; reflexivity.
Qed.

(* the hypothesis of T2 is needed: a later rule with the same path overwrites condition and doc of the node *)
Definition ex_child_again : rfacts :=
  {| rf_path_str := ["a"]; rf_path_simple := [VStr "a"];
     rf_cond := VObj 7; rf_doc := VStr "a again";
     rf_keys := []; rf_key_type := None; rf_type := None;
     rf_imp := Some (Some "dict"); rf_last_list := false; rf_last_map := false |}.
Example T2_duplicate_path_counterexample :
  exists l, flat_tree [] [] [ex_child; ex_child_again] = Ok l
    /\ map (dget "condition") l = [None; Some (VObj 7)].
Proof. eexists. split; vm_compute; reflexivity. Qed.

Example ex_T3_parents :
  exists m l, steps [] [] ex_rules = Ok m
    /\ NoDup (map fst m) /\ prefix_closed (map fst m)
    /\ with_parents (sort_items m) [([], (-1)%Z)] 0%Z = Ok l
    /\ map (dget "parent") l = [Some (VInt (-1)); Some (VInt 0); Some (VInt 1); Some (VInt 0)].
Proof.
  eexists. eexists. split; [vm_compute; reflexivity|]. split; [|split; [|split]].
  - cbn. repeat constructor; cbn; intuition discriminate.
  - intros k Hk. cbn in Hk. destruct Hk as [<-|[<-|[<-|[<-|[]]]]]; cbn; auto.
  - vm_compute. reflexivity.
  - vm_compute. reflexivity.
Qed.

(* the key sets built by the steps are not always prefix-closed: a rule three levels deep creates its own entry and its
   parent's, but not its grandparent's, and sorted() then meets a key whose parent has no index: KeyError *)
Definition ex_deep : rfacts :=
  {| rf_path_str := ["a"; "b"; "c"]; rf_path_simple := [VStr "a"; VStr "b"; VStr "c"];
     rf_cond := VObj 4; rf_doc := VStr "deep";
     rf_keys := []; rf_key_type := None; rf_type := None;
     rf_imp := Some (Some "dict"); rf_last_list := false; rf_last_map := false |}.
Example T3_not_prefix_closed_counterexample :
  flat_tree [] [] [ex_deep] = Err KeyError
  /\ exists m, steps [] [] [ex_deep] = Ok m /\ map fst m = [["a"; "b"; "c"]; ["a"; "b"]].
Proof. split; [vm_compute; reflexivity|]. eexists. split; vm_compute; reflexivity. Qed.

Example ex_T4_same_nodes :
  exists vf vn, run_tree [] [] false ex_rules = Ok vf /\ run_tree [] [] true ex_rules = Ok vn
    /\ all_paths vf = [VTuple []; VTuple [VStr "a"]; VTuple [VStr "a"; VStr "[]"]; VTuple [VStr "b"]]
    /\ all_paths vn = [VTuple []; VTuple [VStr "b"]; VTuple [VStr "a"]; VTuple [VStr "a"; VStr "[]"]].
Proof.
  eexists. eexists. split; [vm_compute; reflexivity|]. split; [vm_compute; reflexivity|]. split; vm_compute; reflexivity.
Qed.

(* the sub-tree below "a" *)
Example ex_T6_subtree :
  NoDup (map (eff_ps ["a"]) (filter (pref ["a"]) ex_rules))
  /\ exists l, flat_tree ["a"] [VStr "a"] ex_rules = Ok l
      /\ map (dget "path_str") l = [Some (VTuple [VStr "a"]); Some (VTuple [VStr "a"; VStr "[]"])]
      /\ map (dget "parent") l = [Some (VInt (-1)); Some (VInt 0)]
      /\ map (dget "condition") l = [Some (VObj 2); Some (VObj 3)].
Proof.
  split.
  - cbn. repeat constructor; cbn; intuition discriminate.
  - eexists. split; [vm_compute; reflexivity|]. split; [vm_compute; reflexivity|]. split; vm_compute; reflexivity.
Qed.

(* a sub-tree root without a rule of its own exists only as an implicit parent entry, which has no "path": re-adding
   the last component of from_path then raises KeyError *)
Definition ex_ab : rfacts :=
  {| rf_path_str := ["a"; "b"]; rf_path_simple := [VStr "a"; VStr "b"];
     rf_cond := VObj 5; rf_doc := VStr "a.b";
     rf_keys := []; rf_key_type := None; rf_type := None;
     rf_imp := Some (Some "dict"); rf_last_list := false; rf_last_map := false |}.
Example T6_subtree_root_without_rule_counterexample :
  flat_tree ["a"] [VStr "a"] [ex_ab] = Err KeyError
  /\ exists l, flat_tree [] [] [strip 1 ex_ab] = Ok l /\ map (dget "path") l = [None; Some (VTuple [VStr "b"])].
Proof. split; [vm_compute; reflexivity|]. eexists. split; vm_compute; reflexivity. Qed.

(* ---------- totality of the steps ---------- *)
(* every key named by an always-applicable key condition is a valid path part (DataPath(key) does not raise) *)
Definition entry_ok (e : pyval * option string * bool) : bool := match e with (_, Some _, _) => true | (_, None, _) => false end.
Definition keys_ok (rs : list rfacts) : bool := forallb (fun rf => forallb entry_ok (rf_keys rf)) rs.
Example ex_keys_ok : keys_ok ex_rules = true.
Proof. vm_compute. reflexivity. Qed.

Lemma add_keys_total ps simple ks : forall m, forallb entry_ok ks = true -> exists m', add_keys ps simple ks m = Ok m'.
Proof.
  induction ks as [|[[key [s|]] b] r IH]; intros m H; cbn [add_keys]; [eauto | | discriminate].
  cbn in H. apply IH. exact H.
Qed.
Theorem steps_total from_str rs : forall m, keys_ok rs = true -> exists m', steps from_str m rs = Ok m'.
Proof.
  induction rs as [|rf r IH]; intros m H; cbn [steps]; [eauto|].
  cbn in H. apply andb_true_iff in H. destruct H as [H1 H2].
  rewrite step_phases. destruct (negb (pref from_str rf)); cbn [bind]; [apply IH, H2|].
  destruct (add_keys_total (eff_ps from_str rf) (eff_simple from_str rf) (rf_keys rf) (phase1 from_str rf m) H1) as (m2 & ->).
  cbn [bind]. apply IH, H2.
Qed.
(* with a prefix-closed key set the whole flat tree is defined *)
Theorem flat_tree_total rs m :
  steps [] [] rs = Ok m -> prefix_closed (map fst m) -> exists l, flat_tree [] [] rs = Ok l.
Proof.
  intros Hs Hc. assert (Hnd : NoDup (keys m)) by (eapply steps_nodup; [exact Hs | constructor]).
  destruct (T3_prefix_closed_no_keyerror m Hnd Hc) as (l & Hl). exists l. apply flat_tree_whole. eauto.
Qed.


(* ---------- the statements on the nodes returned by to_tree() ---------- *)
(* every flat node is an entry of the items, with its key as path_str and a parent reference *)
Lemma flat_tree_nodes rs l :
  flat_tree [] [] rs = Ok l ->
  exists m, steps [] [] rs = Ok m /\ NoDup (map fst m)
    /\ forall i d, nth_error l i = Some d ->
       exists k d0 p, nth_error (sort_items m) i = Some (k, d0) /\ iget k m = Some d0 /\ d = flat_of k p d0.
Proof.
  intros Hf. apply flat_tree_whole in Hf. destruct Hf as (m & Hs & Hw). exists m. split; [exact Hs|].
  assert (Hnd : NoDup (keys m)) by (eapply steps_nodup; [exact Hs | constructor]). split; [exact Hnd|].
  pose proof (wp_shape _ _ _ _ Hw) as Hsh. destruct (Forall2_nth _ _ _ Hsh) as [_ Hb].
  intros i0 d0 Hi. destruct (Hb i0 d0 Hi) as ([k dk] & Hk & (p & ->)). cbn [fst snd].
  exists k, dk, p. split; [exact Hk|]. split; [|reflexivity].
  apply in_iget_nodup; auto. eapply Permutation_in; [apply sort_items_perm | eapply nth_error_In; exact Hk].
Qed.

Theorem T3_flat_tree_parents rs l :
  flat_tree [] [] rs = Ok l ->
  forall i d, nth_error l i = Some d ->
  exists k p,
    dget "path_str" d = Some (VTuple (map VStr k))
    /\ dget "parent" d = Some (VInt p)
    /\ ((p = (-1)%Z /\ removelast k = [])
        \/ ((0 <= p < Z.of_nat i)%Z /\ removelast k <> k
            /\ exists dp, nth_error l (Z.to_nat p) = Some dp
                 /\ dget "path_str" dp = Some (VTuple (map VStr (removelast k))))).
Proof.
  intros Hf i0 d0 Hi. apply flat_tree_whole in Hf. destruct Hf as (m & Hs & Hw).
  assert (Hnd : NoDup (keys m)) by (eapply steps_nodup; [exact Hs | constructor]).
  destruct (T3_parents_sorted m l Hnd Hw) as [_ Hall].
  pose proof (wp_shape _ _ _ _ Hw) as Hsh. destruct (Forall2_nth _ _ _ Hsh) as [_ Hb].
  destruct (Hb i0 d0 Hi) as ([k dk] & Hk & _).
  destruct (Hall i0 k dk Hk) as (p & d' & H1 & H2 & H3 & Hcase). rewrite Hi in H1. injection H1 as <-.
  exists k, p. split; [exact H3|]. split; [exact H2|].
  destruct Hcase as [(-> & He & _)|(Hr & Hne & d2 & Hn)]; [left; auto|]. right. split; [exact Hr|]. split; [exact Hne|].
  destruct (Hall _ _ _ Hn) as (p2 & dp & Hdp & _ & Hps & _). exists dp. auto.
Qed.

Theorem T5_flat_tree_required rs l :
  flat_tree [] [] rs = Ok l ->
  forall d k s, In d l -> dget "path_str" d = Some (VTuple (map VStr (k ++ [s]))) ->
    (dget "required" d = Some (VBool true) <->
       exists rf key, In rf rs /\ rf_path_str rf = k /\ In (key, Some s, true) (rf_keys rf))
    /\ (dget "required" d = None <->
       forall rf key b, In rf rs -> rf_path_str rf = k -> ~ In (key, Some s, b) (rf_keys rf)).
Proof.
  intros Hf d0 k s Hin Hps. destruct (flat_tree_nodes rs l Hf) as (m & Hs & _ & Hn).
  apply In_nth_error in Hin. destruct Hin as (i0 & Hi).
  destruct (Hn i0 d0 Hi) as (k' & dk & p & _ & Hg & ->).
  rewrite flat_of_path_str in Hps. injection Hps as Hps. apply map_VStr_inj in Hps. subst k'.
  rewrite flat_of_other by discriminate.
  destruct (T5_required_whole rs m k s Hs) as (Ht & _ & Hno).
  unfold iget0 in Ht, Hno. rewrite Hg in Ht, Hno. split; assumption.
Qed.

(* ---------- (T4, continued) the edges of the nested form ---------- *)
Definition own_path (v : pyval) : option pyval := match v with VDict kvs => vlookup "path_str" kvs | _ => None end.

(* all (path_str of a node, path_str of one of its children) pairs, at any depth *)
Fixpoint pv_edges (v : pyval) : list (option pyval * option pyval) :=
  match v with
  | VDict kvs =>
      (fix go (kvs' : list (pyval * pyval)) : list (option pyval * option pyval) :=
         match kvs' with
         | [] => []
         | (k, c) :: r =>
             if is_key "children" k then
               match c with
               | VList cs => (fix gol (cs : list pyval) : list (option pyval * option pyval) :=
                                match cs with
                                | [] => []
                                | x :: cs' => ((vlookup "path_str" kvs, own_path x) :: pv_edges x) ++ gol cs'
                                end) cs
               | _ => []
               end
             else go r
         end) kvs
  | _ => []
  end.

Lemma pv_edges_dict kvs :
  pv_edges (VDict kvs) =
  match vlookup "children" kvs with
  | Some (VList cs) => flat_map (fun x => (vlookup "path_str" kvs, own_path x) :: pv_edges x) cs
  | _ => []
  end.
Proof.
  cbn [pv_edges]. generalize (vlookup "path_str" kvs). intros P.
  induction kvs as [|[k c] r IH]; [reflexivity|].
  cbn [vlookup]. destruct k; cbn [is_key]; try exact IH.
  destruct (String.eqb "children" s); [|exact IH].
  destruct c; reflexivity.
Qed.

Definition pd_edges (d : pdict) : list (option pyval * option pyval) :=
  flat_map (fun x => (dget "path_str" d, own_path x) :: pv_edges x) (children_of d).

Lemma own_path_pdict_val d : own_path (pdict_val d) = dget "path_str" d.
Proof. unfold pdict_val, own_path. rewrite vlookup_map, dget_sorted. reflexivity. Qed.
Lemma pv_edges_pdict_val d : pv_edges (pdict_val d) = pd_edges d.
Proof.
  unfold pdict_val. rewrite pv_edges_dict. rewrite !vlookup_map, !dget_sorted. unfold pd_edges, children_of.
  destruct (dget "children" d) as [[]|]; reflexivity.
Qed.
Lemma pd_edges_add_child pd v :
  pd_edges (dset "children" (VList (children_of pd ++ [v])) pd) =
  pd_edges pd ++ (dget "path_str" pd, own_path v) :: pv_edges v.
Proof.
  unfold pd_edges. rewrite dget_dset_other by discriminate.
  unfold children_of at 1. rewrite dget_dset_same. rewrite flat_map_app. cbn [flat_map].
  rewrite app_nil_r. reflexivity.
Qed.

(* an edge from a node to the node whose path is one component longer *)
Definition good_edge (e : option pyval * option pyval) : Prop :=
  exists k, snd e = Some (VTuple (map VStr k)) /\ fst e = Some (VTuple (map VStr (removelast k))) /\ removelast k <> k.
Definition neg_parent (d : pdict) : Prop := exists p, dget "parent" d = Some (VInt p) /\ (p < 0)%Z.

(* what T3 gives on the flat list *)
Definition good_flat (l0 : list pdict) : Prop :=
  forall i d, nth_error l0 i = Some d ->
  exists k p,
    dget "path_str" d = Some (VTuple (map VStr k))
    /\ dget "parent" d = Some (VInt p)
    /\ ((p = (-1)%Z /\ removelast k = [])
        \/ ((0 <= p < Z.of_nat i)%Z /\ removelast k <> k
            /\ exists dp, nth_error l0 (Z.to_nat p) = Some dp
                 /\ dget "path_str" dp = Some (VTuple (map VStr (removelast k))))).

Definition agree (l0 : list pdict) (i : nat) (l : list pdict) : Prop :=
  forall j d, (j <= i)%nat -> nth_error l j = Some d ->
  exists d0, nth_error l0 j = Some d0 /\ dget "path_str" d = dget "path_str" d0 /\ dget "parent" d = dget "parent" d0.
Definition roots_from (i : nat) (l : list pdict) : Prop :=
  forall j d, (i <= j)%nat -> nth_error l j = Some d -> neg_parent d.

Lemma agree_before l0 i l : good_flat l0 -> agree l0 i l -> parents_before i l.
Proof.
  intros Hg Ha j d p Hj Hn Hp. destruct (Ha j d Hj Hn) as (d0 & H0 & _ & Hpar).
  destruct (Hg j d0 H0) as (k & p' & _ & Hp' & Hcase). rewrite Hpar, Hp' in Hp. injection Hp as <-.
  destruct Hcase as [(-> & _)|(Hr & _)]; lia.
Qed.

Lemma nth_remove_nth_ge l i j : (i <= j)%nat -> nth_error (remove_nth l i) j = nth_error l (S j).
Proof.
  revert i j. induction l as [|x r IH]; intros i j H.
  - destruct i, j; reflexivity.
  - destruct i as [|i]; [reflexivity|]. destruct j as [|j]; [lia|]. cbn. apply IH. lia.
Qed.

Section NestInv.
  Variable l0 : list pdict.
  Context (Hg : good_flat l0).

  (* the case analysis of one step, shared by the three preservation lemmas *)
  Lemma nest_step_cases i l : agree l0 i l ->
    (nest_step i l = l /\ (forall d, nth_error l i = Some d -> neg_parent d))
    \/ (exists d pd k p,
          nth_error l i = Some d /\ (0 <= p < Z.of_nat i)%Z /\ nth_error l (Z.to_nat p) = Some pd
          /\ dget "path_str" d = Some (VTuple (map VStr k))
          /\ dget "path_str" pd = Some (VTuple (map VStr (removelast k))) /\ removelast k <> k
          /\ nest_step i l =
             remove_nth (set_nth_d l (Z.to_nat p) (dset "children" (VList (children_of pd ++ [pdict_val d])) pd)) i).
  Proof.
    intros Ha. unfold nest_step. destruct (nth_error l i) as [d|] eqn:Ei; [|left; split; [reflexivity | discriminate]].
    destruct (Ha i d (le_n _) Ei) as (d0 & H0 & Hps & Hpar).
    destruct (Hg i d0 H0) as (k & p & Hk & Hp & Hcase). rewrite <- Hpar in Hp. rewrite <- Hps in Hk. rewrite Hp.
    destruct Hcase as [(-> & _)|(Hr & Hne & dp & Hdp & Hdps)].
    - left. split; [reflexivity|]. intros d' [= <-]. exists (-1)%Z. split; [exact Hp | lia].
    - right. destruct (p <? 0)%Z eqn:Ez; [apply Z.ltb_lt in Ez; lia|]. cbv zeta.
      destruct (nth_error l (Z.to_nat p)) as [pd|] eqn:Epd.
      + destruct (Ha (Z.to_nat p) pd ltac:(lia) Epd) as (dp' & Hdp' & Hpps & _). rewrite Hdp in Hdp'. injection Hdp' as <-.
        exists d, pd, k, p. rewrite Hpps. auto 10.
      + exfalso. apply nth_error_None in Epd. assert (Hx : nth_error l i <> None) by congruence.
        apply nth_error_Some in Hx. lia.
  Qed.

  Lemma nest_step_agree i l j : (j < i)%nat -> agree l0 i l -> agree l0 j (nest_step i l).
  Proof.
    intros Hji Ha. assert (Hw : agree l0 j l) by (intros j' d Hj'; apply Ha; lia).
    destruct (nest_step_cases i l Ha) as [[-> _]|(d & pd & k & p & Ei & Hr & Epd & _ & _ & _ & ->)]; [exact Hw|].
    intros j' d' Hj' Hn. rewrite nth_remove_nth_lt in Hn by lia. rewrite nth_set_nth_d in Hn.
    destruct (Nat.eqb_spec j' (Z.to_nat p)) as [->|Hne].
    - rewrite Epd in Hn. injection Hn as <-. rewrite !dget_dset_other by discriminate. apply Ha; [lia | exact Epd].
    - apply Ha; [lia | exact Hn].
  Qed.

  Lemma nest_step_edges i l :
    agree l0 i l -> Forall good_edge (flat_map pd_edges l) -> Forall good_edge (flat_map pd_edges (nest_step i l)).
  Proof.
    intros Ha Hall.
    destruct (nest_step_cases i l Ha) as [[-> _]|(d & pd & k & p & Ei & Hr & Epd & Hk & Hpk & Hne & ->)]; [exact Hall|].
    set (pd' := dset "children" (VList (children_of pd ++ [pdict_val d])) pd).
    assert (H1 : Permutation (flat_map pd_edges (set_nth_d l (Z.to_nat p) pd'))
                   (((dget "path_str" pd, dget "path_str" d) :: pd_edges d) ++ flat_map pd_edges l)).
    { apply perm_set_nth_d with (d := pd); [exact Epd|]. unfold pd'.
      rewrite pd_edges_add_child, pv_edges_pdict_val, own_path_pdict_val. apply Permutation_app_comm. }
    assert (H2 : nth_error (set_nth_d l (Z.to_nat p) pd') i = Some d).
    { rewrite nth_set_nth_d. destruct (Nat.eqb_spec i (Z.to_nat p)); [lia | exact Ei]. }
    pose proof (perm_remove_nth pd_edges _ _ _ H2) as H3.
    rewrite Forall_forall in *. intros e He. 
    assert (He2 : In e (((dget "path_str" pd, dget "path_str" d) :: pd_edges d) ++ flat_map pd_edges l)).
    { eapply Permutation_in; [exact H1|]. eapply Permutation_in; [apply Permutation_sym, H3|]. apply in_or_app. right. exact He. }
    apply in_app_or in He2. destruct He2 as [[<-|He2]|He2].
    - exists k. cbn [fst snd]. auto.
    - apply Hall. eapply Permutation_in; [apply Permutation_sym, (perm_remove_nth pd_edges _ _ _ Ei)|].
      apply in_or_app. left. exact He2.
    - apply Hall, He2.
  Qed.

  Lemma nest_step_roots i l : agree l0 i l -> roots_from (S i) l -> roots_from i (nest_step i l).
  Proof.
    intros Ha Hr.
    destruct (nest_step_cases i l Ha) as [[-> Hi]|(d & pd & k & p & Ei & Hp & Epd & _ & _ & _ & ->)].
    - intros j d Hj Hn. destruct (Nat.eq_dec j i) as [->|Hne]; [apply Hi, Hn | apply (Hr j); [lia | exact Hn]].
    - intros j d' Hj Hn. rewrite nth_remove_nth_ge in Hn by lia. rewrite nth_set_nth_d in Hn.
      destruct (Nat.eqb_spec (S j) (Z.to_nat p)); [lia|]. apply (Hr (S j)); [lia | exact Hn].
  Qed.

  Lemma nest_from_inv i : forall l,
    agree l0 i l -> Forall good_edge (flat_map pd_edges l) -> roots_from (S i) l ->
    Forall good_edge (flat_map pd_edges (nest_from i l)) /\ roots_from 0 (nest_from i l).
  Proof.
    induction i as [|i IH]; intros l Ha He Hr; rewrite nest_from_unfold.
    - split; [apply nest_step_edges; assumption | apply nest_step_roots; assumption].
    - apply IH; [apply nest_step_agree; [lia | exact Ha] | apply nest_step_edges; assumption | apply nest_step_roots; assumption].
  Qed.
End NestInv.

Lemma flat_tree_no_children rs l : flat_tree [] [] rs = Ok l -> forall d, In d l -> dget "children" d = None.
Proof.
  intros Hf d0 Hin. destruct (flat_tree_nodes rs l Hf) as (m & Hs & _ & Hn).
  apply In_nth_error in Hin. destruct Hin as (i0 & Hi). destruct (Hn i0 d0 Hi) as (k & dk & p & _ & Hg & ->).
  rewrite flat_of_other by discriminate.
  pose proof (steps_no_children [] rs m k Hs) as Hc. unfold fld, iget0 in Hc. rewrite Hg in Hc. exact Hc.
Qed.

(* the nested form is the forest of the parent references: its top-level nodes are the nodes without parent, and every
   node's children have the node's path_str extended by one component *)
Theorem T4_nested_structure rs nl :
  nested_tree [] [] rs = Ok nl ->
  (forall d, In d nl -> exists p, dget "parent" d = Some (VInt p) /\ (p < 0)%Z)
  /\ (forall e, In e (flat_map pd_edges nl) ->
        exists k, snd e = Some (VTuple (map VStr k)) /\ fst e = Some (VTuple (map VStr (removelast k)))
                  /\ removelast k <> k).
Proof.
  unfold nested_tree. destruct (flat_tree [] [] rs) as [l|e] eqn:Ef; cbn [bind]; [|discriminate].
  assert (Hg : good_flat l) by (intros i0 d0 Hi; eapply T3_flat_tree_parents; eauto).
  assert (He : Forall good_edge (flat_map pd_edges l)).
  { assert (Hnil : flat_map pd_edges l = []).
    { pose proof (flat_tree_no_children rs l Ef) as Hc. clear -Hc. induction l as [|d r IH]; [reflexivity|].
      cbn [flat_map]. rewrite IH by (intros; apply Hc; right; auto).
      unfold pd_edges, children_of. rewrite (Hc d (or_introl eq_refl)). reflexivity. }
    rewrite Hnil. constructor. }
  destruct l as [|d0 r]; intros [= <-].
  - split; [intros d [] | intros e []].
  - set (l := d0 :: r) in *.
    destruct (nest_from_inv l Hg (List.length l - 1) l) as [H1 H2].
    + intros j d _ Hn. exists d. auto.
    + exact He.
    + intros j d Hj Hn. exfalso. assert (Hx : nth_error l j <> None) by congruence. apply nth_error_Some in Hx.
      unfold l in *. cbn [List.length] in *. lia.
    + split.
      * intros d Hin. apply In_nth_error in Hin. destruct Hin as (j & Hj). apply (H2 j d); [lia | exact Hj].
      * rewrite Forall_forall in H1. exact H1.
Qed.

Example ex_T4_edges :
  exists nl, nested_tree [] [] ex_rules = Ok nl
    /\ map (dget "parent") nl = [Some (VInt (-1))]
    /\ flat_map pd_edges nl =
       [(Some (VTuple []), Some (VTuple [VStr "b"]));
        (Some (VTuple []), Some (VTuple [VStr "a"]));
        (Some (VTuple [VStr "a"]), Some (VTuple [VStr "a"; VStr "[]"]))].
Proof. eexists. split; [vm_compute; reflexivity|]. split; vm_compute; reflexivity. Qed.

(* ---------- assumptions ---------- *)
Print Assumptions T1_items_invariants.
Print Assumptions T2_each_rule_once.
Print Assumptions T2_each_rule_once_subtree.
Print Assumptions T3_parents.
Print Assumptions T3_parents_sorted.
Print Assumptions T3_prefix_closed_no_keyerror.
Print Assumptions T3_ok_prefix_closed.
Print Assumptions T3_keyerror_iff.
Print Assumptions T3_flat_tree_parents.
Print Assumptions T4_flat_nested_same_nodes.
Print Assumptions T4_nested_structure.
Print Assumptions T4_run_tree_same_nodes.
Print Assumptions T5_required_value.
Print Assumptions T5_required_true_iff.
Print Assumptions T5_required_false_iff.
Print Assumptions T5_required_none_iff.
Print Assumptions T5_required_whole.
Print Assumptions T5_flat_tree_required.
Print Assumptions T6_subtree.
Print Assumptions steps_total.
Print Assumptions flat_tree_total.
