(* C11 extended to ESCAPED mappings: the serialiser (SpecIO.escape_map: every "path" in a string key becomes
   "\path") and the parser (Spec.unescape_keys: a mapping with a key containing "\path" is an escaped literal,
   every key is un-escaped in place) are inverse to each other, and the round trip of C11Proof.C11_roundtrip_eq
   holds on a fragment that admits such mappings (C11E_roundtrip_eq, C11E_leaf).
   1. strings (unesc_esc, contains_esc, contains_esc_inv)   2. mappings (unescape_escape_map, fold_dict_put_id, pfs_escaped, C11E_arg)
   3.-4. what is written for a JSON value (wr) and what from_spec makes of it   5. leaves   6. trees
   7. the fragment of C11 is included   8. examples   9. the repaired finding D49; counterexamples. *)
From Coq Require Import ZArith NArith List Bool String Ascii Lia.
From Valida Require Import Py Lang Defs Cond Dsl Check DocSem Path Cast Str SpecDefs RuleDefs RuleTerms
  Spec SpecIO SpecSpell Eq Inst RunSpec.
From Valida.Proofs Require Import PyFacts Tie C01Proof C02Proof RuleProof C09Proof C11Proof.
From Valida Require Import Rule SpecSpell.
Import ListNotations.
Local Open Scope string_scope.
Local Open Scope list_scope.

(* 1. strings *)
Lemma str_drop_length n : forall s, String.length (str_drop n s) <= String.length s.
Proof.
  induction n as [|n IH]; intros s; [apply Nat.le_refl|].
  destruct s as [|c r]; cbn [str_drop String.length]; [apply Nat.le_refl|].
  specialize (IH r). lia.
Qed.

Lemma replace_aux_S f old new c r :
  str_replace_aux (S f) old new (String c r) =
  if String.prefix old (String c r)
  then (new ++ str_replace_aux f old new (str_drop (String.length old) (String c r)))%string
  else String c (str_replace_aux f old new r).
Proof. reflexivity. Qed.

Lemma replace_aux_nil f old new : str_replace_aux f old new "" = "".
Proof. destruct f; reflexivity. Qed.

Lemma replace_aux_fuel a o new : forall f f' s,
  String.length s <= f -> String.length s <= f' ->
  str_replace_aux f (String a o) new s = str_replace_aux f' (String a o) new s.
Proof.
  induction f as [|f IH]; intros f' s H1 H2.
  - destruct s as [|c r]; [rewrite !replace_aux_nil; reflexivity|cbn [String.length] in H1; lia].
  - destruct s as [|c r]; [rewrite !replace_aux_nil; reflexivity|].
    destruct f' as [|f']; [cbn [String.length] in H2; lia|].
    cbn [String.length] in H1, H2.
    rewrite !replace_aux_S. destruct (String.prefix (String a o) (String c r)).
    + f_equal. cbn [String.length str_drop].
      pose proof (str_drop_length (String.length o) r).
      apply IH; lia.
    + f_equal. apply IH; lia.
Qed.

Lemma replace_unfold a o new c r :
  str_replace (String a o) new (String c r) =
  if String.prefix (String a o) (String c r)
  then (new ++ str_replace (String a o) new (str_drop (String.length o) r))%string
  else String c (str_replace (String a o) new r).
Proof.
  unfold str_replace. change (String.length (String c r)) with (S (String.length r)).
  rewrite replace_aux_S. destruct (String.prefix (String a o) (String c r)).
  - f_equal. cbn [String.length str_drop]. pose proof (str_drop_length (String.length o) r).
    apply replace_aux_fuel; lia.
  - reflexivity.
Qed.

Lemma replace_nil a o new : str_replace (String a o) new "" = "".
Proof. reflexivity. Qed.

Definition esc (k : string) : string := str_replace "path" "\path" k.
Definition unesc (k : string) : string := str_replace "\path" "path" k.

Lemma esc_unfold c r :
  esc (String c r) = if String.prefix "path" (String c r) then ("\path" ++ esc (str_drop 3 r))%string
                     else String c (esc r).
Proof. exact (replace_unfold _ _ _ c r). Qed.

Lemma unesc_unfold c r :
  unesc (String c r) = if String.prefix "\path" (String c r) then ("path" ++ unesc (str_drop 4 r))%string
                       else String c (unesc r).
Proof. exact (replace_unfold _ _ _ c r). Qed.

Lemma prefix_split p : forall s, String.prefix p s = true -> s = (p ++ str_drop (String.length p) s)%string.
Proof.
  induction p as [|a p IH]; intros s H; [reflexivity|].
  destruct s as [|c r]; [discriminate H|]. cbn [String.prefix] in H.
  destruct (ascii_dec a c) as [->|]; [|discriminate H].
  cbn [String.length str_drop append]. f_equal. exact (IH r H).
Qed.

Lemma prefix_cons a p c r : String.prefix (String a p) (String c r) = (Ascii.eqb a c && String.prefix p r).
Proof.
  cbn [String.prefix]. destruct (ascii_dec a c) as [->|n].
  - rewrite Ascii.eqb_refl. reflexivity.
  - apply Ascii.eqb_neq in n. rewrite n. reflexivity.
Qed.

Lemma prefix_nil s : String.prefix "" s = true.
Proof. destruct s; reflexivity. Qed.

Definition bs : ascii := "\"%char.
Fixpoint nobs (w : string) : bool :=
  match w with EmptyString => true | String a r => negb (Ascii.eqb a bs) && nobs r end.

Lemma prefix_esc w : forall s, nobs w = true -> String.prefix w (esc s) = true -> String.prefix w s = true.
Proof.
  induction w as [|a w IH]; intros s Hn H; [apply prefix_nil|].
  cbn [nobs] in Hn. apply andb_true_iff in Hn as [Ha Hn]. apply negb_true_iff in Ha.
  destruct s as [|c r]; [discriminate H|].
  rewrite esc_unfold in H. destruct (String.prefix "path" (String c r)) eqn:E.
  - cbn [append] in H. rewrite prefix_cons in H. fold bs in H. rewrite Ha in H. discriminate H.
  - rewrite prefix_cons in H. apply andb_true_iff in H as [H1 H2].
    rewrite prefix_cons, H1, (IH r Hn H2). reflexivity.
Qed.

Lemma unesc_bs_path x : unesc ("\path" ++ x) = ("path" ++ unesc x)%string.
Proof.
  change ("\path" ++ x)%string with (String "\" ("path" ++ x)%string).
  rewrite unesc_unfold. cbn [append]. rewrite !prefix_cons, prefix_nil. reflexivity.
Qed.

Lemma unesc_esc_len : forall n k, String.length k <= n -> unesc (esc k) = k.
Proof.
  induction n as [|n IH]; intros k Hl.
  - destruct k; [reflexivity|cbn [String.length] in Hl; lia].
  - destruct k as [|c r]; [reflexivity|]. cbn [String.length] in Hl.
    rewrite esc_unfold. destruct (String.prefix "path" (String c r)) eqn:E.
    + apply prefix_split in E. change (str_drop (String.length "path") (String c r)) with (str_drop 3 r) in E.
      assert (Hk : String.length (str_drop 3 r) <= n) by (pose proof (str_drop_length 3 r); lia).
      rewrite unesc_bs_path, (IH _ Hk). symmetry. exact E.
    + rewrite unesc_unfold.
      assert (Hp : String.prefix "\path" (String c (esc r)) = false).
      { rewrite prefix_cons. destruct (Ascii.eqb "\" c) eqn:Ec; [|reflexivity]. cbn [andb].
        destruct (String.prefix "path" (esc r)) eqn:E2; [|reflexivity].
        pose proof (prefix_esc "path" r eq_refl E2) as E3.
        destruct r as [|c2 r2]; [discriminate E3|]. rewrite esc_unfold, E3 in E2. discriminate E2. }
      rewrite Hp. f_equal. apply IH. lia.
Qed.

Theorem unesc_esc k : str_replace "\path" "path" (str_replace "path" "\path" k) = k.
Proof. exact (unesc_esc_len (String.length k) k (Nat.le_refl _)). Qed.

Lemma contains_cons n c r : str_contains n (String c r) = String.prefix n (String c r) || str_contains n r.
Proof. reflexivity. Qed.

Lemma prefix_bs_path x : String.prefix "\path" ("\path" ++ x)%string = true.
Proof. cbn [append]. rewrite !prefix_cons, prefix_nil. reflexivity. Qed.

Theorem contains_esc k : str_contains "path" k = true -> str_contains "\path" (str_replace "path" "\path" k) = true.
Proof.
  fold (esc k). induction k as [|c r IH]; intros H; [discriminate H|].
  rewrite contains_cons in H. rewrite esc_unfold.
  destruct (String.prefix "path" (String c r)) eqn:E.
  - apply prefix_contains. apply prefix_bs_path.
  - cbn [orb] in H. rewrite contains_cons, (IH H). apply orb_true_r.
Qed.

Theorem contains_esc_inv k : str_contains "\path" (str_replace "path" "\path" k) = true -> str_contains "path" k = true.
Proof.
  fold (esc k). induction k as [|c r IH]; intros H; [discriminate H|].
  rewrite contains_cons. destruct (String.prefix "path" (String c r)) eqn:E; [reflexivity|].
  rewrite esc_unfold, E, contains_cons in H. cbn [orb]. apply orb_true_iff in H as [H|H].
  - rewrite prefix_cons in H. apply andb_true_iff in H as [_ H].
    exact (prefix_contains _ _ (prefix_esc "path" r eq_refl H)).
  - exact (IH H).
Qed.

(* a key without "path" is written as it is *)
Lemma esc_nopath k : str_contains "path" k = false -> str_replace "path" "\path" k = k.
Proof.
  fold (esc k). induction k as [|c r IH]; intros H; [reflexivity|].
  rewrite contains_cons in H. apply orb_false_iff in H as [E H].
  rewrite esc_unfold, E, (IH H). reflexivity.
Qed.

Lemma nopath_noesc k : str_contains "path" k = false -> str_contains "\path" k = false.
Proof.
  intros H. destruct (str_contains "\path" k) eqn:E; [|reflexivity].
  rewrite (str_contains_tail _ _ _ E) in H. discriminate H.
Qed.

(* ================================================================== *)
(* 2. mappings *)

Definition esc_kv (kv : pyval * pyval) : pyval * pyval :=
  match fst kv with VStr k => (VStr (str_replace "path" "\path" k), snd kv) | _ => kv end.

Lemma escape_map_eq d : escape_map d = if has_path_key d then VDict (map esc_kv d) else VDict d.
Proof. reflexivity. Qed.

Lemma app_snoc {Y} (l : list Y) a r : (l ++ [a]) ++ r = l ++ a :: r.
Proof. rewrite <- app_assoc. reflexivity. Qed.

Lemma unescape_escaped d : forall keep moved found,
  unescape_keys (map esc_kv d) keep moved found = Ok ((keep ++ d) ++ moved, found || has_path_key d).
Proof.
  induction d as [|[k v] r IH]; intros keep moved found.
  - cbn [map unescape_keys has_path_key]. rewrite app_nil_r, orb_false_r. reflexivity.
  - destruct k as [ | b | z | n m e | s | l | l | d' | t | t ];
      try (cbn [map esc_kv fst snd unescape_keys has_path_key]; rewrite IH, app_snoc; reflexivity).
    cbn [map esc_kv fst snd unescape_keys has_path_key]. unfold esc_code.
    destruct (str_contains "path" s) eqn:E.
    + rewrite (contains_esc s E), unesc_esc, IH, app_snoc. cbn [orb]. rewrite orb_true_r. reflexivity.
    + rewrite (esc_nopath s E), (nopath_noesc s E), IH, app_snoc. reflexivity.
Qed.

Theorem unescape_escape_map d : has_path_key d = true ->
  escape_map d = VDict (map esc_kv d) /\ unescape_keys (map esc_kv d) [] [] false = Ok (d, true).
Proof.
  intros H. split; [rewrite escape_map_eq, H; reflexivity|].
  rewrite unescape_escaped, H, app_nil_r. reflexivity.
Qed.

Lemma has_path_key_nonnil d : has_path_key d = true -> d <> [].
Proof. intros H ->. discriminate H. Qed.

(* from_spec builds the un-escaped mapping as a new dict (dict_put: a key that is == to an earlier one keeps the
   earlier place and takes the later value): the identity on a mapping whose keys are pairwise not == *)
Lemma dict_put_fresh k v : forall acc,
  (forall k', In k' (map fst acc) -> py_eq k k' = false) -> dict_put k v acc = acc ++ [(k, v)].
Proof.
  induction acc as [|[k2 v2] r IH]; intros H; [reflexivity|].
  cbn [dict_put app]. rewrite (H k2) by (left; reflexivity).
  f_equal. apply IH. intros k' Hin. apply H. right. exact Hin.
Qed.

Lemma fold_dict_put_app d : forall acc,
  (forall k k', In k (map fst d) -> In k' (map fst acc) -> py_eq k k' = false) ->
  keys_distinct (map fst d) = true ->
  fold_left (fun acc kv => dict_put (fst kv) (snd kv) acc) d acc = acc ++ d.
Proof.
  induction d as [|[k v] r IH]; intros acc Hp Hd; [rewrite app_nil_r; reflexivity|].
  cbn [fold_left fst snd].
  rewrite dict_put_fresh by (intros k' Hin; apply Hp; [left; reflexivity|exact Hin]).
  cbn [map fst keys_distinct] in Hd.
  apply andb_true_iff in Hd as [Hd Hd3]. apply andb_true_iff in Hd as [Hd1 Hd2].
  apply negb_true_iff in Hd1, Hd2.
  rewrite IH; [rewrite <- app_assoc; reflexivity| |exact Hd3].
  intros k1 k' H1 H2. rewrite map_app in H2. apply in_app_or in H2 as [H2|H2].
  - apply Hp; [right; exact H1|exact H2].
  - cbn in H2. destruct H2 as [<-|[]].
    exact (existsb_false_in (fun k2 => py_eq k2 k) _ k1 Hd2 H1).
Qed.

Theorem fold_dict_put_id d : keys_distinct (map fst d) = true ->
  fold_left (fun acc kv => dict_put (fst kv) (snd kv) acc) d [] = d.
Proof. intros H. apply (fold_dict_put_app d []); [intros k k' _ []|exact H]. Qed.

Lemma wf_keys_distinct d : wf_val (VDict d) = true -> keys_distinct (map fst d) = true.
Proof. rewrite wf_val_dict. intros H. apply andb_true_iff in H as [_ H]. exact H. Qed.

Lemma wf_dict_vals d : wf_val (VDict d) = true -> forallb wf_val (map snd d) = true.
Proof.
  rewrite wf_val_dict. intros H. apply andb_true_iff in H as [H _].
  induction d as [|[k x] r IH]; [reflexivity|].
  cbn [wf_ents] in H. fold wf_ents in H.
  apply andb_true_iff in H as [H H4]. apply andb_true_iff in H as [_ H3].
  cbn [map snd forallb]. rewrite H3. exact (IH H4).
Qed.

(* keyword names that are pairwise different are pairwise not == as keys *)
Lemma keys_distinct_skv (items : list (string * pyval)) :
  str_nodup (map fst items) = true -> keys_distinct (map fst (map skv items)) = true.
Proof.
  induction items as [|[k v] r IH]; [reflexivity|].
  cbn [map fst skv str_nodup keys_distinct]. intros H. apply andb_true_iff in H as [H1 H2]. apply negb_true_iff in H1.
  rewrite (IH H2), andb_true_r.
  assert (E1 : existsb (py_eq (VStr k)) (map fst (map skv r)) = existsb (String.eqb k) (map fst r)).
  { clear. induction r as [|[k2 v2] r IH]; [reflexivity|]. cbn [map fst skv existsb]. rewrite IH. reflexivity. }
  assert (E2 : existsb (fun k2 => py_eq k2 (VStr k)) (map fst (map skv r)) = existsb (String.eqb k) (map fst r)).
  { clear. induction r as [|[k2 v2] r IH]; [reflexivity|]. cbn [map fst skv existsb]. rewrite IH.
    f_equal. cbn [py_eq]. apply String.eqb_sym. }
  rewrite E1, E2, H1. reflexivity.
Qed.

(* the escaped mapping is recognised by DataPath.from_spec as an escaped literal and handed back un-escaped
   (as a new dict: the keys of d must be pairwise not ==, as they are in any Python dict; see
   pfs_escaped_counterexample_dup) *)
Lemma pfs_escaped d : has_path_key d = true -> keys_distinct (map fst d) = true ->
  pfs (escape_map d) = Ok (inr (VDict d)).
Proof.
  intros H Hd. destruct (unescape_escape_map d H) as [E1 E2]. rewrite E1.
  destruct d as [|kv r]; [discriminate H|].
  unfold path_from_spec, path_from_spec0. cbn [map] in *. destruct (esc_kv kv) as [k0 v0].
  rewrite E2. cbn [bind]. rewrite (fold_dict_put_id (kv :: r) Hd). reflexivity.
Qed.

(* without distinct keys (not a Python dict): the model list [("path",1);("path",2)] comes back as [("path",2)] *)
Example pfs_escaped_counterexample_dup :
  let d := [(VStr "path", VInt 1); (VStr "path", VInt 2)] in
  has_path_key d = true /\ keys_distinct (map fst d) = false /\
  pfs (escape_map d) = Ok (inr (VDict [(VStr "path", VInt 2)])).
Proof. vm_compute. repeat split. Qed.

(* (the values are written raw: they must be plain data at every depth) *)
Theorem val_to_json_escaped cast d : has_path_key d = true -> forallb (fun kv => deep_plain (snd kv)) d = true ->
  val_to_json X cast (VDict d) = Ok (escape_map d).
Proof. intros H Hd. unfold val_to_json. rewrite H, Hd. reflexivity. Qed.

Definition jp_ents := fix go (d : list (pyval * pyval)) : bool :=
  match d with [] => true | (VStr _, x) :: r => json_pure x && go r | _ => false end.
Lemma json_pure_dict d : json_pure (VDict d) = jp_ents d.
Proof. reflexivity. Qed.

Lemma jp_ents_esc d : jp_ents (map esc_kv d) = jp_ents d.
Proof.
  induction d as [|[k v] r IH]; [reflexivity|].
  destruct k; try reflexivity. cbn [map esc_kv fst snd jp_ents]. rewrite IH. reflexivity.
Qed.

Theorem json_pure_escape_map d : json_pure (escape_map d) = json_pure (VDict d).
Proof.
  rewrite escape_map_eq. destruct (has_path_key d); [|reflexivity]. rewrite !json_pure_dict. apply jp_ents_esc.
Qed.

Theorem coerce_escaped d : has_path_key d = true -> keys_distinct (map fst d) = true ->
  coerce pfs (escape_map d) = Ok (CDict (map inr_kv d)) /\ cval (CDict (map inr_kv d)) = ALit (VDict d).
Proof.
  intros H Hd. split.
  - pose proof (pfs_escaped d H Hd) as E. destruct (unescape_escape_map d H) as [E1 _]. rewrite E1 in *.
    unfold coerce. rewrite E. reflexivity.
  - cbn [coerced_val]. rewrite item_val_inr_kv. reflexivity.
Qed.

(* (keys_distinct: the keys are pairwise not ==, part of wf_val (VDict d); needed since from_spec builds the
   un-escaped mapping as a new dict, see pfs_escaped_counterexample_dup) *)
Theorem C11E_arg : forall d,
  has_path_key d = true -> json_pure (VDict d) = true -> keys_distinct (map fst d) = true ->
  val_to_json X false (VDict d) = Ok (escape_map d) /\ json_pure (escape_map d) = true /\
  exists cv, coerce pfs (escape_map d) = Ok cv /\ cval cv = ALit (VDict d).
Proof.
  intros d H Hj Hd. split; [exact (val_to_json_escaped false d H (deep_plain_vals d Hj))|].
  split; [rewrite json_pure_escape_map; exact Hj|].
  destruct (coerce_escaped d H Hd) as [E1 E2]. eexists. split; [exact E1|exact E2].
Qed.

(* ================================================================== *)
(* 3. what the serialiser writes for JSON values (no type conversion)   *)

Definition wr_item (v : pyval) : pyval := match v with VDict d => escape_map d | _ => v end.
Definition wr_vals (d : list (pyval * pyval)) : list (pyval * pyval) := map (fun kv => (fst kv, wr_item (snd kv))) d.
Definition wr (v : pyval) : pyval :=
  match v with
  | VList l => VList (map wr_item l)
  | VDict d => if has_path_key d then escape_map d else VDict (wr_vals d)
  | _ => v
  end.

Lemma item_to_json_wr v : json_pure v = true -> item_to_json X false v = Ok (wr_item v).
Proof.
  destruct v; try discriminate; try reflexivity; intros H.
  - exact (item_to_json_list l H).
  - exact (item_to_json_dict d H).
Qed.

Lemma mapM_item_wr l : forallb json_pure l = true -> mapM (item_to_json X false) l = Ok (map wr_item l).
Proof.
  induction l as [|v l IH]; cbn [forallb mapM map]; [reflexivity|].
  intros H. apply andb_true_iff in H as [Hv Hl]. rewrite (item_to_json_wr v Hv), (IH Hl). reflexivity.
Qed.

Lemma mapM_kv_wr d : forallb json_pure (map snd d) = true ->
  mapM (fun kv : pyval * pyval => let* x := item_to_json X false (snd kv) in Ok (fst kv, x)) d = Ok (wr_vals d).
Proof.
  unfold wr_vals. induction d as [|[k v] r IH]; cbn [map snd forallb mapM fst]; [reflexivity|].
  intros H. apply andb_true_iff in H as [Hv Hr]. rewrite (item_to_json_wr v Hv). cbn [bind]. rewrite (IH Hr). reflexivity.
Qed.

(* every JSON value is written (no fragment condition) *)
Lemma val_to_json_wr v : json_pure v = true -> val_to_json X false v = Ok (wr v).
Proof.
  destruct v; try discriminate; intros Hj; try reflexivity.
  - rewrite json_pure_list in Hj. unfold val_to_json. rewrite (mapM_item_wr l Hj). reflexivity.
  - unfold val_to_json. cbn [wr]. destruct (has_path_key d); [rewrite (deep_plain_vals d Hj); reflexivity|].
    rewrite (mapM_kv_wr d (json_pure_dict_vals d Hj)). reflexivity.
Qed.

Lemma json_pure_wr_item v : json_pure v = true -> json_pure (wr_item v) = true.
Proof. destruct v; try discriminate; try reflexivity; intros H; try exact H. cbn [wr_item]. rewrite json_pure_escape_map. exact H. Qed.

Lemma jp_ents_wr d : jp_ents d = true -> jp_ents (wr_vals d) = true.
Proof.
  unfold wr_vals. induction d as [|[k v] r IH]; [reflexivity|]. destruct k; try discriminate.
  cbn [map fst snd jp_ents]. intros H. apply andb_true_iff in H as [Hv Hr].
  rewrite (json_pure_wr_item v Hv). exact (IH Hr).
Qed.

Lemma json_pure_wr v : json_pure v = true -> json_pure (wr v) = true.
Proof.
  destruct v; try discriminate; try reflexivity; intros H; try exact H.
  - cbn [wr]. rewrite json_pure_list in *. induction l as [|x l IH]; [reflexivity|].
    cbn [map forallb] in *. apply andb_true_iff in H as [Hx Hl]. rewrite (json_pure_wr_item x Hx). exact (IH Hl).
  - cbn [wr]. destruct (has_path_key d); [rewrite json_pure_escape_map; exact H|].
    rewrite json_pure_dict in *. exact (jp_ents_wr d H).
Qed.

(* ================================================================== *)
(* 4. what from_spec does with it                                       *)

(* list items / mapping values of an argument: a mapping is either escaped (some key contains "path")
   or as in C11 (okkeys) *)
Definition item3 (v : pyval) : bool := match v with VDict d => has_path_key d || okkeys d | _ => true end.
(* a single argument *)
Definition plain3 (v : pyval) : bool :=
  match v with
  | VDict d => has_path_key d || (okkeys d && forallb item3 (map snd d))
  | VList l | VTuple l => forallb item3 l
  | _ => true
  end.

Lemma try_path_wr_item v : item3 v = true -> wf_val v = true -> try_path pfs (wr_item v) = Ok (inr v).
Proof.
  destruct v; try (intros _ _; apply try_path_item2; reflexivity).
  cbn [item3 wr_item]. destruct (has_path_key d) eqn:E; cbn [orb]; intros H Hw.
  - unfold try_path. rewrite (pfs_escaped d E (wf_keys_distinct d Hw)). reflexivity.
  - rewrite (escape_map_okkeys d H). apply try_path_item2. exact H.
Qed.

Lemma coerce_items_wr l : forallb item3 l = true -> forallb wf_val l = true ->
  coerce_items pfs (map wr_item l) = Ok (map inr l).
Proof.
  induction l as [|v l IH]; cbn [forallb coerce_items map]; [reflexivity|].
  intros H Hw. apply andb_true_iff in H as [Hv Hl]. apply andb_true_iff in Hw as [Hwv Hwl].
  rewrite (try_path_wr_item v Hv Hwv), (IH Hl Hwl). reflexivity.
Qed.

Lemma coerce_kvs_wr d : forallb item3 (map snd d) = true -> forallb wf_val (map snd d) = true ->
  coerce_kvs pfs (wr_vals d) = Ok (map inr_kv d).
Proof.
  unfold wr_vals. induction d as [|[k v] r IH]; cbn [map fst snd forallb coerce_kvs]; [reflexivity|].
  intros H Hw. apply andb_true_iff in H as [Hv Hr]. apply andb_true_iff in Hw as [Hwv Hwr].
  rewrite (try_path_wr_item v Hv Hwv). cbn [bind]. rewrite (IH Hr Hwr). reflexivity.
Qed.

(* okkeys looks at the keys only *)
Lemma unskv_map_vals (f : pyval -> pyval) d :
  unskv (map (fun kv => (fst kv, f (snd kv))) d) = map (fun kv => (fst kv, f (snd kv))) (unskv d).
Proof. unfold unskv. rewrite !map_map. reflexivity. Qed.

Lemma okkeys_map_vals (f : pyval -> pyval) d : okkeys (map (fun kv => (fst kv, f (snd kv))) d) = okkeys d.
Proof.
  unfold okkeys. f_equal; [f_equal|].
  - unfold str_keys. induction d as [|[k v] r IH]; [reflexivity|]. cbn [map forallb fst]. rewrite IH. reflexivity.
  - unfold unskv. induction d as [|[k v] r IH]; [reflexivity|]. cbn [map forallb fst snd]. rewrite IH. reflexivity.
  - f_equal. destruct d as [|[k v] [|kv2 r]]; reflexivity.
Qed.

Lemma not_tuple_pure v : json_pure v = true -> match v with VTuple _ => False | _ => True end.
Proof. destruct v; try discriminate; exact (fun _ => I). Qed.

Lemma coerce_wr v : json_pure v = true -> plain3 v = true -> wf_val v = true ->
  exists cv, coerce pfs (wr v) = Ok cv /\ cval cv = ALit v.
Proof.
  intros Hj H Hw. destruct v; try discriminate Hj; try (eexists; split; reflexivity).
  - cbn [plain3] in H. exists (CSeq false (map inr l)). split.
    + cbn [wr coerce]. rewrite (coerce_items_wr l H Hw). reflexivity.
    + cbn [coerced_val]. rewrite item_val_inr. reflexivity.
  - cbn [plain3 wr] in *. destruct (has_path_key d) eqn:E; cbn [orb] in H.
    + destruct (coerce_escaped d E (wf_keys_distinct d Hw)) as [E1 E2]. eexists. split; [exact E1|exact E2].
    + apply andb_true_iff in H as [Hk Hv]. exists (CDict (map inr_kv d)). split.
      * unfold coerce. rewrite pfs_okmap by (unfold wr_vals; rewrite okkeys_map_vals; exact Hk).
        rewrite (coerce_kvs_wr d Hv (wf_dict_vals d Hw)). reflexivity.
      * cbn [coerced_val]. rewrite item_val_inr_kv. reflexivity.
Qed.

(* values of a keyword mapping of a callable with several named parameters, and the arguments of a *args
   callable: since the repair of D49 they are WRITTEN at item level (wr_item: a mapping is escaped at its own top
   level, anything else -- a list, the values of a mapping -- is copied as it is), which is how from_spec READS
   them (as items of the keyword mapping / of the argument list: it un-escapes a mapping there, but does not
   look into a list or into the values of a mapping).  So the only restriction left is on the argument itself
   when it is a mapping (escaped, or okkeys: D40); WIDENED from "no inner mapping with a key containing
   path" -- see C11E_inner_escape_repaired.  The same predicate as item3. *)
Definition sub3 (v : pyval) : bool := match v with VDict d => has_path_key d || okkeys d | _ => true end.

Lemma sub3_item3 v : sub3 v = item3 v.
Proof. reflexivity. Qed.

(* (helper for section 7: values that the serialiser does not escape) *)
Definition noesc (v : pyval) : bool := match v with VDict d => negb (has_path_key d) | _ => true end.

Lemma wr_item_noesc v : noesc v = true -> wr_item v = v.
Proof.
  destruct v; try reflexivity. cbn [noesc wr_item]. intros H. apply negb_true_iff in H.
  rewrite escape_map_eq, H. reflexivity.
Qed.

Lemma map_wr_item_noesc l : forallb noesc l = true -> map wr_item l = l.
Proof.
  induction l as [|v l IH]; cbn [forallb map]; [reflexivity|].
  intros H. apply andb_true_iff in H as [Hv Hl]. rewrite (wr_item_noesc v Hv), (IH Hl). reflexivity.
Qed.

Lemma wr_vals_noesc d : forallb noesc (map snd d) = true -> wr_vals d = d.
Proof.
  unfold wr_vals. induction d as [|[k v] r IH]; cbn [forallb map fst snd]; [reflexivity|].
  intros H. apply andb_true_iff in H as [Hv Hr]. rewrite (wr_item_noesc v Hv), (IH Hr). reflexivity.
Qed.

Lemma try_path_wr_sub v : sub3 v = true -> wf_val v = true -> try_path pfs (wr_item v) = Ok (inr v).
Proof. exact (try_path_wr_item v). Qed.

Lemma coerce_items_sub l : forallb sub3 l = true -> forallb wf_val l = true ->
  coerce_items pfs (map wr_item l) = Ok (map inr l).
Proof. exact (coerce_items_wr l). Qed.

Definition kw_map (f : pyval -> pyval) (items : list (string * pyval)) : list (string * pyval) :=
  map (fun kv => (fst kv, f (snd kv))) items.

Lemma items_ok_kw_map f items : items_ok (kw_map f items) = items_ok items.
Proof.
  unfold items_ok, kw_map. f_equal.
  - induction items as [|[k v] r IH]; [reflexivity|]. cbn [map forallb fst]. rewrite IH. reflexivity.
  - f_equal. destruct items as [|[k v] [|kv2 r]]; reflexivity.
Qed.

Lemma coerce_kvs_kw (f : pyval -> pyval) items :
  (forall kv, In kv items -> try_path pfs (f (snd kv)) = Ok (inr (snd kv))) ->
  coerce_kvs pfs (map skv (kw_map f items)) = Ok (map (fun kv => (VStr (fst kv), inr (snd kv))) items).
Proof.
  unfold kw_map. induction items as [|[k v] r IH]; intros H; [reflexivity|].
  cbn [map skv fst snd coerce_kvs]. pose proof (H (k, v) (or_introl eq_refl)) as Hv. cbn [snd] in Hv. rewrite Hv. cbn [bind].
  change (map (fun kv : string * pyval => (VStr (fst kv), snd kv))) with (map skv).
  rewrite IH by (intros kv Hin; apply H; right; exact Hin). reflexivity.
Qed.

Lemma coerce_kwd_f f items : items_ok items = true ->
  (forall kv, In kv items -> try_path pfs (f (snd kv)) = Ok (inr (snd kv))) ->
  coerce pfs (kwd (kw_map f items)) = Ok (CDict (map (fun kv => (VStr (fst kv), inr (snd kv))) items)).
Proof.
  intros Hok Hv. unfold kwd. change (fun kv : string * pyval => (VStr (fst kv), snd kv)) with skv.
  unfold coerce. rewrite pfs_kwd by (rewrite items_ok_kw_map; exact Hok).
  rewrite (coerce_kvs_kw f items Hv). reflexivity.
Qed.

Lemma forallb_In {Y} (p : Y -> bool) l x : forallb p l = true -> In x l -> p x = true.
Proof. intros H Hin. rewrite forallb_forall in H. exact (H x Hin). Qed.

(* ================================================================== *)
(* 5. leaves (no type conversion: casts c q = false)                    *)

Definition items_have_path (items : list (string * pyval)) : bool :=
  existsb (fun kv => str_contains "path" (fst kv)) items.

(* the argument value written for a leaf *)
Definition q_json3 (q : dsl) : pyval :=
  match q with
  | Q_items_contain items =>
      if items_have_path items then escape_map (map skv items) else kwd (kw_map wr_item items)
  | _ => match q_form q with
         | FZero => VNone
         | FOne v => wr v
         | FKw items => kwd (kw_map wr_item items)      (* item level: since the repair of D49 *)
         | FStar l => VList (map wr_item l)
         end
  end.
Definition leaf_json3 (c : scls) (q : dsl) : pyval := VDict [(VStr (leaf_key c q), q_json3 q)].

(* ---- serialiser ---- *)

Lemma args_json_one3 l v rest :
  l_args l ++ map snd (l_kwargs l) = ALit v :: rest -> json_pure v = true ->
  args_json (1, false, false)%nat false l = Ok (wr v).
Proof.
  intros Hl Hv. unfold args_json. cbn [Nat.eqb negb andb]. rewrite Hl, a2j_lit. exact (val_to_json_wr v Hv).
Qed.

Lemma kws_item_wr items : forallb json_pure (map snd items) = true ->
  kws_item false (kmapL items) = Ok (map skv (kw_map wr_item items)).
Proof.
  unfold kw_map. induction items as [|[k v] r IH]; cbn [map snd forallb]; intros H; [reflexivity|].
  apply andb_true_iff in H as [Hv Hr].
  unfold kmap. cbn [map fst snd kws_item]. fold (kws_item false). fold (kmapL r).
  rewrite a2i_lit, (item_to_json_wr v Hv). cbn [bind]. rewrite (IH Hr). reflexivity.
Qed.

Lemma kws_raw_lit items : kws_raw (kmapL items) = Ok (map skv items).
Proof.
  induction items as [|[k v] r IH]; [reflexivity|].
  unfold kmap. cbn [map fst snd kws_raw arg1_raw bind]. fold kws_raw. fold (kmapL r). rewrite IH. reflexivity.
Qed.

Lemma args_json_kw3 l items :
  l_kwargs l = kmapL items -> forallb json_pure (map snd items) = true ->
  args_json (2, false, false)%nat false l = Ok (kwd (kw_map wr_item items)).
Proof.
  intros Hl Hv. unfold kwd. change (fun kv : string * pyval => (VStr (fst kv), snd kv)) with skv.
  unfold args_json; cbn [Nat.eqb Nat.ltb Nat.leb negb andb orb]; rewrite Hl.
  rewrite (kws_item_wr items Hv). reflexivity.
Qed.

Lemma args_json_items3 l items :
  l_kwargs l = kmapL items -> forallb json_pure (map snd items) = true ->
  args_json (0, false, true)%nat false l =
  Ok (if items_have_path items then escape_map (map skv items) else kwd (kw_map wr_item items)).
Proof.
  intros Hl Hv. unfold kwd. change (fun kv : string * pyval => (VStr (fst kv), snd kv)) with skv.
  unfold args_json; cbn [Nat.eqb Nat.ltb Nat.leb negb andb orb]; rewrite Hl.
  rewrite kws_have_path_lit. fold (items_have_path items). destruct (items_have_path items).
  - rewrite kws_raw_lit. reflexivity.
  - rewrite (kws_item_wr items Hv). reflexivity.
Qed.

Lemma mapM_a2i_wr l : forallb json_pure l = true -> mapM (a2i false) (map ALit l) = Ok (map wr_item l).
Proof.
  induction l as [|v l IH]; cbn [forallb mapM map]; [reflexivity|].
  intros H. apply andb_true_iff in H as [Hv Hl]. rewrite a2i_lit, (item_to_json_wr v Hv). cbn [bind].
  rewrite (IH Hl). reflexivity.
Qed.

Lemma args_json_star3 l vs :
  l_args l = map ALit vs -> forallb json_pure vs = true ->
  args_json (0, true, false)%nat false l = Ok (VList (map wr_item vs)).
Proof.
  intros Hl Hv. unfold args_json. cbn [Nat.eqb Nat.ltb Nat.leb negb andb orb].
  rewrite Hl, (mapM_a2i_wr vs Hv). reflexivity.
Qed.

(* every leaf with JSON arguments is written (no fragment condition on the mappings) *)
Lemma args_json_q3 c q : forallb json_pure (q_args q) = true ->
  args_json (q_shape q) false (lmapL (expected_leaf c q)) = Ok (q_json3 q).
Proof.
  rewrite q_args_form. intros H.
  destruct q; cbn [q_form form_args q_json3 q_shape] in *;
    first [ apply args_json_zero
          | eapply args_json_one3; [reflexivity|]; cbn [forallb] in H; rewrite andb_true_r in H; exact H
          | apply args_json_kw3; [reflexivity|exact H]
          | apply args_json_items3; [reflexivity|exact H]
          | apply args_json_star3; [reflexivity|exact H] ].
Qed.

Lemma leaf_to_json3 c q : casts c q = false -> forallb json_pure (q_args q) = true ->
  l2j (lmapL (expected_leaf c q)) = Ok (leaf_json3 c q).
Proof. intros Hc H. rewrite leaf_to_json_expected, Hc, (args_json_q3 c q H). reflexivity. Qed.

(* ---- purity ---- *)

Lemma map_snd_kw_map f items : map snd (kw_map f items) = map f (map snd items).
Proof. unfold kw_map. rewrite !map_map. reflexivity. Qed.

Lemma forallb_map_pure (f : pyval -> pyval) l :
  (forall v, json_pure v = true -> json_pure (f v) = true) ->
  forallb json_pure l = true -> forallb json_pure (map f l) = true.
Proof.
  intros Hf. induction l as [|v l IH]; cbn [forallb map]; [reflexivity|].
  intros H. apply andb_true_iff in H as [Hv Hl]. rewrite (Hf v Hv). exact (IH Hl).
Qed.

Lemma json_pure_q3 q : forallb json_pure (q_args q) = true -> json_pure (q_json3 q) = true.
Proof.
  rewrite q_args_form. intros H.
  assert (Hkw : forall f items, (forall v, json_pure v = true -> json_pure (f v) = true) ->
            forallb json_pure (map snd items) = true -> json_pure (kwd (kw_map f items)) = true).
  { intros f items Hf Hi. rewrite json_pure_kwd, map_snd_kw_map. exact (forallb_map_pure f _ Hf Hi). }
  destruct q; cbn [q_form form_args q_json3] in *;
    first [ reflexivity
          | cbn [forallb] in H; rewrite andb_true_r in H; exact (json_pure_wr _ H)
          | exact (Hkw wr_item _ json_pure_wr_item H)
          | rewrite json_pure_list; exact (forallb_map_pure wr_item _ json_pure_wr_item H)
          | idtac ].
  destruct (items_have_path items).
  - rewrite json_pure_escape_map. change (VDict (map skv items)) with (kwd items). rewrite json_pure_kwd. exact H.
  - exact (Hkw wr_item _ json_pure_wr_item H).
Qed.

Lemma leaf_json3_pure c q : forallb json_pure (q_args q) = true -> json_pure (leaf_json3 c q) = true.
Proof. intros H. unfold leaf_json3. rewrite json_pure_single. exact (json_pure_q3 q H). Qed.

(* ---- parser ---- *)

Definition q_frag3 (q : dsl) : bool :=
  match q with
  | Q_items_contain items => items_have_path items || (items_ok items && forallb item3 (map snd items))
  | _ => match q_form q with
         | FZero => true
         | FOne v => plain3 v
         | FKw items => forallb sub3 (map snd items)
         | FStar l => forallb sub3 l
         end
  end.

Lemma tail_one3 c q v :
  class_ok c q = true -> q_shape q = (1, false, false)%nat -> q_call q = (q_method q, [v], []) ->
  json_pure v = true -> plain3 v = true -> wf_val v = true ->
  exists t, leaf_tail (scls_class c) (q_method q) (q_ctor c q) (wr v) = Ok (t, leaf_result c q).
Proof.
  intros Hcls Hs Hq Hj Hpl Hw. destruct (coerce_wr v Hj Hpl Hw) as [cv [Hc Hv]]. eexists.
  apply (tail_ok c q (wr v) cv [v] [] Hcls Hc).
  - rewrite Hs. cbn [dispatch_by Nat.eqb negb andb]. rewrite Hv. reflexivity.
  - pose proof (tie_build c q Hcls) as Hb. unfold built in Hb. rewrite Hq in Hb. exact Hb.
Qed.

Lemma tail_star3 c q l :
  class_ok c q = true -> q_shape q = (0, true, false)%nat -> q_call q = (q_method q, l, []) ->
  forallb sub3 l = true -> forallb wf_val l = true ->
  exists t, leaf_tail (scls_class c) (q_method q) (q_ctor c q) (VList (map wr_item l)) = Ok (t, leaf_result c q).
Proof.
  intros Hcls Hs Hq Hpl Hw. eexists.
  assert (Hc : coerce pfs (VList (map wr_item l)) = Ok (CSeq false (map inr l)))
    by (cbn [coerce]; rewrite (coerce_items_sub l Hpl Hw); reflexivity).
  apply (tail_ok c q (VList (map wr_item l)) _ l [] Hcls Hc).
  - rewrite Hs. cbn [dispatch_by Nat.eqb negb andb]. rewrite item_arg_inr. reflexivity.
  - pose proof (tie_build c q Hcls) as Hb. unfold built in Hb. rewrite Hq in Hb. exact Hb.
Qed.

Lemma tail_kw3 c q items f :
  class_ok c q = true -> (q_shape q = (2, false, false) \/ q_shape q = (0, false, true))%nat ->
  build_leaf T idlit (scls_name c) (q_method q) [] items = Ok (expected_leaf c q) ->
  items_ok items = true ->
  (forall kv, In kv items -> try_path pfs (f (snd kv)) = Ok (inr (snd kv))) ->
  exists t, leaf_tail (scls_class c) (q_method q) (q_ctor c q) (kwd (kw_map f items)) = Ok (t, leaf_result c q).
Proof.
  intros Hcls Hs Hb Hok Hv. eexists.
  apply (tail_ok c q (kwd (kw_map f items)) _ [] items Hcls (coerce_kwd_f f items Hok Hv)); [|exact Hb].
  destruct Hs as [Hs|Hs]; rewrite Hs; cbn [dispatch_by Nat.eqb Nat.ltb Nat.leb negb andb];
    rewrite kw_of_lit; reflexivity.
Qed.

Lemma in_items_snd (p : pyval -> bool) (items : list (string * pyval)) kv :
  forallb p (map snd items) = true -> In kv items -> p (snd kv) = true.
Proof. intros H Hin. apply (forallb_In p (map snd items)); [exact H|]. apply in_map. exact Hin. Qed.

Lemma has_path_key_skv items : has_path_key (map skv items) = items_have_path items.
Proof.
  unfold items_have_path. induction items as [|[k v] r IH]; [reflexivity|].
  cbn [map skv fst snd has_path_key existsb]. rewrite IH. reflexivity.
Qed.

(* items_contain( **items ) with an item name containing "path": the keyword mapping is written raw and escaped,
   and un-escaped in place by from_spec *)
Lemma tail_items_esc c q items :
  class_ok c q = true -> q_shape q = (0, false, true)%nat ->
  build_leaf T idlit (scls_name c) (q_method q) [] items = Ok (expected_leaf c q) ->
  items_have_path items = true -> str_nodup (map fst items) = true ->
  exists t, leaf_tail (scls_class c) (q_method q) (q_ctor c q) (escape_map (map skv items)) = Ok (t, leaf_result c q).
Proof.
  intros Hcls Hs Hb Hp Hnd. rewrite <- has_path_key_skv in Hp.
  destruct (coerce_escaped _ Hp (keys_distinct_skv items Hnd)) as [Hc _]. eexists.
  apply (tail_ok c q _ _ [] items Hcls Hc); [|exact Hb].
  rewrite Hs; cbn [dispatch_by Nat.eqb Nat.ltb Nat.leb negb andb]. rewrite map_map.
  change (fun x : string * pyval => inr_kv (skv x)) with (fun kv : string * pyval => (VStr (fst kv), @inr (pathterm pyval) pyval (snd kv))).
  rewrite kw_of_lit. reflexivity.
Qed.

Lemma leaf_tail3 c q :
  class_ok c q = true -> forallb json_pure (q_args q) = true -> q_frag3 q = true ->
  forallb wf_val (q_args q) = true -> q_nodup q = true ->
  exists t, leaf_tail (scls_class c) (q_method q) (q_ctor c q) (q_json3 q) = Ok (t, leaf_result c q).
Proof.
  intros Hcls Hj Hf Hw Hnd.
  assert (Hkw : forall r, built_kw c q = Some r -> r = Ok (expected_leaf c q))
    by (intros r; apply tie_build_kw; exact Hcls).
  unfold q_args in Hj. rewrite q_args_form in Hw.
  destruct q; cbn [q_json3 q_form q_frag3 q_nodup form_args] in *; cbn [q_call app map snd forallb] in Hj;
    rewrite ?andb_true_r in Hj;
    first [ apply tail_zero; [exact Hcls|reflexivity|reflexivity]
          | apply tail_one3; [exact Hcls|reflexivity|reflexivity|exact Hj|exact Hf|
                              cbn [forallb] in Hw; rewrite andb_true_r in Hw; exact Hw]
          | apply tail_kw3; [exact Hcls|left; reflexivity|exact (Hkw _ eq_refl)|reflexivity|
                             intros kv Hin; apply try_path_wr_sub;
                             [exact (in_items_snd sub3 _ kv Hf Hin)|exact (in_items_snd wf_val _ kv Hw Hin)]]
          | apply tail_star3; [exact Hcls|reflexivity|reflexivity|exact Hf|exact Hw]
          | idtac ].
  pose proof (tie_build c (Q_items_contain items) Hcls) as Hb.
  destruct (items_have_path items) eqn:E; cbn [orb] in Hf.
  - apply tail_items_esc; [exact Hcls|reflexivity|exact Hb|exact E|exact Hnd].
  - apply andb_true_iff in Hf as [Hok Hit].
    apply tail_kw3; [exact Hcls|right; reflexivity|exact Hb|exact Hok|].
    intros kv Hin. apply try_path_wr_item; [exact (in_items_snd item3 _ kv Hit Hin)|exact (in_items_snd wf_val _ kv Hw Hin)].
Qed.

Lemma casts_false c q : casts c q = false -> typed c = false /\ q_is_inst q = false.
Proof. unfold casts. intros H. apply orb_false_iff in H. exact H. Qed.

(* what is written for a leaf parses (at any positive fuel) to the leaf *)
Lemma leaf_json3_parse c q f :
  class_ok c q = true -> casts c q = false -> forallb json_pure (q_args q) = true -> q_frag3 q = true ->
  forallb wf_val (q_args q) = true -> q_nodup q = true ->
  exists t, self1 (S f) (leaf_json3 c q) = Ok (t, leaf_result c q).
Proof.
  intros Hcls Hc Hj Hf Hw Hnd. destruct (casts_false c q Hc) as [Ht Hi].
  unfold leaf_json3.
  rewrite self1_S, (step1_leaf _ _ _ (leaf_key_not_binop c q)), parse_leaf_head, (head_leaf c q Hcls).
  cbn [run_head]. rewrite Ht, Hi. cbn [conv bind].
  exact (leaf_tail3 c q Hcls Hj Hf Hw Hnd).
Qed.

(* ================================================================== *)
(* 6. the extended fragment                                             *)

(* leaves without type conversion: JSON arguments, escaped mappings allowed (q_frag3) *)
Definition leaf_esc (c : scls) (q : dsl) : bool :=
  class_ok c q && negb (casts c q) && q_frag3 q && q_wf q
  && forallb json_pure (q_args q) && forallb wf_val (q_args q) && q_nodup q.

(* under a type conversion (dtype classes, (keys_)is_instance) the arguments are types: as in C11 *)
Definition leaf_in_c11e (c : scls) (q : dsl) : bool :=
  if casts c q then leaf_in_c11 c q else leaf_esc c q.

Definition leaf_json_e (c : scls) (q : dsl) : pyval :=
  if casts c q then leaf_json c q else leaf_json3 c q.

Lemma leaf_esc_inv c q : leaf_esc c q = true ->
  class_ok c q = true /\ casts c q = false /\ q_frag3 q = true /\ forallb json_pure (q_args q) = true
  /\ forallb wf_val (q_args q) = true /\ q_nodup q = true.
Proof.
  unfold leaf_esc. intros H.
  apply andb_true_iff in H as [H H7]. apply andb_true_iff in H as [H H6]. apply andb_true_iff in H as [H H5].
  apply andb_true_iff in H as [H H4]. apply andb_true_iff in H as [H H3]. apply andb_true_iff in H as [H1 H2].
  apply negb_true_iff in H2. repeat split; assumption.
Qed.

Lemma leaf_e_to_json c q : leaf_in_c11e c q = true -> l2j (lmapL (expected_leaf c q)) = Ok (leaf_json_e c q).
Proof.
  unfold leaf_in_c11e, leaf_json_e. destruct (casts c q) eqn:Ec; intros H.
  - apply leaf_to_json_ok.
    + exact (leaf_in_c11_nopath c q H).
    + exact (leaf_form_ok c q H).
  - destruct (leaf_esc_inv c q H) as [_ [_ [_ [Hj _]]]]. exact (leaf_to_json3 c q Ec Hj).
Qed.

Lemma leaf_e_pure c q : leaf_in_c11e c q = true -> json_pure (leaf_json_e c q) = true.
Proof.
  unfold leaf_in_c11e, leaf_json_e. destruct (casts c q) eqn:Ec; intros H.
  - exact (leaf_json_pure c q H).
  - destruct (leaf_esc_inv c q H) as [_ [_ [_ [Hj _]]]]. exact (leaf_json3_pure c q Hj).
Qed.

Lemma leaf_e_parse c q f : leaf_in_c11e c q = true ->
  exists t, self1 (S f) (leaf_json_e c q) = Ok (t, leaf_result c q).
Proof.
  unfold leaf_in_c11e, leaf_json_e. destruct (casts c q) eqn:Ec; intros H.
  - destruct (leaf_in_c11_inv c q H) as [Hc [Hp [Ht [_ [Hit _]]]]]. exact (leaf_json_parse c q f Hc Hp Ht Hit).
  - destruct (leaf_esc_inv c q H) as [Hc [_ [Hf [Hj [Hw Hnd]]]]]. exact (leaf_json3_parse c q f Hc Ec Hj Hf Hw Hnd).
Qed.

Lemma leaf_e_refl_ok c q : leaf_in_c11e c q = true -> leaf_refl_ok (c, q) = true.
Proof.
  unfold leaf_in_c11e, leaf_refl_ok. cbn [snd]. destruct (casts c q); intros H.
  - destruct (leaf_in_c11_inv c q H) as [_ [_ [_ [_ [_ [_ [Hw Hn]]]]]]]. rewrite Hn, Hw. reflexivity.
  - destruct (leaf_esc_inv c q H) as [_ [_ [_ [_ [Hw Hn]]]]]. rewrite Hn, Hw. reflexivity.
Qed.

(* ---- trees ---- *)

Fixpoint tree_json_e (t : qtree) : pyval :=
  match t with
  | QLeaf c q => leaf_json_e c q
  | QNull => VDict []
  | QBin o a b => VDict [(VStr (bop_name o), VList [tree_json_e a; tree_json_e b])]
  end.

Definition leaves_c11e (t : qtree) : bool := forallb (fun cq => leaf_in_c11e (fst cq) (snd cq)) (qleaves t).

Definition tree_in_c11e (t : qtree) : bool :=
  leaves_c11e t && (tree_depth t <=? 40)%nat && negb (qmixed (qnorm t)).

Lemma leaves_c11e_bin o a b : leaves_c11e (QBin o a b) = true -> leaves_c11e a = true /\ leaves_c11e b = true.
Proof. unfold leaves_c11e. cbn [qleaves]. rewrite forallb_app. apply andb_true_iff. Qed.

Lemma leaves_c11e_leaf c q : leaves_c11e (QLeaf c q) = true -> leaf_in_c11e c q = true.
Proof. unfold leaves_c11e. cbn [qleaves forallb fst snd]. rewrite andb_true_r. exact (fun H => H). Qed.

Lemma cond_to_json_tree_e n : leaves_c11e n = true -> cond1_to_json T X (cmapL (cond_of n)) = Ok (tree_json_e n).
Proof.
  unfold cond1_to_json. induction n as [c q| |o a IHa b IHb]; intros H.
  - cbn [cond_of cond_map cond_to_json tree_json_e]. exact (leaf_e_to_json c q (leaves_c11e_leaf c q H)).
  - reflexivity.
  - apply leaves_c11e_bin in H as [Ha Hb].
    cbn [cond_of cond_map cond_to_json tree_json_e]. rewrite (IHa Ha), (IHb Hb). cbn [bind].
    rewrite bop_symbol_name. reflexivity.
Qed.

Lemma tree_json_e_pure n : leaves_c11e n = true -> json_pure (tree_json_e n) = true.
Proof.
  induction n as [c q| |o a IHa b IHb]; intros H.
  - exact (leaf_e_pure c q (leaves_c11e_leaf c q H)).
  - reflexivity.
  - apply leaves_c11e_bin in H as [Ha Hb]. cbn [tree_json_e]. rewrite json_pure_single, json_pure_list.
    cbn [forallb]. rewrite (IHa Ha), (IHb Hb). reflexivity.
Qed.

Lemma tree_json_e_parse t : forall f,
  tree_depth t <= f -> leaves_c11e t = true ->
  if qmixed (qnorm t) then self1 f (tree_json_e t) = Err TypeError
  else exists tm, self1 f (tree_json_e t) = Ok (tm, cmapL (cond_of (qnorm t))).
Proof.
  induction t as [c q| |o a IHa b IHb]; intros f Hd Hin.
  - cbn [tree_depth] in Hd. destruct f as [|f]; [lia|].
    cbn [qnorm tree_json_e]. rewrite qmixed_leaf.
    exact (leaf_e_parse c q f (leaves_c11e_leaf c q Hin)).
  - cbn [tree_depth] in Hd. destruct f as [|f]; [lia|].
    cbn [qnorm tree_json_e]. rewrite qmixed_null, self1_S, step1_null. eexists. reflexivity.
  - cbn [tree_depth] in Hd. destruct f as [|f]; [lia|].
    apply leaves_c11e_bin in Hin as [Hina Hinb].
    assert (Hda : tree_depth a <= f) by lia. assert (Hdb : tree_depth b <= f) by lia.
    specialize (IHa f Hda Hina). specialize (IHb f Hdb Hinb).
    cbn [tree_json_e]. rewrite self1_S, step1_bin.
    destruct (qmixed (qnorm a)) eqn:Ma.
    { rewrite (qmixed_qnorm_bin_l o a b Ma), IHa. reflexivity. }
    destruct IHa as [ta Ea]. rewrite Ea. cbn [bind]. rewrite mk_bin_null_l. cbn [bind].
    destruct (qmixed (qnorm b)) eqn:Mb.
    { rewrite (qmixed_qnorm_bin_r o a b Mb), IHb. reflexivity. }
    destruct IHb as [tb Eb]. rewrite Eb. cbn [bind]. rewrite mk_bin_map, mk_bin_cond_of.
    cbn [qnorm].
    destruct (q_is_null (qnorm b)); [rewrite Ma; eexists; reflexivity|].
    destruct (q_is_null (qnorm a)); [rewrite Mb; eexists; reflexivity|].
    destruct (qmixed (QBin o (qnorm a) (qnorm b))); [reflexivity|eexists; reflexivity].
Qed.

Lemma leaves_c11e_qnorm t : leaves_c11e (qnorm t) = leaves_c11e t.
Proof. unfold leaves_c11e. rewrite qleaves_qnorm. reflexivity. Qed.

Lemma leaves_e_refl_ok n : leaves_c11e n = true -> forallb leaf_refl_ok (qleaves n) = true.
Proof. apply forallb_impl. intros [c q] H. cbn [fst snd] in H. exact (leaf_e_refl_ok c q H). Qed.

Lemma tree_in_c11e_inv t : tree_in_c11e t = true ->
  leaves_c11e t = true /\ tree_depth t <= 40 /\ qmixed (qnorm t) = false.
Proof.
  unfold tree_in_c11e. intros H.
  apply andb_true_iff in H as [H H3]. apply andb_true_iff in H as [H1 H2].
  apply Nat.leb_le in H2. apply negb_true_iff in H3. repeat split; assumption.
Qed.

(* C11 extended to escaped mappings: the condition of a typed tree in the extended fragment serialises to
   pure JSON data; that data parses back to THE SAME condition; the condition is `==` to itself. *)
Theorem C11E_roundtrip_eq : forall t c,
  tree_in_c11e t = true -> build_expect (qnorm t) = Ok c ->
  let c1 := cond_map pyval arg1 ALit c in
  cond1_to_json T X c1 = Ok (tree_json_e (qnorm t)) /\ json_pure (tree_json_e (qnorm t)) = true /\
  (exists tm, cond1_from_spec T X (tree_json_e (qnorm t)) = Ok (tm, c1)) /\
  cond1_eqb T c1 c1 = true.
Proof.
  intros t c Hin Hb. destruct (tree_in_c11e_inv t Hin) as [Hl [Hd Hm]].
  unfold build_expect in Hb. rewrite Hm in Hb. injection Hb as <-. cbv zeta.
  assert (Hln : leaves_c11e (qnorm t) = true) by (rewrite leaves_c11e_qnorm; exact Hl).
  split; [exact (cond_to_json_tree_e _ Hln)|].
  split; [exact (tree_json_e_pure _ Hln)|].
  split; [|exact (cond_eqb_refl _ (leaves_e_refl_ok _ Hln))].
  rewrite cond1_unfold.
  assert (Hdn : tree_depth (qnorm t) <= 40) by (pose proof (depth_qnorm t); lia).
  pose proof (tree_json_e_parse (qnorm t) 40 Hdn Hln) as H. rewrite qnorm_idem, Hm in H. exact H.
Qed.

Theorem C11E_roundtrip : forall t c,
  tree_in_c11e t = true -> build_expect (qnorm t) = Ok c ->
  let c1 := cond_map pyval arg1 ALit c in
  exists j, cond1_to_json T X c1 = Ok j /\ json_pure j = true /\
    exists tm c2, cond1_from_spec T X j = Ok (tm, c2) /\ cond1_eqb T c2 c1 = true /\ cond1_to_json T X c2 = Ok j.
Proof.
  intros t c Hin Hb. destruct (C11E_roundtrip_eq t c Hin Hb) as [Hj [Hp [[tm Hs] He]]]. cbv zeta.
  exists (tree_json_e (qnorm t)). split; [exact Hj|]. split; [exact Hp|].
  exists tm, (cond_map pyval arg1 ALit c). split; [exact Hs|]. split; [exact He|exact Hj].
Qed.

Lemma tree_in_c11e_builds t : tree_in_c11e t = true -> build_expect (qnorm t) = Ok (cond_of (qnorm t)).
Proof. intros H. destruct (tree_in_c11e_inv t H) as [_ [_ Hm]]. unfold build_expect. rewrite Hm. reflexivity. Qed.

Theorem C11E_leaf : forall c q,
  leaf_in_c11e c q = true ->
  let c1 := cond_map pyval arg1 ALit (CLeaf (expected_leaf c q)) in
  cond1_to_json T X c1 = Ok (leaf_json_e c q) /\ json_pure (leaf_json_e c q) = true /\
  (exists tm, cond1_from_spec T X (leaf_json_e c q) = Ok (tm, c1)) /\
  cond1_eqb T c1 c1 = true.
Proof.
  intros c q H.
  assert (Hin : tree_in_c11e (QLeaf c q) = true).
  { unfold tree_in_c11e, leaves_c11e. cbn [qleaves forallb fst snd tree_depth qnorm]. rewrite H, qmixed_leaf. reflexivity. }
  exact (C11E_roundtrip_eq (QLeaf c q) _ Hin (tree_in_c11e_builds _ Hin)).
Qed.

(* ================================================================== *)
(* 7. the fragment of C11 is included, with the same JSON               *)

Lemma item2_item3 v : item2 v = true -> item3 v = true.
Proof. destruct v; try reflexivity. cbn [item2 item3]. intros ->. apply orb_true_r. Qed.

Lemma item2_noesc v : item2 v = true -> noesc v = true.
Proof.
  destruct v; try reflexivity. cbn [item2 noesc]. intros H. destruct (okkeys_inv d H) as [Hk [Hc _]].
  rewrite (no_path_key d Hk Hc). reflexivity.
Qed.

Lemma plain2_plain3 v : plain2 v = true -> plain3 v = true.
Proof.
  destruct v; try reflexivity; cbn [plain2 plain3]; try (apply forallb_impl; exact item2_item3).
  intros H. apply andb_true_iff in H as [Hk Hv]. rewrite Hk, (forallb_impl _ _ _ item2_item3 Hv). apply orb_true_r.
Qed.

Lemma plain2_sub3 v : plain2 v = true -> sub3 v = true.
Proof. intros H. exact (item2_item3 v (plain2_item2 v H)). Qed.

Lemma plain2_wr v : plain2 v = true -> wr v = v.
Proof.
  destruct v; try reflexivity; cbn [plain2 wr]; intros H.
  - rewrite (map_wr_item_noesc l (forallb_impl _ _ _ item2_noesc H)). reflexivity.
  - apply andb_true_iff in H as [Hk Hv]. destruct (okkeys_inv d Hk) as [Hs [Hc _]].
    rewrite (no_path_key d Hs Hc), (wr_vals_noesc d (forallb_impl _ _ _ item2_noesc Hv)). reflexivity.
Qed.

Lemma kw_map_id f items : (forall kv, In kv items -> f (snd kv) = snd kv) -> kw_map f items = items.
Proof.
  unfold kw_map. induction items as [|[k v] r IH]; intros H; [reflexivity|].
  cbn [map fst snd]. pose proof (H (k, v) (or_introl eq_refl)) as Hv. cbn [snd] in Hv. rewrite Hv.
  rewrite IH by (intros kv Hin; apply H; right; exact Hin). reflexivity.
Qed.

Lemma map_id_on {Y} (f : Y -> Y) l : (forall x, In x l -> f x = x) -> map f l = l.
Proof.
  induction l as [|x l IH]; intros H; [reflexivity|]. cbn [map]. rewrite (H x (or_introl eq_refl)).
  rewrite IH by (intros y Hy; apply H; right; exact Hy). reflexivity.
Qed.

Lemma items_have_path_nopath items : items_nopath items = true -> items_have_path items = false.
Proof. unfold items_nopath, items_have_path. apply negb_true_iff. Qed.

Lemma q_frag3_c11 q : q_plain2 q = true -> q_items_ok q = true -> q_items_nopath q = true -> q_frag3 q = true.
Proof.
  unfold q_plain2. rewrite q_args_form. intros Hp Hi Hn.
  destruct q; cbn [q_form form_args q_frag3 q_items_ok q_items_nopath] in *;
    first [ reflexivity
          | cbn [forallb] in Hp; rewrite andb_true_r in Hp; exact (plain2_plain3 _ Hp)
          | exact (forallb_impl _ _ _ plain2_sub3 Hp)
          | idtac ].
  rewrite (items_have_path_nopath items Hn), Hi. cbn [orb andb].
  exact (forallb_impl _ _ _ (fun v H => item2_item3 v (plain2_item2 v H)) Hp).
Qed.

Lemma q_json3_c11 q : q_plain2 q = true -> q_items_nopath q = true -> q_json3 q = form_val (q_form q).
Proof.
  unfold q_plain2. rewrite q_args_form. intros Hp Hn.
  assert (Hwi : forall v, plain2 v = true -> wr_item v = v).
  { intros v H. apply wr_item_noesc. apply item2_noesc. exact (plain2_item2 v H). }
  assert (Hkw : forall items, forallb plain2 (map snd items) = true -> kw_map wr_item items = items).
  { intros items H. apply kw_map_id. intros kv Hin. apply Hwi. exact (in_items_snd plain2 items kv H Hin). }
  destruct q; cbn [q_form form_args form_val q_json3 q_items_nopath] in *;
    first [ reflexivity
          | cbn [forallb] in Hp; rewrite andb_true_r in Hp; exact (plain2_wr _ Hp)
          | rewrite (Hkw _ Hp); reflexivity
          | rewrite (map_id_on wr_item _ (fun x Hin => Hwi x (forallb_In plain2 _ x Hp Hin))); reflexivity
          | idtac ].
  rewrite (items_have_path_nopath items Hn), (Hkw _ Hp). reflexivity.
Qed.

Theorem leaf_c11_in_c11e c q : leaf_in_c11 c q = true ->
  leaf_in_c11e c q = true /\ leaf_json_e c q = leaf_json c q.
Proof.
  intros H. unfold leaf_in_c11e, leaf_json_e. destruct (casts c q) eqn:Ec; [split; [exact H|reflexivity]|].
  destruct (leaf_in_c11_inv c q H) as [Hc [Hp [_ [Hw [Hi [Hj [Hwf Hn]]]]]]]. rewrite Ec in Hj. cbn [orb] in Hj.
  pose proof (leaf_in_c11_nopath c q H) as Hnp. split.
  - unfold leaf_esc. rewrite Hc, Ec, (q_frag3_c11 q Hp Hi Hnp), Hw, Hj, Hwf, Hn. reflexivity.
  - unfold leaf_json3, leaf_json, q_json_val. rewrite Ec, form_json_false, (q_json3_c11 q Hp Hnp). reflexivity.
Qed.

Theorem tree_c11_in_c11e t : tree_in_c11 t = true -> tree_in_c11e t = true /\ tree_json_e t = tree_json t.
Proof.
  intros H. destruct (tree_in_c11_inv t H) as [Hl [Hd Hm]]. split.
  - unfold tree_in_c11e. apply Nat.leb_le in Hd. rewrite Hd, Hm, andb_true_r. cbn [negb]. rewrite andb_true_r.
    revert Hl. unfold leaves_c11, leaves_c11e. apply forallb_impl. intros [c q] Hcq. cbn [fst snd] in *.
    exact (proj1 (leaf_c11_in_c11e c q Hcq)).
  - clear Hd Hm H. induction t as [c q| |o a IHa b IHb]; cbn [tree_json_e tree_json].
    + exact (proj2 (leaf_c11_in_c11e c q (leaves_c11_leaf c q Hl))).
    + reflexivity.
    + apply leaves_c11_bin in Hl as [Ha Hb]. rewrite (IHa Ha), (IHb Hb). reflexivity.
Qed.

(* ================================================================== *)
(* 8. non-vacuity                                                       *)

Example ex_esc_string :
  str_replace "path" "\path" "a\path.pathpath" = "a\\path.\path\path" /\
  str_replace "\path" "path" "a\\path.\path\path" = "a\path.pathpath".
Proof. vm_compute. split; reflexivity. Qed.

Definition exE_tree : qtree :=
  QBin BoAnd
    (QBin BoOr
       (* a mapping argument with keys containing "path" (one already containing the escape code); its values are
          written raw *)
       (QLeaf SValue (Q_equal_to (VDict [(VStr "path", VInt 1); (VStr "a", VDict [(VStr "path", VInt 2)]);
                                          (VStr "x\path.len", VNone)])))
       (* escaped mappings as list items / as values of a mapping argument *)
       (QBin BoXor
          (QLeaf SValue (Q_in (VList [VDict [(VStr "mypath", VNone)]; VInt 1; VDict [(VStr "b", VInt 2)]])))
          (QLeaf SKey (Q_not_equal_to (VDict [(VStr "a", VDict [(VStr "path.len", VInt 3)]); (VStr "b", VStr "path")])))))
    (QBin BoAnd
       (QBin BoOr
          (* items_contain with an item name containing "path", and with an escaped mapping as item value *)
          (QLeaf SValue (Q_items_contain [("path", VInt 1); ("a", VDict [(VStr "path", VInt 2)])]))
          (QLeaf SValue (Q_items_contain [("a", VDict [(VStr "path", VInt 1)]); ("b", VList [VInt 1])])))
       (QBin BoAnd
          (* an escaped mapping as a keyword value / a *args argument; a type conversion (as in C11) *)
          (QLeaf SValue (Q_in_range (VDict [(VStr "path", VInt 1)]) (VInt 3)))
          (QBin BoOr (QLeaf SValue (Q_keys_contain_any_of [VDict [(VStr "xpath", VInt 1)]; VStr "path"]))
                     (QLeaf SValueDataType (Q_in (VList [VType TInt; VType TDict])))))).

Example exE_in : tree_in_c11e exE_tree = true /\ tree_in_c11 exE_tree = false.
Proof. vm_compute. split; reflexivity. Qed.

Example exE_json :
  tree_json_e (qnorm exE_tree) =
  VDict [(VStr "and", VList [
    VDict [(VStr "or", VList [
      VDict [(VStr "value.equal_to",
              VDict [(VStr "\path", VInt 1); (VStr "a", VDict [(VStr "path", VInt 2)]); (VStr "x\\path.len", VNone)])];
      VDict [(VStr "xor", VList [
        VDict [(VStr "value.in_", VList [VDict [(VStr "my\path", VNone)]; VInt 1; VDict [(VStr "b", VInt 2)]])];
        VDict [(VStr "key.not_equal_to",
                VDict [(VStr "a", VDict [(VStr "\path.len", VInt 3)]); (VStr "b", VStr "path")])]])]])];
    VDict [(VStr "and", VList [
      VDict [(VStr "or", VList [
        VDict [(VStr "value.items_contain", VDict [(VStr "\path", VInt 1); (VStr "a", VDict [(VStr "path", VInt 2)])])];
        VDict [(VStr "value.items_contain", VDict [(VStr "a", VDict [(VStr "\path", VInt 1)]); (VStr "b", VList [VInt 1])])]])];
      VDict [(VStr "and", VList [
        VDict [(VStr "value.in_range", VDict [(VStr "lower", VDict [(VStr "\path", VInt 1)]); (VStr "upper", VInt 3)])];
        VDict [(VStr "or", VList [
          VDict [(VStr "value.keys_contain_any_of", VList [VDict [(VStr "x\path", VInt 1)]; VStr "path"])];
          VDict [(VStr "value.dtype.in_", VList [VStr "int"; VStr "dict"])]])]])]])]])].
Proof. vm_compute. reflexivity. Qed.

(* the statement of the theorem, evaluated on the example (independently of its proof) *)
Example exE_roundtrip :
  roundtrip (cond_of (qnorm exE_tree)) = Ok (tree_json_e (qnorm exE_tree), true, true, tree_json_e (qnorm exE_tree)).
Proof. vm_compute. reflexivity. Qed.

Example exE_leaves :
  leaf_in_c11e SValue (Q_equal_to (VDict [(VStr "path", VInt 1); (VStr "a", VInt 2)])) = true /\
  leaf_in_c11 SValue (Q_equal_to (VDict [(VStr "path", VInt 1); (VStr "a", VInt 2)])) = false /\
  item3 (VDict [(VStr "mypath", VNone)]) = true /\ plain3 (VDict [(VStr "a", VDict [(VStr "path", VInt 1)])]) = true /\
  sub3 (VDict [(VStr "path", VInt 1)]) = true /\
  q_frag3 (Q_items_contain [("path", VInt 1); ("a", VInt 2)]) = true.
Proof. vm_compute. repeat split. Qed.

(* ================================================================== *)
(* 9. outside the fragment: closed counterexamples                      *)
(*    (components of `roundtrip`: JSON written, json_pure, rebuilt == original, JSON written again) *)

(* (a) REPAIRED finding D49 (it was C11E_counterexample_inner_escape).  For callables with several named
   parameters (in_range, not_in_range, equal_to_approx, keys_contain_*N_of) and for *args callables
   (keys_contain_any_of, allowed_keys, ...), each argument used to be written by _arg_to_json_like AS AN ARGUMENT
   (mappings that are items of a list argument or values of a mapping argument were escaped) while from_spec reads
   those arguments as ITEMS of the keyword mapping / of the argument list (it un-escapes a mapping there, but does
   not look into a list or into the values of a mapping): the inner mapping came back with the escaped key, e.g.
   Python: Value.in_range(lower=[{"path": 1}], upper=3)
           -> to_json_like() was {'value.in_range': {'lower': [{'\\path': 1}], 'upper': 3}}
           -> from_json_like(...) had lower=[{'\\path': 1}]; != the original.
   Now each such argument is written at item level (the inner mappings raw): the three inputs round-trip, and
   they are in the (widened) fragment. *)
Example C11E_inner_escape_repaired :
  roundtrip (L SValue (Q_in_range (VList [VDict [(VStr "path", VInt 1)]]) (VInt 3))) =
    Ok (VDict [(VStr "value.in_range", VDict [(VStr "lower", VList [VDict [(VStr "path", VInt 1)]]); (VStr "upper", VInt 3)])],
        true, true,
        VDict [(VStr "value.in_range", VDict [(VStr "lower", VList [VDict [(VStr "path", VInt 1)]]); (VStr "upper", VInt 3)])]) /\
  roundtrip (L SValue (Q_keys_contain_any_of [VList [VDict [(VStr "path", VInt 1)]]])) =
    Ok (VDict [(VStr "value.keys_contain_any_of", VList [VList [VDict [(VStr "path", VInt 1)]]])], true, true,
        VDict [(VStr "value.keys_contain_any_of", VList [VList [VDict [(VStr "path", VInt 1)]]])]) /\
  roundtrip (L SValue (Q_in_range (VDict [(VStr "a", VDict [(VStr "path", VInt 1)])]) (VInt 3))) =
    Ok (VDict [(VStr "value.in_range", VDict [(VStr "lower", VDict [(VStr "a", VDict [(VStr "path", VInt 1)])]); (VStr "upper", VInt 3)])],
        true, true,
        VDict [(VStr "value.in_range", VDict [(VStr "lower", VDict [(VStr "a", VDict [(VStr "path", VInt 1)])]); (VStr "upper", VInt 3)])]) /\
  (* the argument itself, when it is a mapping with a "path" key, is escaped at its top level only *)
  roundtrip (L SValue (Q_in_range (VDict [(VStr "path", VList [VDict [(VStr "path", VInt 1)]])]) (VInt 3))) =
    Ok (VDict [(VStr "value.in_range", VDict [(VStr "lower", VDict [(VStr "\path", VList [VDict [(VStr "path", VInt 1)]])]); (VStr "upper", VInt 3)])],
        true, true,
        VDict [(VStr "value.in_range", VDict [(VStr "lower", VDict [(VStr "\path", VList [VDict [(VStr "path", VInt 1)]])]); (VStr "upper", VInt 3)])]) /\
  sub3 (VList [VDict [(VStr "path", VInt 1)]]) = true /\
  sub3 (VDict [(VStr "a", VDict [(VStr "path", VInt 1)])]) = true /\
  leaf_in_c11e SValue (Q_in_range (VList [VDict [(VStr "path", VInt 1)]]) (VInt 3)) = true /\
  leaf_in_c11e SValue (Q_keys_contain_any_of [VList [VDict [(VStr "path", VInt 1)]]]) = true /\
  leaf_in_c11e SValue (Q_in_range (VDict [(VStr "a", VDict [(VStr "path", VInt 1)])]) (VInt 3)) = true /\
  leaf_in_c11e SValue (Q_in_range (VDict [(VStr "path", VList [VDict [(VStr "path", VInt 1)]])]) (VInt 3)) = true.
Proof. vm_compute. repeat split. Qed.

(* (a2) D40 for the argument itself of such a callable: hence `okkeys` in sub3.  A mapping argument whose only
   key reads `path[.m[.m]]` NOT in lower case is not escaped but read as a path spec (here: rebuilt as a data-path
   argument).  Python: Value.in_range(lower={"PATH": []}, upper=3). *)
Example C11E_counterexample_upper_path_sub :
  let q := Q_in_range (VDict [(VStr "PATH", VList [])]) (VInt 3) in
  let j := VDict [(VStr "value.in_range", VDict [(VStr "lower", VDict [(VStr "PATH", VList [])]); (VStr "upper", VInt 3)])] in
  cond1_to_json T X (cond_map pyval arg1 ALit (L SValue q)) = Ok j /\
  (let* r := cond1_from_spec T X j in Ok (kwargs_of (snd r))) = Ok [("lower", APath 0 {| pt_parts := []; pt_mods := []; pt_src := None |}); ("upper", ALit (VInt 3))] /\
  sub3 (VDict [(VStr "PATH", VList [])]) = false /\ leaf_in_c11e SValue q = false.
Proof. vm_compute. repeat split. Qed.

(* (b) known finding D40 at item level: a mapping whose only key reads `path[.m[.m]]` NOT in lower case is not
   escaped ("path" in key is case-sensitive) but read as a path spec (key tokens are lower-cased): hence `okkeys`
   in item3 / plain3 / sub3.  Python: Value.in_([{"PATH": []}]) is rebuilt with value=[DataPath()]. *)
Example C11E_counterexample_upper_path_item :
  let q := Q_in (VList [VDict [(VStr "PATH", VList [])]]) in
  let j := VDict [(VStr "value.in_", VList [VDict [(VStr "PATH", VList [])]])] in
  cond1_to_json T X (cond_map pyval arg1 ALit (L SValue q)) = Ok j /\
  (let* r := cond1_from_spec T X j in Ok (kwargs_of (snd r))) = Ok [("value", ALit (VList [VObj 0]))] /\
  item3 (VDict [(VStr "PATH", VList [])]) = false /\ leaf_in_c11e SValue q = false.
Proof. vm_compute. repeat split. Qed.

(* ================================================================== *)
(* Coverage.  C11E_roundtrip_eq = C11_roundtrip_eq on a larger fragment (tree_c11_in_c11e: every tree of C11 is
   in it, with the same JSON).  New w.r.t. C11, where no type conversion applies (casts c q = false):
   - one-parameter callables (plain3): a mapping argument some key of which contains "path" (any values; keys
     already containing "\path" included); mapping items of a list argument / mapping values of a mapping
     argument that are escaped (item3);
   - callables with several named parameters and *args callables (sub3 = item3, WIDENED after the repair of D49):
     an escaped mapping as argument; lists / mappings with ANY inner mappings (they are written and read raw);
   - items_contain( **items ): item names containing "path" (any names, any values), or otherwise item values
     at item level (item3).
   The serialiser lemmas (val_to_json_wr, args_json_q3, leaf_to_json3) hold for ALL JSON arguments.
   Still excluded:
   (b) single-key `PATH[.m[.m]]` mappings in a not lower-case spelling (D40); tuples and non-JSON values; trees
   deeper than 40; data-path arguments; under a type conversion the fragment is that of C11. *)

Print Assumptions unesc_esc.
Print Assumptions contains_esc.
Print Assumptions contains_esc_inv.
Print Assumptions unescape_escape_map.
Print Assumptions C11E_arg.
Print Assumptions C11E_leaf.
Print Assumptions C11E_roundtrip_eq.
Print Assumptions C11E_roundtrip.
Print Assumptions tree_c11_in_c11e.
Print Assumptions fold_dict_put_id.
