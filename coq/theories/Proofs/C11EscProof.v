From Coq Require Import ZArith NArith List Bool String Ascii Lia.
From Valida Require Import Py Lang Defs Cond Dsl Check DocSem Path Cast Str SpecDefs RuleDefs RuleTerms
  Spec SpecIO SpecSpell Eq Inst RunSpec.
From Valida.Proofs Require Import PyFacts Tie C01Proof C02Proof RuleProof C09Proof C11Proof.
From Valida Require Import Rule SpecSpell.
Import ListNotations.
Local Open Scope string_scope.
Local Open Scope list_scope.

(* 1. strings *)
Lemma str_drop_length n : forall s, String.length (str_drop n s) <= String.length s.
Proof.
  induction n as [|n IH]; intros s; [apply Nat.le_refl|].
  destruct s as [|c r]; cbn [str_drop String.length]; [apply Nat.le_refl|].
  specialize (IH r). lia.
Qed.

Lemma replace_aux_S f old new c r :
  str_replace_aux (S f) old new (String c r) =
  if String.prefix old (String c r)
  then (new ++ str_replace_aux f old new (str_drop (String.length old) (String c r)))%string
  else String c (str_replace_aux f old new r).
Proof. reflexivity. Qed.

Lemma replace_aux_nil f old new : str_replace_aux f old new "" = "".
Proof. destruct f; reflexivity. Qed.

Lemma replace_aux_fuel a o new : forall f f' s,
  String.length s <= f -> String.length s <= f' ->
  str_replace_aux f (String a o) new s = str_replace_aux f' (String a o) new s.
Proof.
  induction f as [|f IH]; intros f' s H1 H2.
  - destruct s as [|c r]; [rewrite !replace_aux_nil; reflexivity|cbn [String.length] in H1; lia].
  - destruct s as [|c r]; [rewrite !replace_aux_nil; reflexivity|].
    destruct f' as [|f']; [cbn [String.length] in H2; lia|].
    cbn [String.length] in H1, H2.
    rewrite !replace_aux_S. destruct (String.prefix (String a o) (String c r)).
    + f_equal. cbn [String.length str_drop].
      pose proof (str_drop_length (String.length o) r).
      apply IH; lia.
    + f_equal. apply IH; lia.
Qed.

Lemma replace_unfold a o new c r :
  str_replace (String a o) new (String c r) =
  if String.prefix (String a o) (String c r)
  then (new ++ str_replace (String a o) new (str_drop (String.length o) r))%string
  else String c (str_replace (String a o) new r).
Proof.
  unfold str_replace. change (String.length (String c r)) with (S (String.length r)).
  rewrite replace_aux_S. destruct (String.prefix (String a o) (String c r)).
  - f_equal. cbn [String.length str_drop]. pose proof (str_drop_length (String.length o) r).
    apply replace_aux_fuel; lia.
  - reflexivity.
Qed.

Lemma replace_nil a o new : str_replace (String a o) new "" = "".
Proof. reflexivity. Qed.

Definition esc (k : string) : string := str_replace "path" "\path" k.
Definition unesc (k : string) : string := str_replace "\path" "path" k.

Lemma esc_unfold c r :
  esc (String c r) = if String.prefix "path" (String c r) then ("\path" ++ esc (str_drop 3 r))%string
                     else String c (esc r).
Proof. exact (replace_unfold _ _ _ c r). Qed.

Lemma unesc_unfold c r :
  unesc (String c r) = if String.prefix "\path" (String c r) then ("path" ++ unesc (str_drop 4 r))%string
                       else String c (unesc r).
Proof. exact (replace_unfold _ _ _ c r). Qed.

Lemma prefix_split p : forall s, String.prefix p s = true -> s = (p ++ str_drop (String.length p) s)%string.
Proof.
  induction p as [|a p IH]; intros s H; [reflexivity|].
  destruct s as [|c r]; [discriminate H|]. cbn [String.prefix] in H.
  destruct (ascii_dec a c) as [->|]; [|discriminate H].
  cbn [String.length str_drop append]. f_equal. exact (IH r H).
Qed.

Lemma prefix_cons a p c r : String.prefix (String a p) (String c r) = (Ascii.eqb a c && String.prefix p r).
Proof.
  cbn [String.prefix]. destruct (ascii_dec a c) as [->|n].
  - rewrite Ascii.eqb_refl. reflexivity.
  - apply Ascii.eqb_neq in n. rewrite n. reflexivity.
Qed.

Lemma prefix_nil s : String.prefix "" s = true.
Proof. destruct s; reflexivity. Qed.

Definition bs : ascii := "\"%char.
Fixpoint nobs (w : string) : bool :=
  match w with EmptyString => true | String a r => negb (Ascii.eqb a bs) && nobs r end.

Lemma prefix_esc w : forall s, nobs w = true -> String.prefix w (esc s) = true -> String.prefix w s = true.
Proof.
  induction w as [|a w IH]; intros s Hn H; [apply prefix_nil|].
  cbn [nobs] in Hn. apply andb_true_iff in Hn as [Ha Hn]. apply negb_true_iff in Ha.
  destruct s as [|c r]; [discriminate H|].
  rewrite esc_unfold in H. destruct (String.prefix "path" (String c r)) eqn:E.
  - cbn [append] in H. rewrite prefix_cons in H. fold bs in H. rewrite Ha in H. discriminate H.
  - rewrite prefix_cons in H. apply andb_true_iff in H as [H1 H2].
    rewrite prefix_cons, H1, (IH r Hn H2). reflexivity.
Qed.

Lemma unesc_bs_path x : unesc ("\path" ++ x) = ("path" ++ unesc x)%string.
Proof.
  change ("\path" ++ x)%string with (String "\" ("path" ++ x)%string).
  rewrite unesc_unfold. cbn [append]. rewrite !prefix_cons, prefix_nil. reflexivity.
Qed.

Lemma unesc_esc_len : forall n k, String.length k <= n -> unesc (esc k) = k.
Proof.
  induction n as [|n IH]; intros k Hl.
  - destruct k; [reflexivity|cbn [String.length] in Hl; lia].
  - destruct k as [|c r]; [reflexivity|]. cbn [String.length] in Hl.
    rewrite esc_unfold. destruct (String.prefix "path" (String c r)) eqn:E.
    + apply prefix_split in E. change (str_drop (String.length "path") (String c r)) with (str_drop 3 r) in E.
      assert (Hk : String.length (str_drop 3 r) <= n) by (pose proof (str_drop_length 3 r); lia).
      rewrite unesc_bs_path, (IH _ Hk). symmetry. exact E.
    + rewrite unesc_unfold.
      assert (Hp : String.prefix "\path" (String c (esc r)) = false).
      { rewrite prefix_cons. destruct (Ascii.eqb "\" c) eqn:Ec; [|reflexivity]. cbn [andb].
        destruct (String.prefix "path" (esc r)) eqn:E2; [|reflexivity].
        pose proof (prefix_esc "path" r eq_refl E2) as E3.
        destruct r as [|c2 r2]; [discriminate E3|]. rewrite esc_unfold, E3 in E2. discriminate E2. }
      rewrite Hp. f_equal. apply IH. lia.
Qed.

Theorem unesc_esc k : str_replace "\path" "path" (str_replace "path" "\path" k) = k.
Proof. exact (unesc_esc_len (String.length k) k (Nat.le_refl _)). Qed.

Lemma contains_cons n c r : str_contains n (String c r) = String.prefix n (String c r) || str_contains n r.
Proof. reflexivity. Qed.

Lemma prefix_bs_path x : String.prefix "\path" ("\path" ++ x)%string = true.
Proof. cbn [append]. rewrite !prefix_cons, prefix_nil. reflexivity. Qed.

Theorem contains_esc k : str_contains "path" k = true -> str_contains "\path" (str_replace "path" "\path" k) = true.
Proof.
  fold (esc k). induction k as [|c r IH]; intros H; [discriminate H|].
  rewrite contains_cons in H. rewrite esc_unfold.
  destruct (String.prefix "path" (String c r)) eqn:E.
  - apply prefix_contains. apply prefix_bs_path.
  - cbn [orb] in H. rewrite contains_cons, (IH H). apply orb_true_r.
Qed.

Theorem contains_esc_inv k : str_contains "\path" (str_replace "path" "\path" k) = true -> str_contains "path" k = true.
Proof.
  fold (esc k). induction k as [|c r IH]; intros H; [discriminate H|].
  rewrite contains_cons. destruct (String.prefix "path" (String c r)) eqn:E; [reflexivity|].
  rewrite esc_unfold, E, contains_cons in H. cbn [orb]. apply orb_true_iff in H as [H|H].
  - rewrite prefix_cons in H. apply andb_true_iff in H as [_ H].
    exact (prefix_contains _ _ (prefix_esc "path" r eq_refl H)).
  - exact (IH H).
Qed.

(* a key without "path" is written as it is *)
Lemma esc_nopath k : str_contains "path" k = false -> str_replace "path" "\path" k = k.
Proof.
  fold (esc k). induction k as [|c r IH]; intros H; [reflexivity|].
  rewrite contains_cons in H. apply orb_false_iff in H as [E H].
  rewrite esc_unfold, E, (IH H). reflexivity.
Qed.

Lemma nopath_noesc k : str_contains "path" k = false -> str_contains "\path" k = false.
Proof.
  intros H. destruct (str_contains "\path" k) eqn:E; [|reflexivity].
  rewrite (str_contains_tail _ _ _ E) in H. discriminate H.
Qed.

(* ================================================================== *)
(* 2. mappings *)

Definition esc_kv (kv : pyval * pyval) : pyval * pyval :=
  match fst kv with VStr k => (VStr (str_replace "path" "\path" k), snd kv) | _ => kv end.

Lemma escape_map_eq d : escape_map d = if has_path_key d then VDict (map esc_kv d) else VDict d.
Proof. reflexivity. Qed.

Lemma app_snoc {Y} (l : list Y) a r : (l ++ [a]) ++ r = l ++ a :: r.
Proof. rewrite <- app_assoc. reflexivity. Qed.

Lemma unescape_escaped d : forall keep moved found,
  unescape_keys (map esc_kv d) keep moved found = Ok ((keep ++ d) ++ moved, found || has_path_key d).
Proof.
  induction d as [|[k v] r IH]; intros keep moved found.
  - cbn [map unescape_keys has_path_key]. rewrite app_nil_r, orb_false_r. reflexivity.
  - destruct k as [ | b | z | n m e | s | l | l | d' | t | t ];
      try (cbn [map esc_kv fst snd unescape_keys has_path_key]; rewrite IH, app_snoc; reflexivity).
    cbn [map esc_kv fst snd unescape_keys has_path_key]. unfold esc_code.
    destruct (str_contains "path" s) eqn:E.
    + rewrite (contains_esc s E), unesc_esc, IH, app_snoc. cbn [orb]. rewrite orb_true_r. reflexivity.
    + rewrite (esc_nopath s E), (nopath_noesc s E), IH, app_snoc. reflexivity.
Qed.

Theorem unescape_escape_map d : has_path_key d = true ->
  escape_map d = VDict (map esc_kv d) /\ unescape_keys (map esc_kv d) [] [] false = Ok (d, true).
Proof.
  intros H. split; [rewrite escape_map_eq, H; reflexivity|].
  rewrite unescape_escaped, H, app_nil_r. reflexivity.
Qed.

Lemma has_path_key_nonnil d : has_path_key d = true -> d <> [].
Proof. intros H ->. discriminate H. Qed.

(* the escaped mapping is recognised by DataPath.from_spec as an escaped literal and handed back un-escaped *)
Lemma pfs_escaped d : has_path_key d = true -> pfs (escape_map d) = Ok (inr (VDict d)).
Proof.
  intros H. destruct (unescape_escape_map d H) as [E1 E2]. rewrite E1.
  destruct d as [|kv r]; [discriminate H|].
  unfold path_from_spec, path_from_spec0. cbn [map] in *. destruct (esc_kv kv) as [k0 v0].
  rewrite E2. reflexivity.
Qed.

Theorem val_to_json_escaped cast d : has_path_key d = true -> val_to_json X cast (VDict d) = Ok (escape_map d).
Proof. intros H. unfold val_to_json. rewrite H. reflexivity. Qed.

Definition jp_ents := fix go (d : list (pyval * pyval)) : bool :=
  match d with [] => true | (VStr _, x) :: r => json_pure x && go r | _ => false end.
Lemma json_pure_dict d : json_pure (VDict d) = jp_ents d.
Proof. reflexivity. Qed.

Lemma jp_ents_esc d : jp_ents (map esc_kv d) = jp_ents d.
Proof.
  induction d as [|[k v] r IH]; [reflexivity|].
  destruct k; try reflexivity. cbn [map esc_kv fst snd jp_ents]. rewrite IH. reflexivity.
Qed.

Theorem json_pure_escape_map d : json_pure (escape_map d) = json_pure (VDict d).
Proof.
  rewrite escape_map_eq. destruct (has_path_key d); [|reflexivity]. rewrite !json_pure_dict. apply jp_ents_esc.
Qed.

Theorem coerce_escaped d : has_path_key d = true ->
  coerce pfs (escape_map d) = Ok (CDict (map inr_kv d)) /\ cval (CDict (map inr_kv d)) = ALit (VDict d).
Proof.
  intros H. split.
  - pose proof (pfs_escaped d H) as E. destruct (unescape_escape_map d H) as [E1 _]. rewrite E1 in *.
    unfold coerce. rewrite E. reflexivity.
  - cbn [coerced_val]. rewrite item_val_inr_kv. reflexivity.
Qed.

Theorem C11E_arg : forall d,
  has_path_key d = true -> json_pure (VDict d) = true ->
  val_to_json X false (VDict d) = Ok (escape_map d) /\ json_pure (escape_map d) = true /\
  exists cv, coerce pfs (escape_map d) = Ok cv /\ cval cv = ALit (VDict d).
Proof.
  intros d H Hj. split; [exact (val_to_json_escaped false d H)|].
  split; [rewrite json_pure_escape_map; exact Hj|].
  destruct (coerce_escaped d H) as [E1 E2]. eexists. split; [exact E1|exact E2].
Qed.

(* ================================================================== *)
(* 3. what the serialiser writes for JSON values (no type conversion)   *)

Definition wr_item (v : pyval) : pyval := match v with VDict d => escape_map d | _ => v end.
Definition wr_vals (d : list (pyval * pyval)) : list (pyval * pyval) := map (fun kv => (fst kv, wr_item (snd kv))) d.
Definition wr (v : pyval) : pyval :=
  match v with
  | VList l => VList (map wr_item l)
  | VDict d => if has_path_key d then escape_map d else VDict (wr_vals d)
  | _ => v
  end.

Lemma item_to_json_wr v : json_pure v = true -> item_to_json X false v = Ok (wr_item v).
Proof. destruct v; try discriminate; reflexivity. Qed.

Lemma mapM_item_wr l : forallb json_pure l = true -> mapM (item_to_json X false) l = Ok (map wr_item l).
Proof.
  induction l as [|v l IH]; cbn [forallb mapM map]; [reflexivity|].
  intros H. apply andb_true_iff in H as [Hv Hl]. rewrite (item_to_json_wr v Hv), (IH Hl). reflexivity.
Qed.

Lemma mapM_kv_wr d : forallb json_pure (map snd d) = true ->
  mapM (fun kv : pyval * pyval => let* x := item_to_json X false (snd kv) in Ok (fst kv, x)) d = Ok (wr_vals d).
Proof.
  unfold wr_vals. induction d as [|[k v] r IH]; cbn [map snd forallb mapM fst]; [reflexivity|].
  intros H. apply andb_true_iff in H as [Hv Hr]. rewrite (item_to_json_wr v Hv). cbn [bind]. rewrite (IH Hr). reflexivity.
Qed.

(* every JSON value is written (no fragment condition) *)
Lemma val_to_json_wr v : json_pure v = true -> val_to_json X false v = Ok (wr v).
Proof.
  destruct v; try discriminate; intros Hj; try reflexivity.
  - rewrite json_pure_list in Hj. unfold val_to_json. rewrite (mapM_item_wr l Hj). reflexivity.
  - unfold val_to_json. cbn [wr]. destruct (has_path_key d); [reflexivity|].
    rewrite (mapM_kv_wr d (json_pure_dict_vals d Hj)). reflexivity.
Qed.

Lemma json_pure_wr_item v : json_pure v = true -> json_pure (wr_item v) = true.
Proof. destruct v; try discriminate; try reflexivity; intros H; try exact H. cbn [wr_item]. rewrite json_pure_escape_map. exact H. Qed.

Lemma jp_ents_wr d : jp_ents d = true -> jp_ents (wr_vals d) = true.
Proof.
  unfold wr_vals. induction d as [|[k v] r IH]; [reflexivity|]. destruct k; try discriminate.
  cbn [map fst snd jp_ents]. intros H. apply andb_true_iff in H as [Hv Hr].
  rewrite (json_pure_wr_item v Hv). exact (IH Hr).
Qed.

Lemma json_pure_wr v : json_pure v = true -> json_pure (wr v) = true.
Proof.
  destruct v; try discriminate; try reflexivity; intros H; try exact H.
  - cbn [wr]. rewrite json_pure_list in *. induction l as [|x l IH]; [reflexivity|].
    cbn [map forallb] in *. apply andb_true_iff in H as [Hx Hl]. rewrite (json_pure_wr_item x Hx). exact (IH Hl).
  - cbn [wr]. destruct (has_path_key d); [rewrite json_pure_escape_map; exact H|].
    rewrite json_pure_dict in *. exact (jp_ents_wr d H).
Qed.

(* ================================================================== *)
(* 4. what from_spec does with it                                       *)

(* list items / mapping values of an argument: a mapping is either escaped (some key contains "path")
   or as in C11 (okkeys) *)
Definition item3 (v : pyval) : bool := match v with VDict d => has_path_key d || okkeys d | _ => true end.
(* a single argument *)
Definition plain3 (v : pyval) : bool :=
  match v with
  | VDict d => has_path_key d || (okkeys d && forallb item3 (map snd d))
  | VList l | VTuple l => forallb item3 l
  | _ => true
  end.

Lemma try_path_wr_item v : item3 v = true -> try_path pfs (wr_item v) = Ok (inr v).
Proof.
  destruct v; try (intros _; apply try_path_item2; reflexivity).
  cbn [item3 wr_item]. destruct (has_path_key d) eqn:E; cbn [orb]; intros H.
  - unfold try_path. rewrite (pfs_escaped d E). reflexivity.
  - rewrite (escape_map_okkeys d H). apply try_path_item2. exact H.
Qed.

Lemma coerce_items_wr l : forallb item3 l = true -> coerce_items pfs (map wr_item l) = Ok (map inr l).
Proof.
  induction l as [|v l IH]; cbn [forallb coerce_items map]; [reflexivity|].
  intros H. apply andb_true_iff in H as [Hv Hl]. rewrite (try_path_wr_item v Hv), (IH Hl). reflexivity.
Qed.

Lemma coerce_kvs_wr d : forallb item3 (map snd d) = true -> coerce_kvs pfs (wr_vals d) = Ok (map inr_kv d).
Proof.
  unfold wr_vals. induction d as [|[k v] r IH]; cbn [map fst snd forallb coerce_kvs]; [reflexivity|].
  intros H. apply andb_true_iff in H as [Hv Hr]. rewrite (try_path_wr_item v Hv). cbn [bind]. rewrite (IH Hr). reflexivity.
Qed.

(* okkeys looks at the keys only *)
Lemma unskv_map_vals (f : pyval -> pyval) d :
  unskv (map (fun kv => (fst kv, f (snd kv))) d) = map (fun kv => (fst kv, f (snd kv))) (unskv d).
Proof. unfold unskv. rewrite !map_map. reflexivity. Qed.

Lemma okkeys_map_vals (f : pyval -> pyval) d : okkeys (map (fun kv => (fst kv, f (snd kv))) d) = okkeys d.
Proof.
  unfold okkeys. f_equal; [f_equal|].
  - unfold str_keys. induction d as [|[k v] r IH]; [reflexivity|]. cbn [map forallb fst]. rewrite IH. reflexivity.
  - unfold unskv. induction d as [|[k v] r IH]; [reflexivity|]. cbn [map forallb fst snd]. rewrite IH. reflexivity.
  - f_equal. destruct d as [|[k v] [|kv2 r]]; reflexivity.
Qed.

Lemma not_tuple_pure v : json_pure v = true -> match v with VTuple _ => False | _ => True end.
Proof. destruct v; try discriminate; exact (fun _ => I). Qed.

Lemma coerce_wr v : json_pure v = true -> plain3 v = true -> exists cv, coerce pfs (wr v) = Ok cv /\ cval cv = ALit v.
Proof.
  intros Hj H. destruct v; try discriminate Hj; try (eexists; split; reflexivity).
  - cbn [plain3] in H. exists (CSeq false (map inr l)). split.
    + cbn [wr coerce]. rewrite (coerce_items_wr l H). reflexivity.
    + cbn [coerced_val]. rewrite item_val_inr. reflexivity.
  - cbn [plain3 wr] in *. destruct (has_path_key d) eqn:E; cbn [orb] in H.
    + destruct (coerce_escaped d E) as [E1 E2]. eexists. split; [exact E1|exact E2].
    + apply andb_true_iff in H as [Hk Hv]. exists (CDict (map inr_kv d)). split.
      * unfold coerce. rewrite pfs_okmap by (unfold wr_vals; rewrite okkeys_map_vals; exact Hk).
        rewrite (coerce_kvs_wr d Hv). reflexivity.
      * cbn [coerced_val]. rewrite item_val_inr_kv. reflexivity.
Qed.

(* values of a keyword mapping of a callable with several named parameters, and the arguments of a *args
   callable: WRITTEN as arguments (mapping items of a list / mapping values of a mapping are escaped) but READ
   by from_spec as items (it does not look into a list or into the values of a mapping there): the escaped
   inner mappings are not un-escaped -- see C11E_counterexample_inner_escape.  So: no inner mapping with a
   key containing "path". *)
Definition noesc (v : pyval) : bool := match v with VDict d => negb (has_path_key d) | _ => true end.
Definition sub3 (v : pyval) : bool :=
  match v with
  | VDict d => has_path_key d || (okkeys d && forallb noesc (map snd d))
  | VList l | VTuple l => forallb noesc l
  | _ => true
  end.

Lemma wr_item_noesc v : noesc v = true -> wr_item v = v.
Proof.
  destruct v; try reflexivity. cbn [noesc wr_item]. intros H. apply negb_true_iff in H.
  rewrite escape_map_eq, H. reflexivity.
Qed.

Lemma map_wr_item_noesc l : forallb noesc l = true -> map wr_item l = l.
Proof.
  induction l as [|v l IH]; cbn [forallb map]; [reflexivity|].
  intros H. apply andb_true_iff in H as [Hv Hl]. rewrite (wr_item_noesc v Hv), (IH Hl). reflexivity.
Qed.

Lemma wr_vals_noesc d : forallb noesc (map snd d) = true -> wr_vals d = d.
Proof.
  unfold wr_vals. induction d as [|[k v] r IH]; cbn [forallb map fst snd]; [reflexivity|].
  intros H. apply andb_true_iff in H as [Hv Hr]. rewrite (wr_item_noesc v Hv), (IH Hr). reflexivity.
Qed.

Lemma try_path_wr_sub v : sub3 v = true -> try_path pfs (wr v) = Ok (inr v).
Proof.
  destruct v; try (intros _; apply try_path_item2; reflexivity).
  - cbn [sub3 wr]. intros H. rewrite (map_wr_item_noesc l H). apply try_path_item2. reflexivity.
  - cbn [sub3 wr]. destruct (has_path_key d) eqn:E; cbn [orb]; intros H.
    + unfold try_path. rewrite (pfs_escaped d E). reflexivity.
    + apply andb_true_iff in H as [Hk Hv]. rewrite (wr_vals_noesc d Hv). apply try_path_item2. exact Hk.
Qed.

Lemma coerce_items_sub l : forallb sub3 l = true -> coerce_items pfs (map wr l) = Ok (map inr l).
Proof.
  induction l as [|v l IH]; cbn [forallb coerce_items map]; [reflexivity|].
  intros H. apply andb_true_iff in H as [Hv Hl]. rewrite (try_path_wr_sub v Hv), (IH Hl). reflexivity.
Qed.

Definition kw_map (f : pyval -> pyval) (items : list (string * pyval)) : list (string * pyval) :=
  map (fun kv => (fst kv, f (snd kv))) items.

Lemma items_ok_kw_map f items : items_ok (kw_map f items) = items_ok items.
Proof.
  unfold items_ok, kw_map. f_equal.
  - induction items as [|[k v] r IH]; [reflexivity|]. cbn [map forallb fst]. rewrite IH. reflexivity.
  - f_equal. destruct items as [|[k v] [|kv2 r]]; reflexivity.
Qed.

Lemma coerce_kvs_kw (f : pyval -> pyval) items :
  (forall kv, In kv items -> try_path pfs (f (snd kv)) = Ok (inr (snd kv))) ->
  coerce_kvs pfs (map skv (kw_map f items)) = Ok (map (fun kv => (VStr (fst kv), inr (snd kv))) items).
Proof.
  unfold kw_map. induction items as [|[k v] r IH]; intros H; [reflexivity|].
  cbn [map skv fst snd coerce_kvs]. pose proof (H (k, v) (or_introl eq_refl)) as Hv. cbn [snd] in Hv. rewrite Hv. cbn [bind].
  change (map (fun kv : string * pyval => (VStr (fst kv), snd kv))) with (map skv).
  rewrite IH by (intros kv Hin; apply H; right; exact Hin). reflexivity.
Qed.

Lemma coerce_kwd_f f items : items_ok items = true ->
  (forall kv, In kv items -> try_path pfs (f (snd kv)) = Ok (inr (snd kv))) ->
  coerce pfs (kwd (kw_map f items)) = Ok (CDict (map (fun kv => (VStr (fst kv), inr (snd kv))) items)).
Proof.
  intros Hok Hv. unfold kwd. change (fun kv : string * pyval => (VStr (fst kv), snd kv)) with skv.
  unfold coerce. rewrite pfs_kwd by (rewrite items_ok_kw_map; exact Hok).
  rewrite (coerce_kvs_kw f items Hv). reflexivity.
Qed.

Lemma forallb_In {Y} (p : Y -> bool) l x : forallb p l = true -> In x l -> p x = true.
Proof. intros H Hin. rewrite forallb_forall in H. exact (H x Hin). Qed.

Print Assumptions unesc_esc.
Print Assumptions C11E_arg.
