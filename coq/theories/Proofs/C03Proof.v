(* C03: the model of DataPath(parts...).mods().get_data(data, return_paths) equals the
   specification (the part-by-part walk), construction errors included. *)
From Coq Require Import ZArith NArith List Bool String Lia.
From Valida Require Import Py Lang Defs Cond Dsl Check DocSem Path PathSpec Inst Run.
From Valida.Proofs Require Import PyFacts Tie C01Proof C02Proof.
Import ListNotations.
Local Open Scope string_scope.
Local Open Scope list_scope.

(* ------------------------------------------------------------------ *)
(* small list facts                                                     *)

Lemma select_filter {X} (f : X -> bool) (l : list X) : select l (map f l) = filter f l.
Proof.
  induction l as [|x l IH]; cbn [select map filter]; [reflexivity|].
  rewrite IH. destruct (f x); reflexivity.
Qed.

Lemma combine_fst_snd {X Y} (l : list (X * Y)) : combine (map fst l) (map snd l) = l.
Proof. induction l as [|[a b] l IH]; cbn; [reflexivity|]. rewrite IH. reflexivity. Qed.

Lemma mapM_map {X Y Z} (g : X -> Y) (f : Y -> res Z) l : mapM f (map g l) = mapM (fun x => f (g x)) l.
Proof. induction l as [|x l IH]; cbn [map mapM]; [reflexivity|]. rewrite IH. reflexivity. Qed.

Lemma mapM_ext {X Y} (f g : X -> res Y) l : (forall x, f x = g x) -> mapM f l = mapM g l.
Proof. intros H. induction l as [|x l IH]; cbn [mapM]; [reflexivity|]. rewrite H, IH. reflexivity. Qed.

(* ------------------------------------------------------------------ *)
(* C. the level-by-level loop is the recursive walk                     *)

Definition frontier := list (list pyval * pyval).

(* one level of the spec: every frontier node replaced by its selected children *)
Definition step (sp : spart) (fr : frontier) : frontier :=
  flat_map (fun pn => map (fun kv => (fst pn ++ [fst kv], snd kv)) (children sp (snd pn))) fr.

Definition wk (sps : list spart) (fr : frontier) : frontier :=
  flat_map (fun pn => walk sps (fst pn) (snd pn)) fr.

(* the concrete path the code attaches to the idx-th node of the level agrees with the frontier *)
Fixpoint aligned (first : bool) (idx : nat) (all_paths : list (list pyval)) (rest : frontier) : Prop :=
  match rest with
  | [] => True
  | pn :: r => (if first then [] else nth idx all_paths []) = fst pn /\ aligned first (S idx) all_paths r
  end.

Lemma aligned_self_gen (done rest : frontier) :
  aligned false (List.length done) (map fst (done ++ rest)) rest.
Proof.
  revert done. induction rest as [|pn rest IH]; intros done; cbn [aligned]; [exact I|].
  split.
  - rewrite map_app. cbn [map]. rewrite <- (map_length fst done). apply nth_middle.
  - specialize (IH (done ++ [pn])). rewrite <- app_assoc in IH. cbn [app] in IH.
    rewrite app_length in IH. cbn [List.length] in IH. rewrite Nat.add_1_r in IH. exact IH.
Qed.

Lemma aligned_self (fr : frontier) : aligned false 0 (map fst fr) fr.
Proof. exact (aligned_self_gen [] fr). Qed.

(* what Part B establishes for one part: the filter of the model part on a node is the
   children selected by the spec part; a part that does not apply is a TypeError (skipped) *)
Definition filter_rel (sp : spart) (p : part pyval) : Prop :=
  forall node, part_filter T res0 p node = Ok (children sp node) \/
               (part_filter T res0 p node = Err TypeError /\ children sp node = []).

Lemma level_spec sp p paths first all_paths :
  filter_rel sp p ->
  forall (rest : frontier) idx,
    aligned first idx all_paths rest ->
    level T res0 p (map snd rest) paths first idx all_paths =
    Ok (map snd (step sp rest), map fst (step sp rest)).
Proof.
  intros Hpf. induction rest as [|[cp nd] rest IH]; intros idx Hal.
  - reflexivity.
  - cbn [aligned fst] in Hal. destruct Hal as [Hcp Hal]. specialize (IH (S idx) Hal).
    cbn [map snd level]. unfold step. cbn [flat_map fst snd]. fold (step sp rest).
    destruct (Hpf nd) as [E|[E Hnil]]; rewrite E.
    + rewrite IH. cbn [bind]. rewrite !map_app, !map_map. cbn [fst snd].
      f_equal. f_equal. f_equal.
      destruct first; rewrite <- Hcp; reflexivity.
    + rewrite IH, Hnil. reflexivity.
Qed.

Lemma wk_step sp sps fr : wk sps (step sp fr) = wk (sp :: sps) fr.
Proof.
  unfold wk, step. induction fr as [|[cp nd] fr IH]; cbn [flat_map]; [reflexivity|].
  rewrite flat_map_app, IH. f_equal. cbn [fst snd walk].
  induction (children sp nd) as [|kv l IHl]; cbn [map flat_map fst snd]; [reflexivity|].
  rewrite IHl. reflexivity.
Qed.

Lemma walk_parts_spec sps ps :
  Forall2 filter_rel sps ps ->
  forall (fr : frontier),
    walk_parts T res0 ps false (map snd fr) (map fst fr) = Ok (map snd (wk sps fr), map fst (wk sps fr)).
Proof.
  induction 1 as [|sp p sps ps Hp Hps IH]; intros fr.
  - cbn [walk_parts]. unfold wk. cbn [walk].
    assert (E : flat_map (fun pn : list pyval * pyval => [(fst pn, snd pn)]) fr = fr).
    { induction fr as [|[cp nd] fr IHf]; cbn [flat_map fst snd app]; [reflexivity|]. rewrite IHf. reflexivity. }
    rewrite E. reflexivity.
  - cbn [walk_parts]. rewrite (level_spec sp p (map fst fr) false (map fst fr) Hp fr 0 (aligned_self fr)).
    cbn [bind]. rewrite IH, wk_step. reflexivity.
Qed.

(* the loop as get_data starts it: frontier [doc], no paths yet *)
Lemma walk_parts_first sps ps doc :
  Forall2 filter_rel sps ps -> ps <> [] ->
  walk_parts T res0 ps true [doc] [] = Ok (map snd (walk sps [] doc), map fst (walk sps [] doc)).
Proof.
  intros H Hne. destruct H as [|sp p sps ps Hp Hps]; [contradiction Hne; reflexivity|].
  cbn [walk_parts].
  assert (Hal : aligned true 0 [] [([], doc)]) by (cbn; auto).
  change [doc] with (map snd [(@nil pyval, doc)]).
  rewrite (level_spec sp p [] true [] Hp [([], doc)] 0 Hal).
  cbn [bind]. rewrite (walk_parts_spec sps ps Hps), wk_step.
  unfold wk. cbn [flat_map fst snd]. rewrite app_nil_r. reflexivity.
Qed.

(* ------------------------------------------------------------------ *)
(* D. get_data on a path related to a spec path                         *)

Definition sdt_to (d : sdt) : datum_type :=
  match d with SdNone => DtNone | SdDtype => DtDtype | SdLength => DtLength | SdMapKeys => DtMapKeys | SdMapValues => DtMapValues end.
Definition smt_to (m : smt) : multi_type :=
  match m with SmNone => MtNone | SmFirst => MtFirst | SmLast => MtLast | SmSingle => MtSingle | SmAll => MtAll | SmAny => MtAny end.

Definition path_rel (sp : spath) (p : dpath pyval) : Prop :=
  Forall2 filter_rel (sp_parts sp) (p_parts p) /\
  p_concrete p = sp_concrete sp /\ p_dt p = sdt_to (sp_dt sp) /\ p_mt p = smt_to (sp_mt sp) /\ p_src p = sp_src sp.

Lemma extract_dt_spec dt v : extract_dt (sdt_to dt) v = spec_dt dt v.
Proof. destruct dt; reflexivity. Qed.

Lemma match_multi_spec sp p out :
  p_concrete p = sp_concrete sp -> p_mt p = smt_to (sp_mt sp) -> match_multi pyval p out = spec_multi sp out.
Proof.
  intros Hc Hm. unfold match_multi, spec_multi, last_opt. rewrite Hm, Hc.
  destruct (sp_mt sp); cbn [smt_to]; try reflexivity.
  destruct (rev out); reflexivity.
Qed.

Lemma map_snd_nil {X Y} (l : list (X * Y)) : map snd l = [] -> l = [].
Proof. destruct l; [reflexivity|discriminate]. Qed.

Lemma get_data_spec sp p data rp : path_rel sp p -> get_data T res0 p data rp = spec_get_data sp data rp.
Proof.
  intros (Hparts & Hc & Hdt & Hmt & Hsrc).
  unfold get_data, spec_get_data. rewrite Hsrc.
  set (dd := match data with Some d => if py_truthy d then Ok d else Err ValueError | None => Err ValueError end).
  set (od := match data with Some d => if py_truthy d then Some d else None | None => None end).
  assert (Hdd : dd = match od with Some d => Ok d | None => Err ValueError end).
  { unfold dd, od. destruct data as [d|]; [destruct (py_truthy d)|]; reflexivity. }
  assert (Hdoc : forall doc,
    match p_parts p with
    | [] => let* v := extract_dt (p_dt p) doc in Ok (if rp then VTuple [v; VTuple []] else v)
    | _ :: _ =>
        let* (nodes, paths) := walk_parts T res0 (p_parts p) true [doc] [] in
        match nodes with
        | [] => Ok (if p_concrete p then VNone else VList [])
        | _ :: _ =>
            let* vals := mapM (extract_dt (p_dt p)) nodes in
            let out := if rp then map (fun vp => VTuple [fst vp; VTuple (snd vp)]) (combine vals paths) else vals in
            match_multi pyval p out
        end
    end =
    match sp_parts sp with
    | [] => let* v := spec_dt (sp_dt sp) doc in Ok (if rp then VTuple [v; VTuple []] else v)
    | _ :: _ =>
        let sel := walk (sp_parts sp) [] doc in
        match sel with
        | [] => Ok (if sp_concrete sp then VNone else VList [])
        | _ :: _ =>
            let* vals := mapM (fun pv => spec_dt (sp_dt sp) (snd pv)) sel in
            let out := if rp then map (fun x => VTuple [fst x; VTuple (snd x)]) (combine vals (map fst sel)) else vals in
            spec_multi sp out
        end
    end).
  { intros doc. rewrite Hdt, Hc.
    destruct Hparts as [|s0 p0 ss ps H0 Hrest].
    - rewrite extract_dt_spec. reflexivity.
    - rewrite (walk_parts_first (s0 :: ss) (p0 :: ps) doc) by (try constructor; try discriminate; assumption).
      cbn [bind]. cbv zeta.
      destruct (walk (s0 :: ss) [] doc) as [|pn sel].
      + reflexivity.
      + cbn [map]. change (snd pn :: map snd sel) with (map snd (pn :: sel)).
        change (fst pn :: map fst sel) with (map fst (pn :: sel)).
        rewrite mapM_map. rewrite (mapM_ext _ (fun pv => spec_dt (sp_dt sp) (snd pv))) by (intro; apply extract_dt_spec).
        destruct (mapM (fun pv => spec_dt (sp_dt sp) (snd pv)) (pn :: sel)) as [vals|e]; cbn [bind]; [|reflexivity].
        apply match_multi_spec; assumption. }
  destruct (sp_src sp) as [s|].
  - destruct (py_truthy s); cbn [bind]; [apply Hdoc|].
    fold dd. fold od. rewrite Hdd. destruct od as [d|]; cbn [bind]; [apply Hdoc|reflexivity].
  - fold dd. fold od. rewrite Hdd. destruct od as [d|]; cbn [bind]; [apply Hdoc|reflexivity].
Qed.

(* ------------------------------------------------------------------ *)
(* B. filtering one node with the model part of a spec part             *)

(* what construction guarantees about every condition tree stored in a part *)
Definition tree_wf (t : qtree) : Prop := qtree_ok t = true /\ qmixed (qnorm t) = false.

Definition spart_wf (sp : spart) : Prop :=
  match sp with
  | SPMap t | SPList t => tree_wf t
  | SPMol c lc mc => tree_wf c /\ tree_wf lc /\ tree_wf mc
  end.

(* the model part of a spec part (the label is not observable through get_data) *)
Definition mpart (label : option pyval) (sp : spart) : part pyval :=
  match sp with
  | SPMap t => PMap (cond_of (qnorm t)) label
  | SPList t => PList (cond_of (qnorm t)) label
  | SPMol c lc mc => PMol (cond_of (qnorm c)) (cond_of (qnorm lc)) (cond_of (qnorm mc)) label
  end.

Lemma mk_bin_qnorm o a b :
  qmixed (qnorm a) = false -> qmixed (qnorm b) = false ->
  mk_bin o (cond_of (qnorm a)) (cond_of (qnorm b)) = build_expect (qnorm (QBin o a b)).
Proof.
  intros Ha Hb. rewrite mk_bin_cond_of. unfold build_expect. cbn [qnorm].
  destruct (q_is_null (qnorm b)); [rewrite Ha; reflexivity|].
  destruct (q_is_null (qnorm a)); [rewrite Hb; reflexivity|].
  reflexivity.
Qed.

Lemma entry_check_te (c : cond pyval) node : entry_check c node = Ok tt \/ entry_check c node = Err TypeError.
Proof.
  unfold entry_check. destruct c as [l|o a b]; [|left; reflexivity].
  destruct (l_kind l); destruct node; auto.
Qed.

Lemma doc_ok_nonempty c doc : doc_ok c doc = true -> nonempty_container doc = true.
Proof. intros H. destruct (doc_ok_shape c doc H) as [[x [r ->]]|[kv [r ->]]]; reflexivity. Qed.

Lemma entry_check_bad c q doc :
  doc_ok c doc = false -> nonempty_container doc = true ->
  entry_check (CLeaf (expected_leaf c q)) doc = Err TypeError.
Proof.
  intros Hd Hne. unfold entry_check. rewrite expected_kind.
  destruct (nonempty_shape doc Hne) as [[x [r ->]]|[kv [r ->]]]; unfold doc_ok in Hd;
    destruct (scls_kind c); try discriminate Hd; reflexivity.
Qed.

Lemma sel_ok n node :
  qtree_ok n = true -> nonempty_container node = true ->
  (let* d := mk_data node in
   let* f := filter_tree T res0 (cond_of n) d in
   Ok (select (combine (d_keys d) (d_vals d)) (fr_result f))) = Ok (filter (sat_tree n) (doc_items node)).
Proof.
  intros Hok Hne.
  destruct (mk_data_items node (nonempty_shape node Hne)) as [d [Ed [Hk Hv]]].
  rewrite Ed. cbn [bind].
  destruct (filter_cond_of n d node Hok Hk Hv) as [f [Ef Hr]].
  rewrite Ef. cbn [bind]. rewrite Hr, Hk, Hv, combine_fst_snd, select_filter. reflexivity.
Qed.

Lemma cond_filter_sel_spec t node :
  tree_wf t ->
  cond_filter_sel T res0 (cond_of (qnorm t)) node =
  match tree_children t node with Some l => Ok l | None => Err TypeError end.
Proof.
  intros [Hok Hmx]. rewrite <- qtree_ok_qnorm in Hok.
  destruct (nonempty_container node) eqn:Hne; unfold cond_filter_sel, tree_children; cbv zeta.
  - pose proof (sel_ok (qnorm t) node Hok Hne) as Hsel.
    destruct (qnorm t) as [c q| |o a b] eqn:En.
    + destruct (doc_ok c node) eqn:Hd.
      * cbn [cond_of]. rewrite (entry_check_ok c q node Hd). cbn [bind]. exact Hsel.
      * cbn [cond_of]. rewrite (entry_check_bad c q node Hd Hne). reflexivity.
    + change (entry_check (cond_of QNull) node) with (@Ok unit tt). cbn [bind]. rewrite Hne. exact Hsel.
    + change (entry_check (cond_of (QBin o a b)) node) with (@Ok unit tt). cbn [bind].
      rewrite Hmx, Hne. cbn [negb andb]. exact Hsel.
  - assert (Happ : match qnorm t with
                   | QLeaf c _ => doc_ok c node
                   | QNull => nonempty_container node
                   | QBin _ _ _ => negb (qmixed (qnorm t)) && nonempty_container node
                   end = false).
    { destruct (qnorm t) as [c q| |o a b].
      - destruct (doc_ok c node) eqn:Hd; [|reflexivity]. apply doc_ok_nonempty in Hd. congruence.
      - exact Hne.
      - rewrite Hne. apply andb_false_r. }
    rewrite Happ. rewrite (mk_data_empty node Hne).
    destruct (entry_check_te (cond_of (qnorm t)) node) as [E|E]; rewrite E; reflexivity.
Qed.

Lemma tree_children_mixed t node : qmixed (qnorm t) = true -> tree_children t node = None.
Proof.
  intros H. unfold tree_children. cbv zeta.
  destruct (qnorm t) as [c q| |o a b] eqn:En.
  - rewrite qmixed_leaf in H. discriminate H.
  - discriminate H.
  - rewrite H. reflexivity.
Qed.

Lemma tree_wf_and a b : tree_wf a -> tree_wf b -> qmixed (qnorm (QBin BoAnd a b)) = false -> tree_wf (QBin BoAnd a b).
Proof.
  intros [Ha _] [Hb _] Hm. split; [|exact Hm].
  unfold qtree_ok in *. cbn [qleaves]. rewrite forallb_app, Ha, Hb. reflexivity.
Qed.

(* a filter that answers like tree_children is a filter_rel outcome *)
Lemma sel_outcome (r : res (list (pyval * pyval))) (o : option (list (pyval * pyval))) :
  r = match o with Some l => Ok l | None => Err TypeError end ->
  r = Ok (match o with Some l => l | None => [] end) \/
  (r = Err TypeError /\ match o with Some l => l | None => [] end = []).
Proof. intros ->. destruct o; auto. Qed.

Lemma mol_filter_spec lc c node :
  tree_wf lc -> tree_wf c ->
  (let* c' := mk_bin BoAnd (cond_of (qnorm lc)) (cond_of (qnorm c)) in cond_filter_sel T res0 c' node) =
  match tree_children (QBin BoAnd lc c) node with Some l => Ok l | None => Err TypeError end.
Proof.
  intros Hlc Hc. rewrite (mk_bin_qnorm BoAnd lc c (proj2 Hlc) (proj2 Hc)). unfold build_expect.
  destruct (qmixed (qnorm (QBin BoAnd lc c))) eqn:Mx.
  - rewrite (tree_children_mixed _ node Mx). reflexivity.
  - cbn [bind]. apply cond_filter_sel_spec. apply tree_wf_and; assumption.
Qed.

Theorem part_filter_spec label sp : spart_wf sp -> filter_rel sp (mpart label sp).
Proof.
  intros Hwf node. unfold part_filter.
  destruct (nonempty_container node) eqn:Hne.
  - destruct (nonempty_shape node Hne) as [[x [r ->]]|[kv [r ->]]]; cbn [mk_data bind d_is_list].
    + destruct sp as [t|t|c lc mc]; cbn [mpart children is_map_node is_list_node].
      * right. split; reflexivity.
      * apply sel_outcome. apply cond_filter_sel_spec. exact Hwf.
      * apply sel_outcome. destruct Hwf as (Hc & Hlc & Hmc). apply mol_filter_spec; assumption.
    + destruct sp as [t|t|c lc mc]; cbn [mpart children is_map_node is_list_node].
      * apply sel_outcome. apply cond_filter_sel_spec. exact Hwf.
      * right. split; reflexivity.
      * apply sel_outcome. destruct Hwf as (Hc & Hlc & Hmc). apply mol_filter_spec; assumption.
  - rewrite (mk_data_empty node Hne). right. split; [reflexivity|].
    assert (Hl : is_list_node node = false) by (destruct node as [| | | | |[|]| |[|]| |]; try reflexivity; discriminate Hne).
    assert (Hm : is_map_node node = false) by (destruct node as [| | | | |[|]| |[|]| |]; try reflexivity; discriminate Hne).
    destruct sp; cbn [children]; rewrite ?Hl, ?Hm; reflexivity.
Qed.

(* ------------------------------------------------------------------ *)
(* A. construction of parts                                             *)

Definition lift (r : res qtree) : res (cond pyval) := let* t := r in Ok (cond_of (qnorm t)).

(* an argument whose own construction fails (a condition mixing Key and Index leaves) *)
Definition arg_bad (a : option sarg) : bool :=
  match a with Some (SCond t) => negb (buildable t) | _ => false end.

Lemma pre_build_spec a : osarg_ok a = true ->
  pre_build T pyval idlit (osarg_term a) = if arg_bad a then Err TypeError else Ok (osarg_term a).
Proof.
  intros Hok. destruct a as [[v|t]|]; try reflexivity.
  cbn [osarg_ok] in Hok. unfold pre_build. cbn [osarg_term option_map sarg_term].
  rewrite (build_qterm t Hok). unfold build_expect, arg_bad, buildable.
  destruct (qmixed (qnorm t)); reflexivity.
Qed.

Lemma build_eq_leaf cls v :
  build T idlit (DLeaf (scls_name cls) "equal_to" [idlit v] []) = Ok (cond_of (QLeaf cls (Q_equal_to v))).
Proof. exact (build_leaf_term cls (Q_equal_to v) eq_refl). Qed.

(* the second half of get_container_value_condition, also inlined in MapValue / ListValue *)
Definition add_datum (c : cond pyval) (datum : option (carg pyval)) (cls : string) (kind : dkind) : res (cond pyval) :=
  match norm_arg pyval datum with
  | None => Ok c
  | Some d =>
      let* dc := match d with
                 | KCond t => build T idlit t
                 | KLit v => build T idlit (DLeaf cls "equal_to" [idlit v] [])
                 end in
      if is_null dc then mk_bin BoAnd c dc
      else if is_like kind dc then mk_bin BoAnd c dc else Err TypeError
  end.

Lemma gcvc_unfold cnd datum cls kind :
  gcvc T idlit cnd datum cls kind =
  let* c := match norm_arg pyval cnd with
            | None => Ok CNull
            | Some (KCond t) => build T idlit t
            | Some (KLit _) => Err TypeError
            end in add_datum c datum cls kind.
Proof. reflexivity. Qed.

(* normalised trees are null or null-free *)
Fixpoint qnf (t : qtree) : bool :=
  match t with QLeaf _ _ => true | QNull => false | QBin _ a b => qnf a && qnf b end.

Lemma qnorm_nf t : q_is_null (qnorm t) = false -> qnf (qnorm t) = true.
Proof.
  induction t as [c q| |o a IHa b IHb]; cbn [qnorm]; intros H.
  - reflexivity.
  - discriminate H.
  - destruct (q_is_null (qnorm b)) eqn:Nb; [exact (IHa H)|].
    destruct (q_is_null (qnorm a)) eqn:Na; [exact (IHb eq_refl)|].
    cbn [qnf]. rewrite IHa, IHb by reflexivity. reflexivity.
Qed.

Lemma is_like_nf k n : qnf n = true ->
  is_like k (cond_of n) = forallb (fun cq => dkind_eqb (scls_kind (fst cq)) k) (qleaves n).
Proof.
  unfold is_like. induction n as [c q| |o a IHa b IHb]; cbn [qnf]; intros H.
  - cbn [cond_of leaves forallb qleaves fst]. rewrite expected_kind. reflexivity.
  - discriminate H.
  - apply andb_true_iff in H as [Ha Hb]. cbn [cond_of leaves qleaves].
    rewrite !forallb_app, IHa, IHb by assumption. reflexivity.
Qed.

Lemma is_like_cond_of k t : q_is_null (qnorm t) = false ->
  is_like k (cond_of (qnorm t)) = forallb (fun cq => dkind_eqb (scls_kind (fst cq)) k) (qleaves t).
Proof. intros H. rewrite (is_like_nf k _ (qnorm_nf t H)), qleaves_qnorm. reflexivity. Qed.

Lemma and_tree_lift a b :
  qmixed (qnorm a) = false -> qmixed (qnorm b) = false ->
  mk_bin BoAnd (cond_of (qnorm a)) (cond_of (qnorm b)) = lift (and_tree a b).
Proof.
  intros Ha Hb. rewrite (mk_bin_qnorm BoAnd a b Ha Hb).
  unfold build_expect, and_tree, buildable, lift.
  destruct (qmixed (qnorm (QBin BoAnd a b))); reflexivity.
Qed.

Lemma add_datum_spec cls tc datum :
  osarg_ok datum = true -> qmixed (qnorm tc) = false ->
  add_datum (cond_of (qnorm tc)) (osarg_term datum) (scls_name cls) (scls_kind cls) =
  lift (let* k := datum_tree cls datum in and_tree tc k).
Proof.
  intros Hok Hmx.
  assert (Hnull : lift (and_tree tc QNull) = Ok (cond_of (qnorm tc))).
  { unfold and_tree, buildable, lift. cbn [qnorm q_is_null]. rewrite Hmx. reflexivity. }
  destruct datum as [[v|t]|].
  - assert (Hv : v = VNone \/ (norm_arg pyval (Some (KLit v)) = Some (KLit v) /\
                               datum_tree cls (Some (SLit v)) = Ok (QLeaf cls (Q_equal_to v))))
      by (destruct v; auto).
    destruct Hv as [->|[Hn Hd]].
    + cbn [datum_tree bind]. rewrite Hnull. reflexivity.
    + unfold add_datum. cbn [osarg_term option_map sarg_term]. rewrite Hn, Hd, build_eq_leaf. cbn [bind].
      rewrite is_null_cond_of. cbn [q_is_null].
      assert (Hl : is_like (scls_kind cls) (cond_of (QLeaf cls (Q_equal_to v))) = true).
      { unfold is_like. cbn [cond_of leaves forallb]. rewrite expected_kind. destruct (scls_kind cls); reflexivity. }
      rewrite Hl.
      change (cond_of (QLeaf cls (Q_equal_to v))) with (cond_of (qnorm (QLeaf cls (Q_equal_to v)))).
      apply and_tree_lift; [exact Hmx|apply qmixed_leaf].
  - cbn [osarg_ok] in Hok. unfold add_datum. cbn [osarg_term option_map sarg_term norm_arg].
    rewrite (build_qterm t Hok). unfold build_expect. cbn [datum_tree]. unfold buildable.
    destruct (qmixed (qnorm t)) eqn:Mt; cbn [negb bind]; [reflexivity|].
    rewrite is_null_cond_of.
    destruct (q_is_null (qnorm t)) eqn:Nt.
    + cbn [bind]. rewrite Hnull. apply q_is_null_eq in Nt. rewrite Nt.
      change (mk_bin BoAnd (cond_of (qnorm tc)) (cond_of QNull)) with (@Ok (cond pyval) (cond_of (qnorm tc))).
      reflexivity.
    + rewrite (is_like_cond_of _ t Nt).
      destruct (forallb (fun cq => dkind_eqb (scls_kind (fst cq)) (scls_kind cls)) (qleaves t)); cbn [bind].
      * apply and_tree_lift; assumption.
      * reflexivity.
  - cbn [datum_tree bind]. rewrite Hnull. reflexivity.
Qed.

(* the spec of get_container_value_condition *)
Definition G (cls : scls) (cnd datum : option sarg) : res qtree :=
  let* c := cnd_tree cnd in let* k := datum_tree cls datum in and_tree c k.

Lemma cnd_tree_te a e : cnd_tree a = Err e -> e = TypeError.
Proof. destruct a as [[v|t]|]; cbn [cnd_tree]; try destruct v; try destruct (buildable t); congruence. Qed.
Lemma datum_tree_te cls a e : datum_tree cls a = Err e -> e = TypeError.
Proof.
  destruct a as [[v|t]|]; cbn [datum_tree]; try destruct v; try congruence.
  destruct (negb (buildable t)); [congruence|]. destruct (q_is_null (qnorm t)); [congruence|].
  destruct (forallb _ _); congruence.
Qed.
Lemma and_tree_te a b e : and_tree a b = Err e -> e = TypeError.
Proof. unfold and_tree. destruct (buildable _); congruence. Qed.

Lemma cnd_tree_bad a : arg_bad a = true -> cnd_tree a = Err TypeError.
Proof. destruct a as [[v|t]|]; cbn [arg_bad cnd_tree]; try discriminate. intros H. apply negb_true_iff in H. rewrite H. reflexivity. Qed.
Lemma datum_tree_bad cls a : arg_bad a = true -> datum_tree cls a = Err TypeError.
Proof. destruct a as [[v|t]|]; cbn [arg_bad datum_tree]; try discriminate. intros H. rewrite H. reflexivity. Qed.

(* destruct the next spec component; errors are TypeError *)
Ltac spec_step :=
  let E := fresh "E" in
  match goal with
  | |- context [bind (cnd_tree ?a) _] =>
      destruct (cnd_tree a) as [?t|?e] eqn:E; [|apply cnd_tree_te in E; subst]
  | |- context [bind (datum_tree ?c ?a) _] =>
      destruct (datum_tree c a) as [?t|?e] eqn:E; [|apply datum_tree_te in E; subst]
  | |- context [bind (and_tree ?a ?b) _] =>
      destruct (and_tree a b) as [?t|?e] eqn:E; [|apply and_tree_te in E; subst]
  end; cbn [bind].

Lemma G_te cls cnd datum e : G cls cnd datum = Err e -> e = TypeError.
Proof. unfold G. repeat spec_step; first [congruence | apply and_tree_te]. Qed.

Lemma G_bad cls cnd datum : arg_bad cnd || arg_bad datum = true -> G cls cnd datum = Err TypeError.
Proof.
  intros H. unfold G. apply orb_true_iff in H as [H|H].
  - rewrite (cnd_tree_bad _ H). reflexivity.
  - rewrite (datum_tree_bad cls _ H). repeat spec_step; reflexivity.
Qed.

Lemma cnd_spec cnd : osarg_ok cnd = true ->
  match norm_arg pyval (osarg_term cnd) with
  | None => Ok CNull
  | Some (KCond t) => build T idlit t
  | Some (KLit _) => Err TypeError
  end = lift (cnd_tree cnd).
Proof.
  intros Hok. destruct cnd as [[v|t]|]; try reflexivity.
  - destruct v; reflexivity.
  - cbn [osarg_ok] in Hok. cbn [osarg_term option_map sarg_term norm_arg cnd_tree].
    rewrite (build_qterm t Hok). unfold build_expect, buildable, lift. destruct (qmixed (qnorm t)); reflexivity.
Qed.

Lemma cnd_tree_wf a t : osarg_ok a = true -> cnd_tree a = Ok t -> tree_wf t.
Proof.
  intros Hok. destruct a as [[v|t']|]; cbn [cnd_tree].
  - destruct v; try discriminate. intros [= <-]. split; reflexivity.
  - cbn [osarg_ok] in Hok. unfold buildable. destruct (qmixed (qnorm t')) eqn:M; cbn [negb]; [discriminate|].
    intros [= <-]. split; assumption.
  - intros [= <-]. split; reflexivity.
Qed.

Lemma datum_tree_wf cls a t : osarg_ok a = true -> datum_tree cls a = Ok t -> tree_wf t.
Proof.
  intros Hok. destruct a as [[v|t']|]; cbn [datum_tree].
  - assert (Hl : tree_wf (QLeaf cls (Q_equal_to v))) by (split; [reflexivity|apply qmixed_leaf]).
    destruct v; intros [= <-]; try exact Hl. split; reflexivity.
  - cbn [osarg_ok] in Hok. unfold buildable. destruct (qmixed (qnorm t')) eqn:M; cbn [negb]; [discriminate|].
    destruct (q_is_null (qnorm t')); [intros [= <-]; split; reflexivity|].
    destruct (forallb _ _); [|discriminate]. intros [= <-]. split; assumption.
  - intros [= <-]. split; reflexivity.
Qed.

Lemma and_tree_wf a b t : tree_wf a -> tree_wf b -> and_tree a b = Ok t -> tree_wf t.
Proof.
  intros Ha Hb. unfold and_tree, buildable. destruct (qmixed (qnorm (QBin BoAnd a b))) eqn:M; cbn [negb]; [discriminate|].
  intros [= <-]. apply tree_wf_and; assumption.
Qed.

Lemma G_wf cls cnd datum t : osarg_ok cnd = true -> osarg_ok datum = true -> G cls cnd datum = Ok t -> tree_wf t.
Proof.
  intros Hc Hd. unfold G.
  destruct (cnd_tree cnd) as [c|e] eqn:Ec; cbn [bind]; [|discriminate].
  destruct (datum_tree cls datum) as [k|e] eqn:Ek; cbn [bind]; [|discriminate].
  apply and_tree_wf; [exact (cnd_tree_wf cnd c Hc Ec)|exact (datum_tree_wf cls datum k Hd Ek)].
Qed.

Lemma gcvc_spec cls cnd datum :
  osarg_ok cnd = true -> osarg_ok datum = true ->
  gcvc T idlit (osarg_term cnd) (osarg_term datum) (scls_name cls) (scls_kind cls) = lift (G cls cnd datum).
Proof.
  intros Hc Hd. rewrite gcvc_unfold, (cnd_spec cnd Hc). unfold G.
  destruct (cnd_tree cnd) as [c|e] eqn:Ec; cbn [bind lift]; [|reflexivity].
  apply add_datum_spec; [exact Hd|]. exact (proj2 (cnd_tree_wf cnd c Hc Ec)).
Qed.

(* ---- the spec of a part, regrouped the way the code evaluates it ---- *)

Definition map_tree (cls : scls) (cnd key value : option sarg) : res qtree :=
  let* ck := G cls cnd key in let* v := datum_tree SValue value in and_tree ck v.

Definition mol_spec (k i v lc mc c : option sarg) : res (spart * bool) :=
  let* li := G SIndex lc i in let* mk := G SKey mc k in let* cv := G SValue c v in Ok (SPMol cv li mk, true).

Lemma spart_of_map k v c l : spart_of (STMap k v c l) = let* t := map_tree SKey c k v in Ok (SPMap t, true).
Proof. cbn [spart_of]. unfold map_tree, G. repeat spec_step; reflexivity. Qed.

Lemma spart_of_list i v c l : spart_of (STList i v c l) = let* t := map_tree SIndex c i v in Ok (SPList t, true).
Proof. cbn [spart_of]. unfold map_tree, G. repeat spec_step; reflexivity. Qed.

Lemma spart_of_mol k i v lc mc c l : spart_of (STMol k i v lc mc c l) = mol_spec k i v lc mc c.
Proof. cbn [spart_of]. unfold mol_spec, G. repeat spec_step; reflexivity. Qed.

Ltac g_step :=
  let E := fresh "E" in
  match goal with
  | |- context [bind (G ?c ?a ?b) _] => destruct (G c a b) as [?t|?e] eqn:E; [|apply G_te in E; subst]
  end; cbn [bind].

Ltac split_bad H :=
  repeat match type of H with _ || _ = true => apply orb_true_iff in H as [H|H] end.

Lemma map_tree_bad cls c k v : arg_bad k || arg_bad v || arg_bad c = true -> map_tree cls c k v = Err TypeError.
Proof.
  intros H. unfold map_tree. split_bad H.
  - rewrite (G_bad cls c k) by (rewrite H; apply orb_true_r). reflexivity.
  - rewrite (datum_tree_bad SValue v H). g_step; reflexivity.
  - rewrite (G_bad cls c k) by (rewrite H; reflexivity). reflexivity.
Qed.

Lemma mol_spec_bad k i v lc mc c :
  arg_bad k || arg_bad i || arg_bad v || arg_bad lc || arg_bad mc || arg_bad c = true ->
  mol_spec k i v lc mc c = Err TypeError.
Proof.
  intros H. unfold mol_spec. split_bad H.
  all: try rewrite (G_bad SIndex lc i) by (rewrite H; rewrite ?orb_true_r; reflexivity).
  all: try rewrite (G_bad SKey mc k) by (rewrite H; rewrite ?orb_true_r; reflexivity).
  all: try rewrite (G_bad SValue c v) by (rewrite H; rewrite ?orb_true_r; reflexivity).
  all: repeat g_step; reflexivity.
Qed.

(* ---- the model of a part constructor ---- *)

Lemma pre_absorb {B} a (Y X : res B) :
  osarg_ok a = true -> (arg_bad a = true -> X = Err TypeError) -> Y = X ->
  (let* _ := pre_build T pyval idlit (osarg_term a) in Y) = X.
Proof.
  intros Hok Hbad HY. rewrite (pre_build_spec a Hok).
  destruct (arg_bad a); cbn [bind]; [symmetry; apply Hbad; reflexivity|exact HY].
Qed.

Lemma mk_part_map key value cnd label :
  mk_part T idlit (PtMap key value cnd label) =
  let* _ := pre_build T pyval idlit key in let* _ := pre_build T pyval idlit value in
  let* _ := pre_build T pyval idlit cnd in
  let* c1 := gcvc T idlit cnd key "Key" DKey in
  let* c2 := add_datum c1 value "Value" DValue in
  Ok (PMap c2 label, true).
Proof. reflexivity. Qed.

Lemma mk_part_list index value cnd label :
  mk_part T idlit (PtList index value cnd label) =
  let* _ := pre_build T pyval idlit index in let* _ := pre_build T pyval idlit value in
  let* _ := pre_build T pyval idlit cnd in
  let* c1 := gcvc T idlit cnd index "Index" DIndex in
  let* c2 := add_datum c1 value "Value" DValue in
  Ok (PList c2 label, true).
Proof. reflexivity. Qed.

Lemma map_core {B} cls cnd key value (K : cond pyval -> res B) :
  osarg_ok cnd = true -> osarg_ok key = true -> osarg_ok value = true ->
  (let* c1 := gcvc T idlit (osarg_term cnd) (osarg_term key) (scls_name cls) (scls_kind cls) in
   let* c2 := add_datum c1 (osarg_term value) (scls_name SValue) (scls_kind SValue) in K c2) =
  let* c := lift (map_tree cls cnd key value) in K c.
Proof.
  intros Hc Hk Hv. rewrite (gcvc_spec cls cnd key Hc Hk). unfold map_tree.
  destruct (G cls cnd key) as [ck|e] eqn:EG; cbn [lift bind]; [|reflexivity].
  rewrite (add_datum_spec SValue ck value Hv (proj2 (G_wf cls cnd key ck Hc Hk EG))). reflexivity.
Qed.

Definition label_of (t : spterm) : option pyval :=
  match t with SPrim _ => None | STMap _ _ _ l | STList _ _ _ l | STMol _ _ _ _ _ _ l => l end.

Lemma and3 a b c : a && b && c = true -> a = true /\ b = true /\ c = true.
Proof. destruct a, b, c; auto. Qed.

(* A (one part): the constructor of the model builds the model part of the spec part, with
   the same "given explicitly" flag, and fails exactly when the spec does (TypeError) *)
Theorem mk_part_spec t : spterm_ok t = true ->
  mk_part T idlit (spterm_term t) = let* se := spart_of t in Ok (mpart (label_of t) (fst se), snd se).
Proof.
  intros Hok. destruct t as [v|k v c l|i v c l|k i v lc mc c l].
  - pose proof (fun a => gcvc_spec SKey None (Some (SLit a)) eq_refl eq_refl) as HK.
    pose proof (fun a => gcvc_spec SIndex None (Some (SLit a)) eq_refl eq_refl) as HI.
    cbn [osarg_term option_map sarg_term scls_name scls_kind] in HK, HI.
    destruct v; cbn [spterm_term mk_part spart_of]; try reflexivity; rewrite ?HI, ?HK; reflexivity.
  - cbn [spterm_ok] in Hok. apply and3 in Hok as (Hk & Hv & Hc).
    cbn [spterm_term label_of]. rewrite mk_part_map, spart_of_map.
    assert (Hbad : arg_bad k || arg_bad v || arg_bad c = true ->
                   (let* se := (let* t := map_tree SKey c k v in Ok (SPMap t, true)) in Ok (mpart l (fst se), snd se)) = Err TypeError).
    { intros H. rewrite (map_tree_bad SKey c k v H). reflexivity. }
    apply pre_absorb; [exact Hk|intros H; apply Hbad; rewrite H; reflexivity|].
    apply pre_absorb; [exact Hv|intros H; apply Hbad; rewrite H; rewrite ?orb_true_r; reflexivity|].
    apply pre_absorb; [exact Hc|intros H; apply Hbad; rewrite H; rewrite ?orb_true_r; reflexivity|].
    pose proof (map_core SKey c k v (fun c2 => Ok (PMap c2 l, true)) Hc Hk Hv) as Hcore.
    cbn beta in Hcore. cbn [scls_name scls_kind] in Hcore. rewrite Hcore.
    destruct (map_tree SKey c k v) as [t|e]; reflexivity.
  - cbn [spterm_ok] in Hok. apply and3 in Hok as (Hk & Hv & Hc).
    cbn [spterm_term label_of]. rewrite mk_part_list, spart_of_list.
    assert (Hbad : arg_bad i || arg_bad v || arg_bad c = true ->
                   (let* se := (let* t := map_tree SIndex c i v in Ok (SPList t, true)) in Ok (mpart l (fst se), snd se)) = Err TypeError).
    { intros H. rewrite (map_tree_bad SIndex c i v H). reflexivity. }
    apply pre_absorb; [exact Hk|intros H; apply Hbad; rewrite H; reflexivity|].
    apply pre_absorb; [exact Hv|intros H; apply Hbad; rewrite H; rewrite ?orb_true_r; reflexivity|].
    apply pre_absorb; [exact Hc|intros H; apply Hbad; rewrite H; rewrite ?orb_true_r; reflexivity|].
    pose proof (map_core SIndex c i v (fun c2 => Ok (PList c2 l, true)) Hc Hk Hv) as Hcore.
    cbn beta in Hcore. cbn [scls_name scls_kind] in Hcore. rewrite Hcore.
    destruct (map_tree SIndex c i v) as [t|e]; reflexivity.
  - cbn [spterm_ok] in Hok.
    apply andb_true_iff in Hok as [Hok Hc]. apply andb_true_iff in Hok as [Hok Hmc].
    apply andb_true_iff in Hok as [Hok Hlc]. apply and3 in Hok as (Hk & Hi & Hv).
    cbn [spterm_term label_of mk_part]. rewrite spart_of_mol.
    assert (Hbad : arg_bad k || arg_bad i || arg_bad v || arg_bad lc || arg_bad mc || arg_bad c = true ->
                   (let* se := mol_spec k i v lc mc c in Ok (mpart l (fst se), snd se)) = Err TypeError).
    { intros H. rewrite (mol_spec_bad k i v lc mc c H). reflexivity. }
    apply pre_absorb; [exact Hk|intros H; apply Hbad; rewrite H; reflexivity|].
    apply pre_absorb; [exact Hi|intros H; apply Hbad; rewrite H; rewrite ?orb_true_r; reflexivity|].
    apply pre_absorb; [exact Hv|intros H; apply Hbad; rewrite H; rewrite ?orb_true_r; reflexivity|].
    apply pre_absorb; [exact Hlc|intros H; apply Hbad; rewrite H; rewrite ?orb_true_r; reflexivity|].
    apply pre_absorb; [exact Hmc|intros H; apply Hbad; rewrite H; rewrite ?orb_true_r; reflexivity|].
    apply pre_absorb; [exact Hc|intros H; apply Hbad; rewrite H; rewrite ?orb_true_r; reflexivity|].
    pose proof (gcvc_spec SIndex lc i Hlc Hi) as H1. pose proof (gcvc_spec SKey mc k Hmc Hk) as H2.
    pose proof (gcvc_spec SValue c v Hc Hv) as H3.
    cbn [scls_name scls_kind] in H1, H2, H3. rewrite H1, H2, H3. unfold mol_spec.
    destruct (G SIndex lc i) as [li|e]; cbn [lift bind]; [|reflexivity].
    destruct (G SKey mc k) as [mk|e]; cbn [lift bind]; [|reflexivity].
    destruct (G SValue c v) as [cv|e]; cbn [lift bind]; reflexivity.
Qed.

Lemma spart_of_wf t sp ex : spterm_ok t = true -> spart_of t = Ok (sp, ex) -> spart_wf sp.
Proof.
  intros Hok. destruct t as [v|k v c l|i v c l|k i v lc mc c l].
  - assert (Hl : forall cls, tree_wf (QLeaf cls (Q_equal_to v))) by (intro; split; [reflexivity|apply qmixed_leaf]).
    assert (Hn : tree_wf QNull) by (split; reflexivity).
    destruct v; cbn [spart_of]; try discriminate; intros [= <- <-]; cbn [spart_wf]; auto.
  - cbn [spterm_ok] in Hok. apply and3 in Hok as (Hk & Hv & Hc). rewrite spart_of_map. unfold map_tree.
    destruct (G SKey c k) as [ck|e] eqn:EG; cbn [bind]; [|discriminate].
    destruct (datum_tree SValue v) as [tv|e] eqn:Ev; cbn [bind]; [|discriminate].
    destruct (and_tree ck tv) as [t|e] eqn:Ea; cbn [bind]; [|discriminate].
    intros [= <- <-]. cbn [spart_wf].
    exact (and_tree_wf ck tv t (G_wf SKey c k ck Hc Hk EG) (datum_tree_wf SValue v tv Hv Ev) Ea).
  - cbn [spterm_ok] in Hok. apply and3 in Hok as (Hk & Hv & Hc). rewrite spart_of_list. unfold map_tree.
    destruct (G SIndex c i) as [ck|e] eqn:EG; cbn [bind]; [|discriminate].
    destruct (datum_tree SValue v) as [tv|e] eqn:Ev; cbn [bind]; [|discriminate].
    destruct (and_tree ck tv) as [t|e] eqn:Ea; cbn [bind]; [|discriminate].
    intros [= <- <-]. cbn [spart_wf].
    exact (and_tree_wf ck tv t (G_wf SIndex c i ck Hc Hk EG) (datum_tree_wf SValue v tv Hv Ev) Ea).
  - cbn [spterm_ok] in Hok.
    apply andb_true_iff in Hok as [Hok Hc]. apply andb_true_iff in Hok as [Hok Hmc].
    apply andb_true_iff in Hok as [Hok Hlc]. apply and3 in Hok as (Hk & Hi & Hv).
    rewrite spart_of_mol. unfold mol_spec.
    destruct (G SIndex lc i) as [li|e] eqn:E1; cbn [bind]; [|discriminate].
    destruct (G SKey mc k) as [mk|e] eqn:E2; cbn [bind]; [|discriminate].
    destruct (G SValue c v) as [cv|e] eqn:E3; cbn [bind]; [|discriminate].
    intros [= <- <-]. cbn [spart_wf].
    repeat split; first [apply (proj1 (G_wf _ _ _ _ Hc Hv E3)) | apply (proj2 (G_wf _ _ _ _ Hc Hv E3))
                        | apply (proj1 (G_wf _ _ _ _ Hlc Hi E1)) | apply (proj2 (G_wf _ _ _ _ Hlc Hi E1))
                        | apply (proj1 (G_wf _ _ _ _ Hmc Hk E2)) | apply (proj2 (G_wf _ _ _ _ Hmc Hk E2))].
Qed.

(* ---- lists of parts, modifiers, paths ---- *)

Lemma mk_parts_spec ts : forallb spterm_ok ts = true ->
  (exists e, sparts_of ts = Err e /\ mk_parts T idlit (map spterm_term ts) = Err e) \/
  (exists sps ps c, sparts_of ts = Ok (sps, c) /\ mk_parts T idlit (map spterm_term ts) = Ok (ps, c) /\
                    Forall2 filter_rel sps ps).
Proof.
  induction ts as [|t ts IH]; intros Hok.
  - right. exists [], [], true. repeat split. constructor.
  - cbn [forallb] in Hok. apply andb_true_iff in Hok as [Ht Hts]. specialize (IH Hts).
    cbn [map mk_parts sparts_of]. rewrite (mk_part_spec t Ht).
    destruct (spart_of t) as [[sp ex]|e] eqn:Esp; cbn [bind fst snd].
    + pose proof (part_filter_spec (label_of t) sp (spart_of_wf t sp ex Ht Esp)) as Hrel.
      destruct IH as [[e [E1 E2]]|[sps [ps [c [E1 [E2 HF]]]]]]; rewrite E1, E2; cbn [bind].
      * left. exists e. split; reflexivity.
      * right. exists (sp :: sps), (mpart (label_of t) sp :: ps), (negb ex && c).
        repeat split. constructor; assumption.
    + left. exists e. split; reflexivity.
Qed.

Lemma dt_of_name_spec m : dt_of_name m = option_map sdt_to (sdt_of_name m).
Proof. unfold dt_of_name, sdt_of_name. repeat (destruct (String.eqb m _); [reflexivity|]). reflexivity. Qed.
Lemma mt_of_name_spec m : mt_of_name m = option_map smt_to (smt_of_name m).
Proof. unfold mt_of_name, smt_of_name. repeat (destruct (String.eqb m _); [reflexivity|]). reflexivity. Qed.

Lemma apply_mod_spec sp p m : path_rel sp p ->
  (exists e, spec_mod sp m = Err e /\ apply_mod p m = Err e) \/
  (exists sp' p', spec_mod sp m = Ok sp' /\ apply_mod p m = Ok p' /\ path_rel sp' p').
Proof.
  intros (Hparts & Hc & Hdt & Hmt & Hsrc).
  unfold apply_mod, spec_mod. rewrite dt_of_name_spec, mt_of_name_spec.
  destruct (sdt_of_name m) as [dt|]; cbn [option_map].
  - rewrite Hdt. destruct (sp_dt sp); cbn [sdt_to];
      first [ left; eexists; split; reflexivity
            | right; eexists; eexists; split; [reflexivity|split; [reflexivity|]];
              unfold path_rel; cbn [sp_parts sp_concrete sp_dt sp_mt sp_src p_parts p_concrete p_dt p_mt p_src]; auto ].
  - destruct (smt_of_name m) as [mt|]; cbn [option_map].
    + rewrite Hmt, Hc. destruct (sp_mt sp); cbn [smt_to];
        try (left; eexists; split; reflexivity).
      destruct (sp_concrete sp) eqn:Ec.
      * left; eexists; split; reflexivity.
      * right; eexists; eexists; split; [reflexivity|split; [reflexivity|]].
        unfold path_rel; cbn [sp_parts sp_concrete sp_dt sp_mt sp_src p_parts p_concrete p_dt p_mt p_src]. auto.
    + left; eexists; split; reflexivity.
Qed.

Lemma apply_mods_spec ms : forall sp p, path_rel sp p ->
  (exists e, spec_mods sp ms = Err e /\ apply_mods p ms = Err e) \/
  (exists sp' p', spec_mods sp ms = Ok sp' /\ apply_mods p ms = Ok p' /\ path_rel sp' p').
Proof.
  induction ms as [|m ms IH]; intros sp p Hrel; cbn [spec_mods apply_mods].
  - right. exists sp, p. auto.
  - destruct (apply_mod_spec sp p m Hrel) as [[e [E1 E2]]|[sp' [p' [E1 [E2 Hrel']]]]]; rewrite E1, E2; cbn [bind].
    + left. exists e. split; reflexivity.
    + apply IH. exact Hrel'.
Qed.

(* A (whole path): DataPath(parts, source_data).mods() *)
Theorem mk_path_spec st : spathterm_ok st = true ->
  (exists e, spath_of st = Err e /\ mk_path T idlit (spathterm_term st) = Err e) \/
  (exists sp p, spath_of st = Ok sp /\ mk_path T idlit (spathterm_term st) = Ok p /\ path_rel sp p).
Proof.
  intros Hok. unfold spathterm_ok in Hok. unfold mk_path, spath_of, spathterm_term.
  cbn [pt_parts pt_mods pt_src].
  destruct (mk_parts_spec (st_parts st) Hok) as [[e [E1 E2]]|[sps [ps [c [E1 [E2 HF]]]]]]; rewrite E1, E2; cbn [bind].
  - left. exists e. split; reflexivity.
  - apply apply_mods_spec. unfold path_rel.
    cbn [sp_parts sp_concrete sp_dt sp_mt sp_src p_parts p_concrete p_dt p_mt p_src sdt_to smt_to]. auto.
Qed.

(* ------------------------------------------------------------------ *)
(* The model of DataPath(parts..., source_data=src).mods().get_data(data, return_paths), for a
   path built through the API from typed parts, equals the specification: construction
   errors (TypeError / ValueError / AttributeError) included. *)
Theorem C03_model_meets_spec : forall (st : spathterm) (data : option pyval) (rp : bool),
  spathterm_ok st = true ->
  run_get (spathterm_term st) data rp = spec_path_get st data rp.
Proof.
  intros st data rp Hok. unfold run_get, spec_path_get.
  destruct (mk_path_spec st Hok) as [[e [E1 E2]]|[sp [p [E1 [E2 Hrel]]]]]; rewrite E1, E2; cbn [bind].
  - reflexivity.
  - apply get_data_spec. exact Hrel.
Qed.

Print Assumptions level_spec.
Print Assumptions walk_parts_first.
Print Assumptions part_filter_spec.
Print Assumptions get_data_spec.
Print Assumptions mk_part_spec.
Print Assumptions mk_path_spec.
Print Assumptions C03_model_meets_spec.
