(* C10: path-part specs, path specs (suffixes), path strings and rule specs parse to the objects the
   Python API builds.  Statements are about the models of ContainerValue.from_spec (part_spec_parse),
   DataPath.from_part_specs / from_spec / from_str and Rule.from_spec, run on the generated tables T / X.
   Facts about the tables are closed by computation. *)
From Coq Require Import ZArith NArith List Bool String Ascii Lia.
From Valida Require Import Py Lang Defs Cond Dsl Check DocSem Path Cast Str SpecDefs RuleDefs RuleTerms
  Spec SpecIO SpecSpell Eq FromStr Inst RunSpec.
From Valida.Proofs Require Import PyFacts Tie C02Proof RuleProof C09Proof.
From Valida Require Import Rule SpecSpell.
Import ListNotations.
Local Open Scope string_scope.
Local Open Scope list_scope.

(* ================================================================== *)
(* 4. path specs: datum-type / multiplicity suffixes                    *)

(* what a parsed path spec denotes: the DataPath object the constructors build from the term *)
Definition path_sem (r : res (pathterm pyval + pyval)) : res (dpath pyval + pyval) :=
  let* x := r in
  match x with
  | inl t => let* p := mk_path T idlit t in Ok (inl p)
  | inr v => Ok (inr v)
  end.

Notation sfx := (sx_suffix_lookup X).
Definition allowed (m : string) : bool := existsb (String.eqb m) (sx_allowed_suffixes X).

Lemma unescape_single k v : key_clean k = true ->
  unescape_keys [(VStr k, v)] [] [] false = Ok ([(VStr k, v)], false).
Proof.
  unfold key_clean. intros H. apply negb_true_iff in H. cbn [unescape_keys]. rewrite H. reflexivity.
Qed.

Definition with_mods (t : pathterm pyval) (ms : list string) : pathterm pyval :=
  {| pt_parts := pt_parts t; pt_mods := ms; pt_src := None |}.

(* the key `path` alone, with one suffix, with two suffixes *)
Lemma pfs_zero k v : key_clean k = true -> lower_tokens k = ["path"] ->
  path_from_spec T X (VDict [(VStr k, v)]) =
  let* parts := py_iter v in let* t := from_part_specs T X parts in Ok (inl (with_mods t [])).
Proof.
  intros Hc Ht. unfold path_from_spec, path_from_spec0. rewrite (unescape_single k v Hc). cbn [bind].
  rewrite Ht. cbn [hd List.length tl map String.eqb Ascii.eqb Bool.eqb negb orb andb Nat.leb].
  destruct (py_iter v) as [parts|e]; cbn [bind]; [|reflexivity].
  unfold from_part_specs.
  destruct (path_from_part_specs T X (cond0_from_spec T X spec_fuel) parts) as [t|e]; reflexivity.
Qed.

Lemma pfs_one k v a : key_clean k = true -> lower_tokens k = ["path"; a] ->
  path_from_spec T X (VDict [(VStr k, v)]) =
  let* parts := py_iter v in let* t := from_part_specs T X parts in
  let m1 := look sfx a in
  if negb (allowed m1) then Err MalformedPath
  else let* _ := mk_path T Spec.id0 (with_mods t [m1]) in Ok (inl (with_mods t [m1])).
Proof.
  intros Hc Ht. unfold path_from_spec, path_from_spec0. rewrite (unescape_single k v Hc). cbn [bind].
  rewrite Ht. cbn [hd List.length tl map String.eqb Ascii.eqb Bool.eqb negb orb andb Nat.leb].
  destruct (py_iter v) as [parts|e]; cbn [bind]; [|reflexivity].
  unfold from_part_specs.
  destruct (path_from_part_specs T X (cond0_from_spec T X spec_fuel) parts) as [t|e]; cbn [bind]; [|reflexivity].
  fold (look sfx a). fold (allowed (look sfx a)). cbv zeta.
  destruct (allowed (look sfx a)); cbn [negb app]; [|reflexivity].
  unfold with_mods. destruct (mk_path T Spec.id0 _); reflexivity.
Qed.

Lemma pfs_two k v a b : key_clean k = true -> lower_tokens k = ["path"; a; b] ->
  path_from_spec T X (VDict [(VStr k, v)]) =
  let* parts := py_iter v in let* t := from_part_specs T X parts in
  let m1 := look sfx a in let m2 := look sfx b in
  if negb (allowed m1) then Err MalformedPath
  else let* _ := mk_path T Spec.id0 (with_mods t [m1]) in
       if negb (allowed m2) then Err MalformedPath
       else let* _ := mk_path T Spec.id0 (with_mods t [m1; m2]) in Ok (inl (with_mods t [m1; m2])).
Proof.
  intros Hc Ht. unfold path_from_spec, path_from_spec0. rewrite (unescape_single k v Hc). cbn [bind].
  rewrite Ht. cbn [hd List.length tl map String.eqb Ascii.eqb Bool.eqb negb orb andb Nat.leb].
  destruct (py_iter v) as [parts|e]; cbn [bind]; [|reflexivity].
  unfold from_part_specs.
  destruct (path_from_part_specs T X (cond0_from_spec T X spec_fuel) parts) as [t|e]; cbn [bind]; [|reflexivity].
  fold (look sfx a). fold (look sfx b). fold (allowed (look sfx a)). fold (allowed (look sfx b)). cbv zeta.
  destruct (allowed (look sfx a)); cbn [negb app]; [|reflexivity].
  unfold with_mods. destruct (mk_path T Spec.id0 _); cbn [bind]; [|reflexivity].
  destruct (allowed (look sfx b)); cbn [negb app]; [|reflexivity].
  destruct (mk_path T Spec.id0 _); reflexivity.
Qed.

Lemma from_part_specs_inv l t : from_part_specs T X l = Ok t ->
  pt_mods t = [] /\ pt_src t = None /\ exists p, mk_path T Spec.id0 t = Ok p.
Proof.
  unfold from_part_specs, path_from_part_specs.
  destruct (parts_from_specs T X (cond0_from_spec T X spec_fuel) l) as [ps|e]; cbn [bind]; [|discriminate].
  destruct (mk_path T Spec.id0 _) as [p|e] eqn:E; cbn [bind]; [|discriminate].
  intros [= <-]. repeat split. exists p. exact E.
Qed.

Lemma mk_path_nomods t p : pt_mods t = [] -> mk_path T Spec.id0 t = Ok p ->
  p_dt p = DtNone /\ p_mt p = MtNone /\ p_src p = pt_src t /\
  forall ms, mk_path T Spec.id0 {| pt_parts := pt_parts t; pt_mods := ms; pt_src := pt_src t |} = apply_mods p ms.
Proof.
  unfold mk_path. intros Hm. rewrite Hm. cbn [pt_parts pt_mods pt_src].
  destruct (mk_parts T Spec.id0 (pt_parts t)) as [[ps conc]|e]; cbn [bind apply_mods]; [|discriminate].
  intros [= <-]. repeat split.
Qed.

(* the spellings of the suffixes: a name of the modifier table, or one of its aliases (type, len) *)
Definition dt_spelling (a : string) : option datum_type := dt_of_name (look sfx a).
Definition mt_spelling (a : string) : option multi_type := mt_of_name (look sfx a).

Example suffix_spellings :
  map dt_spelling ["dtype"; "type"; "length"; "len"; "map_keys"; "map_values"; "first"; "x"]
  = [Some DtDtype; Some DtDtype; Some DtLength; Some DtLength; Some DtMapKeys; Some DtMapValues; None; None] /\
  map mt_spelling ["first"; "last"; "single"; "all"; "any"; "len"]
  = [Some MtFirst; Some MtLast; Some MtSingle; Some MtAll; Some MtAny; None].
Proof. vm_compute. split; reflexivity. Qed.

Lemma dt_name_cases m dt : dt_of_name m = Some dt ->
  (m = "dtype" \/ m = "length" \/ m = "map_keys" \/ m = "map_values").
Proof.
  unfold dt_of_name.
  destruct (String.eqb_spec m "dtype"); [auto|]. destruct (String.eqb_spec m "length"); [auto|].
  destruct (String.eqb_spec m "map_keys"); [auto|]. destruct (String.eqb_spec m "map_values"); [auto|]. discriminate.
Qed.
Lemma mt_name_cases m mt : mt_of_name m = Some mt ->
  (m = "first" \/ m = "last" \/ m = "single" \/ m = "all" \/ m = "any").
Proof.
  unfold mt_of_name.
  destruct (String.eqb_spec m "first"); [auto|]. destruct (String.eqb_spec m "last"); [auto|].
  destruct (String.eqb_spec m "single"); [auto|]. destruct (String.eqb_spec m "all"); [auto|].
  destruct (String.eqb_spec m "any"); [auto 6|]. discriminate.
Qed.
Lemma dt_name_allowed m dt : dt_of_name m = Some dt -> allowed m = true.
Proof. intros H. destruct (dt_name_cases m dt H) as [-> | [-> | [-> | ->]]]; reflexivity. Qed.
Lemma mt_name_allowed m mt : mt_of_name m = Some mt -> allowed m = true /\ dt_of_name m = None.
Proof. intros H. destruct (mt_name_cases m mt H) as [-> | [-> | [-> | [-> | ->]]]]; split; reflexivity. Qed.

Lemma apply_mod_dt (p : dpath pyval) m dt : dt_of_name m = Some dt -> p_dt p = DtNone ->
  apply_mod p m = Ok (Build_dpath (p_parts p) (p_concrete p) dt (p_mt p) (p_src p)).
Proof. intros H1 H2. unfold apply_mod. rewrite H1, H2. reflexivity. Qed.
Lemma apply_mod_mt (p : dpath pyval) m mt : mt_of_name m = Some mt -> p_mt p = MtNone ->
  apply_mod p m = if p_concrete p then Err ValueError
                  else Ok (Build_dpath (p_parts p) (p_concrete p) (p_dt p) mt (p_src p)).
Proof.
  intros H1 H2. unfold apply_mod. destruct (mt_name_allowed m mt H1) as [_ Hd]. rewrite Hd, H1, H2. reflexivity.
Qed.

Definition mt_set (mt : multi_type) : bool := match mt with MtNone => false | _ => true end.

(* the DataPath object of a path spec with the given DATUM_TYPE / MULTI_TYPE *)
Definition suffix_result (dt : datum_type) (mt : multi_type) (v : pyval) : res (dpath pyval + pyval) :=
  let* parts := py_iter v in
  let* t := from_part_specs T X parts in
  let* p := mk_path T idlit t in
  if mt_set mt && p_concrete p then Err ValueError
  else Ok (inl (Build_dpath (p_parts p) (p_concrete p) dt mt None)).

Lemma suffix_none k v : key_clean k = true -> lower_tokens k = ["path"] ->
  path_sem (path_from_spec T X (VDict [(VStr k, v)])) = suffix_result DtNone MtNone v.
Proof.
  intros Hc Ht. rewrite (pfs_zero k v Hc Ht). unfold suffix_result, path_sem.
  destruct (py_iter v) as [parts|e]; cbn [bind]; [|reflexivity].
  destruct (from_part_specs T X parts) as [t|e] eqn:E; cbn [bind]; [|reflexivity].
  destruct (from_part_specs_inv parts t E) as [Hm [Hs [p Hp]]].
  destruct (mk_path_nomods t p Hm Hp) as [Hdt [Hmt [Hsrc Hms]]].
  unfold with_mods. rewrite <- Hs at 1. change idlit with Spec.id0. rewrite (Hms []), Hp. cbn [apply_mods bind mt_set andb].
  destruct p as [ps conc dt mt src]. cbn [p_dt p_mt p_src p_parts p_concrete] in *. subst. rewrite Hs. reflexivity.
Qed.

Lemma suffix_dt k v a dt : key_clean k = true -> lower_tokens k = ["path"; a] -> dt_spelling a = Some dt ->
  path_sem (path_from_spec T X (VDict [(VStr k, v)])) = suffix_result dt MtNone v.
Proof.
  intros Hc Ht Ha. rewrite (pfs_one k v a Hc Ht). unfold suffix_result, path_sem. unfold dt_spelling in Ha.
  destruct (py_iter v) as [parts|e]; cbn [bind]; [|reflexivity].
  destruct (from_part_specs T X parts) as [t|e] eqn:E; cbn [bind]; [|reflexivity].
  destruct (from_part_specs_inv parts t E) as [Hm [Hs [p Hp]]].
  destruct (mk_path_nomods t p Hm Hp) as [Hdt [Hmt [Hsrc Hms]]].
  cbv zeta. rewrite (dt_name_allowed _ _ Ha). cbn [negb].
  unfold with_mods. rewrite <- Hs. change idlit with Spec.id0. rewrite (Hms [_]), Hp. cbn [apply_mods bind mt_set andb].
  rewrite (apply_mod_dt p _ dt Ha Hdt). cbn [bind]. rewrite (Hms [_]). cbn [apply_mods].
  rewrite (apply_mod_dt p _ dt Ha Hdt). cbn [bind]. rewrite Hmt, Hsrc, Hs. reflexivity.
Qed.

Lemma suffix_mt k v b mt : key_clean k = true -> lower_tokens k = ["path"; b] -> mt_spelling b = Some mt ->
  path_sem (path_from_spec T X (VDict [(VStr k, v)])) = suffix_result DtNone mt v.
Proof.
  intros Hc Ht Hb. rewrite (pfs_one k v b Hc Ht). unfold suffix_result, path_sem. unfold mt_spelling in Hb.
  destruct (py_iter v) as [parts|e]; cbn [bind]; [|reflexivity].
  destruct (from_part_specs T X parts) as [t|e] eqn:E; cbn [bind]; [|reflexivity].
  destruct (from_part_specs_inv parts t E) as [Hm [Hs [p Hp]]].
  destruct (mk_path_nomods t p Hm Hp) as [Hdt [Hmt [Hsrc Hms]]].
  cbv zeta. destruct (mt_name_allowed _ _ Hb) as [Hal _]. rewrite Hal. cbn [negb].
  unfold with_mods. rewrite <- Hs. change idlit with Spec.id0. rewrite (Hms [_]), Hp. cbn [apply_mods bind].
  rewrite (apply_mod_mt p _ mt Hb Hmt).
  assert (Hset : mt_set mt = true) by (destruct mt; [destruct (mt_name_cases _ _ Hb) as [H|[H|[H|[H|H]]]]; rewrite H in Hb; discriminate Hb|..]; reflexivity).
  rewrite Hset. cbn [andb].
  destruct (p_concrete p) eqn:Ec; cbn [bind]; [reflexivity|].
  rewrite (Hms [_]). cbn [apply_mods]. rewrite (apply_mod_mt p _ mt Hb Hmt), Ec. cbn [bind].
  rewrite Hdt, Hsrc, Hs. reflexivity.
Qed.

Lemma mods_two (p : dpath pyval) m1 m2 dt mt :
  dt_of_name m1 = Some dt -> mt_of_name m2 = Some mt -> p_dt p = DtNone -> p_mt p = MtNone ->
  let r := if p_concrete p then Err ValueError else Ok (Build_dpath (p_parts p) (p_concrete p) dt mt (p_src p)) in
  apply_mods p [m1; m2] = r /\ apply_mods p [m2; m1] = r /\
  (exists p1, apply_mods p [m1] = Ok p1) /\
  (apply_mods p [m2] = if p_concrete p then Err ValueError
                       else Ok (Build_dpath (p_parts p) (p_concrete p) DtNone mt (p_src p))).
Proof.
  intros H1 H2 Hd Hm. cbv zeta. cbn [apply_mods].
  rewrite (apply_mod_dt p m1 dt H1 Hd), (apply_mod_mt p m2 mt H2 Hm). cbn [bind].
  rewrite (apply_mod_mt _ m2 mt H2 Hm). cbn [p_concrete p_parts p_dt p_mt p_src]. rewrite Hd.
  destruct (p_concrete p); cbn [bind]; repeat split; try (eexists; reflexivity).
  rewrite (apply_mod_dt _ m1 dt H1 eq_refl). reflexivity.
Qed.

Lemma suffix_dt_mt k v a b dt mt : key_clean k = true -> lower_tokens k = ["path"; a; b] ->
  dt_spelling a = Some dt -> mt_spelling b = Some mt ->
  path_sem (path_from_spec T X (VDict [(VStr k, v)])) = suffix_result dt mt v.
Proof.
  intros Hc Ht Ha Hb. rewrite (pfs_two k v a b Hc Ht). unfold suffix_result, path_sem.
  unfold dt_spelling in Ha. unfold mt_spelling in Hb.
  destruct (py_iter v) as [parts|e]; cbn [bind]; [|reflexivity].
  destruct (from_part_specs T X parts) as [t|e] eqn:E; cbn [bind]; [|reflexivity].
  destruct (from_part_specs_inv parts t E) as [Hm [Hs [p Hp]]].
  destruct (mk_path_nomods t p Hm Hp) as [Hdt [Hmt [Hsrc Hms]]].
  cbv zeta. rewrite (dt_name_allowed _ _ Ha). destruct (mt_name_allowed _ _ Hb) as [Hal _]. rewrite Hal. cbn [negb].
  unfold with_mods. rewrite <- Hs. change idlit with Spec.id0. rewrite !Hms, Hp. cbn [bind].
  destruct (mods_two p _ _ dt mt Ha Hb Hdt Hmt) as [R1 [_ [[p1 R3] _]]]. rewrite R3, R1. cbn [bind].
  assert (Hset : mt_set mt = true) by (destruct mt; [destruct (mt_name_cases _ _ Hb) as [H|[H|[H|[H|H]]]]; rewrite H in Hb; discriminate Hb|..]; reflexivity).
  rewrite Hset. cbn [andb].
  destruct (p_concrete p) eqn:Ec; cbn [bind]; [reflexivity|]. rewrite Hms, R1, Ec, Hsrc, Hs. reflexivity.
Qed.

Lemma suffix_mt_dt k v a b dt mt : key_clean k = true -> lower_tokens k = ["path"; b; a] ->
  dt_spelling a = Some dt -> mt_spelling b = Some mt ->
  path_sem (path_from_spec T X (VDict [(VStr k, v)])) = suffix_result dt mt v.
Proof.
  intros Hc Ht Ha Hb. rewrite (pfs_two k v b a Hc Ht). unfold suffix_result, path_sem.
  unfold dt_spelling in Ha. unfold mt_spelling in Hb.
  destruct (py_iter v) as [parts|e]; cbn [bind]; [|reflexivity].
  destruct (from_part_specs T X parts) as [t|e] eqn:E; cbn [bind]; [|reflexivity].
  destruct (from_part_specs_inv parts t E) as [Hm [Hs [p Hp]]].
  destruct (mk_path_nomods t p Hm Hp) as [Hdt [Hmt [Hsrc Hms]]].
  cbv zeta. rewrite (dt_name_allowed _ _ Ha). destruct (mt_name_allowed _ _ Hb) as [Hal _]. rewrite Hal. cbn [negb].
  unfold with_mods. rewrite <- Hs. change idlit with Spec.id0. rewrite !Hms, Hp. cbn [bind].
  destruct (mods_two p _ _ dt mt Ha Hb Hdt Hmt) as [_ [R2 [_ R4]]]. rewrite R4, R2.
  assert (Hset : mt_set mt = true) by (destruct mt; [destruct (mt_name_cases _ _ Hb) as [H|[H|[H|[H|H]]]]; rewrite H in Hb; discriminate Hb|..]; reflexivity).
  rewrite Hset. cbn [andb].
  destruct (p_concrete p) eqn:Ec; cbn [bind]; [reflexivity|]. rewrite Hms, R2, Ec, Hsrc, Hs. reflexivity.
Qed.

(* C10 (4): "path.<dtype>.<multi>" and "path.<multi>.<dtype>" -- every datum-type and multiplicity name
   of the tables, their aliases, any letter case (the hypotheses are on the LOWER-CASED tokens) --
   denote the same DataPath; each suffix sets the corresponding field, an absent suffix leaves the
   default; for EVERY value v under the key (errors included).  Side condition: the key does not
   contain the escape code "\path" (such a mapping is an escaped literal, not a path spec). *)
Theorem C10_suffix_order : forall k1 k2 a b dt mt v,
  key_clean k1 = true -> key_clean k2 = true ->
  lower_tokens k1 = ["path"; a; b] -> lower_tokens k2 = ["path"; b; a] ->
  dt_spelling a = Some dt -> mt_spelling b = Some mt ->
  path_sem (path_from_spec T X (VDict [(VStr k1, v)])) = suffix_result dt mt v /\
  path_sem (path_from_spec T X (VDict [(VStr k2, v)])) = suffix_result dt mt v.
Proof.
  intros k1 k2 a b dt mt v H1 H2 T1 T2 Ha Hb. split.
  - exact (suffix_dt_mt k1 v a b dt mt H1 T1 Ha Hb).
  - exact (suffix_mt_dt k2 v a b dt mt H2 T2 Ha Hb).
Qed.

Theorem C10_suffix_single : forall k v,
  key_clean k = true ->
  (lower_tokens k = ["path"] -> path_sem (path_from_spec T X (VDict [(VStr k, v)])) = suffix_result DtNone MtNone v) /\
  (forall a dt, lower_tokens k = ["path"; a] -> dt_spelling a = Some dt ->
     path_sem (path_from_spec T X (VDict [(VStr k, v)])) = suffix_result dt MtNone v) /\
  (forall b mt, lower_tokens k = ["path"; b] -> mt_spelling b = Some mt ->
     path_sem (path_from_spec T X (VDict [(VStr k, v)])) = suffix_result DtNone mt v).
Proof.
  intros k v Hc. repeat split.
  - exact (suffix_none k v Hc).
  - intros a dt Ht Ha. exact (suffix_dt k v a dt Hc Ht Ha).
  - intros b mt Ht Hb. exact (suffix_mt k v b mt Hc Ht Hb).
Qed.

(* the fields of the result *)
Lemma suffix_result_fields dt mt v p : suffix_result dt mt v = Ok (inl p) -> p_dt p = dt /\ p_mt p = mt.
Proof.
  unfold suffix_result. destruct (py_iter v) as [parts|e]; cbn [bind]; [|discriminate].
  destruct (from_part_specs T X parts) as [t|e]; cbn [bind]; [|discriminate].
  destruct (mk_path T idlit t) as [q|e]; cbn [bind]; [|discriminate].
  destruct (mt_set mt && p_concrete q); [discriminate|]. intros [= <-]. split; reflexivity.
Qed.

Example suffix_example :
  path_sem (path_from_spec T X (VDict [(VStr "Path.TYPE.First", VList [VDict [(VStr "type", VStr "list_value")]])]))
  = path_sem (path_from_spec T X (VDict [(VStr "PATH.first.dtype", VList [VDict [(VStr "type", VStr "list_value")]])])) /\
  rmap (fun x => match x with inl p => Some (p_dt p, p_mt p) | inr _ => None end)
    (path_sem (path_from_spec T X (VDict [(VStr "Path.TYPE.First", VList [VDict [(VStr "type", VStr "list_value")]])])))
  = Ok (Some (DtDtype, MtFirst)).
Proof. vm_compute. split; reflexivity. Qed.

(* two datum types, or two multiplicities, are refused *)
Example suffix_twice :
  path_from_spec T X (VDict [(VStr "path.len.type", VList [VDict []])]) = Err ValueError /\
  path_from_spec T X (VDict [(VStr "path.first.last", VList [VDict []])]) = Err ValueError.
Proof. vm_compute. split; reflexivity. Qed.
