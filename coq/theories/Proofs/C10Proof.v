(* C10: path-part specs, path specs (suffixes), path strings and rule specs parse to the objects the
   Python API builds.  Statements are about the models of ContainerValue.from_spec (part_spec_parse),
   DataPath.from_part_specs / from_spec / from_str and Rule.from_spec, run on the generated tables T / X.
   Facts about the tables are closed by computation. *)
From Coq Require Import ZArith NArith List Bool String Ascii Lia.
From Valida Require Import Py Lang Defs Cond Dsl Check DocSem Path Cast Str SpecDefs RuleDefs RuleTerms
  Spec SpecIO SpecSpell Eq FromStr Inst RunSpec.
From Valida.Proofs Require Import PyFacts Tie C02Proof RuleProof C09Proof.
From Valida Require Import Rule SpecSpell.
Import ListNotations.
Local Open Scope string_scope.
Local Open Scope list_scope.

(* ================================================================== *)
(* 4. path specs: datum-type / multiplicity suffixes                    *)

(* what a parsed path spec denotes: the DataPath object the constructors build from the term *)
Definition path_sem (r : res (pathterm pyval + pyval)) : res (dpath pyval + pyval) :=
  let* x := r in
  match x with
  | inl t => let* p := mk_path T idlit t in Ok (inl p)
  | inr v => Ok (inr v)
  end.

Notation sfx := (sx_suffix_lookup X).
Definition allowed (m : string) : bool := existsb (String.eqb m) (sx_allowed_suffixes X).

Lemma unescape_single k v : key_clean k = true ->
  unescape_keys [(VStr k, v)] [] [] false = Ok ([(VStr k, v)], false).
Proof.
  unfold key_clean. intros H. apply negb_true_iff in H. cbn [unescape_keys]. rewrite H. reflexivity.
Qed.

Definition with_mods (t : pathterm pyval) (ms : list string) : pathterm pyval :=
  {| pt_parts := pt_parts t; pt_mods := ms; pt_src := None |}.

(* the key `path` alone, with one suffix, with two suffixes *)
Lemma pfs_zero k v : key_clean k = true -> lower_tokens k = ["path"] ->
  path_from_spec T X (VDict [(VStr k, v)]) =
  let* parts := py_iter v in let* t := from_part_specs T X parts in Ok (inl (with_mods t [])).
Proof.
  intros Hc Ht. unfold path_from_spec, path_from_spec0. rewrite (unescape_single k v Hc). cbn [bind].
  rewrite Ht. cbn [hd List.length tl map String.eqb Ascii.eqb Bool.eqb negb orb andb Nat.leb].
  destruct (py_iter v) as [parts|e]; cbn [bind]; [|reflexivity].
  unfold from_part_specs.
  destruct (path_from_part_specs T X (cond0_from_spec T X spec_fuel) parts) as [t|e]; reflexivity.
Qed.

Lemma pfs_one k v a : key_clean k = true -> lower_tokens k = ["path"; a] ->
  path_from_spec T X (VDict [(VStr k, v)]) =
  let* parts := py_iter v in let* t := from_part_specs T X parts in
  let m1 := look sfx a in
  if negb (allowed m1) then Err MalformedPath
  else let* _ := mk_path T Spec.id0 (with_mods t [m1]) in Ok (inl (with_mods t [m1])).
Proof.
  intros Hc Ht. unfold path_from_spec, path_from_spec0. rewrite (unescape_single k v Hc). cbn [bind].
  rewrite Ht. cbn [hd List.length tl map String.eqb Ascii.eqb Bool.eqb negb orb andb Nat.leb].
  destruct (py_iter v) as [parts|e]; cbn [bind]; [|reflexivity].
  unfold from_part_specs.
  destruct (path_from_part_specs T X (cond0_from_spec T X spec_fuel) parts) as [t|e]; cbn [bind]; [|reflexivity].
  fold (look sfx a). fold (allowed (look sfx a)). cbv zeta.
  destruct (allowed (look sfx a)); cbn [negb app]; [|reflexivity].
  unfold with_mods. destruct (mk_path T Spec.id0 _); reflexivity.
Qed.

Lemma pfs_two k v a b : key_clean k = true -> lower_tokens k = ["path"; a; b] ->
  path_from_spec T X (VDict [(VStr k, v)]) =
  let* parts := py_iter v in let* t := from_part_specs T X parts in
  let m1 := look sfx a in let m2 := look sfx b in
  if negb (allowed m1) then Err MalformedPath
  else let* _ := mk_path T Spec.id0 (with_mods t [m1]) in
       if negb (allowed m2) then Err MalformedPath
       else let* _ := mk_path T Spec.id0 (with_mods t [m1; m2]) in Ok (inl (with_mods t [m1; m2])).
Proof.
  intros Hc Ht. unfold path_from_spec, path_from_spec0. rewrite (unescape_single k v Hc). cbn [bind].
  rewrite Ht. cbn [hd List.length tl map String.eqb Ascii.eqb Bool.eqb negb orb andb Nat.leb].
  destruct (py_iter v) as [parts|e]; cbn [bind]; [|reflexivity].
  unfold from_part_specs.
  destruct (path_from_part_specs T X (cond0_from_spec T X spec_fuel) parts) as [t|e]; cbn [bind]; [|reflexivity].
  fold (look sfx a). fold (look sfx b). fold (allowed (look sfx a)). fold (allowed (look sfx b)). cbv zeta.
  destruct (allowed (look sfx a)); cbn [negb app]; [|reflexivity].
  unfold with_mods. destruct (mk_path T Spec.id0 _); cbn [bind]; [|reflexivity].
  destruct (allowed (look sfx b)); cbn [negb app]; [|reflexivity].
  destruct (mk_path T Spec.id0 _); reflexivity.
Qed.

Lemma from_part_specs_inv l t : from_part_specs T X l = Ok t ->
  pt_mods t = [] /\ pt_src t = None /\ exists p, mk_path T Spec.id0 t = Ok p.
Proof.
  unfold from_part_specs, path_from_part_specs.
  destruct (parts_from_specs T X (cond0_from_spec T X spec_fuel) l) as [ps|e]; cbn [bind]; [|discriminate].
  destruct (mk_path T Spec.id0 _) as [p|e] eqn:E; cbn [bind]; [|discriminate].
  intros [= <-]. repeat split. exists p. exact E.
Qed.

Lemma mk_path_nomods t p : pt_mods t = [] -> mk_path T Spec.id0 t = Ok p ->
  p_dt p = DtNone /\ p_mt p = MtNone /\ p_src p = pt_src t /\
  forall ms, mk_path T Spec.id0 {| pt_parts := pt_parts t; pt_mods := ms; pt_src := pt_src t |} = apply_mods p ms.
Proof.
  unfold mk_path. intros Hm. rewrite Hm. cbn [pt_parts pt_mods pt_src].
  destruct (mk_parts T Spec.id0 (pt_parts t)) as [[ps conc]|e]; cbn [bind apply_mods]; [|discriminate].
  intros [= <-]. repeat split.
Qed.

(* the spellings of the suffixes: a name of the modifier table, or one of its aliases (type, len) *)
Definition dt_spelling (a : string) : option datum_type := dt_of_name (look sfx a).
Definition mt_spelling (a : string) : option multi_type := mt_of_name (look sfx a).

Example suffix_spellings :
  map dt_spelling ["dtype"; "type"; "length"; "len"; "map_keys"; "map_values"; "first"; "x"]
  = [Some DtDtype; Some DtDtype; Some DtLength; Some DtLength; Some DtMapKeys; Some DtMapValues; None; None] /\
  map mt_spelling ["first"; "last"; "single"; "all"; "any"; "len"]
  = [Some MtFirst; Some MtLast; Some MtSingle; Some MtAll; Some MtAny; None].
Proof. vm_compute. split; reflexivity. Qed.

Lemma dt_name_cases m dt : dt_of_name m = Some dt ->
  (m = "dtype" \/ m = "length" \/ m = "map_keys" \/ m = "map_values").
Proof.
  unfold dt_of_name.
  destruct (String.eqb_spec m "dtype"); [auto|]. destruct (String.eqb_spec m "length"); [auto|].
  destruct (String.eqb_spec m "map_keys"); [auto|]. destruct (String.eqb_spec m "map_values"); [auto|]. discriminate.
Qed.
Lemma mt_name_cases m mt : mt_of_name m = Some mt ->
  (m = "first" \/ m = "last" \/ m = "single" \/ m = "all" \/ m = "any").
Proof.
  unfold mt_of_name.
  destruct (String.eqb_spec m "first"); [auto|]. destruct (String.eqb_spec m "last"); [auto|].
  destruct (String.eqb_spec m "single"); [auto|]. destruct (String.eqb_spec m "all"); [auto|].
  destruct (String.eqb_spec m "any"); [auto 6|]. discriminate.
Qed.
Lemma dt_name_allowed m dt : dt_of_name m = Some dt -> allowed m = true.
Proof. intros H. destruct (dt_name_cases m dt H) as [-> | [-> | [-> | ->]]]; reflexivity. Qed.
Lemma mt_name_allowed m mt : mt_of_name m = Some mt -> allowed m = true /\ dt_of_name m = None.
Proof. intros H. destruct (mt_name_cases m mt H) as [-> | [-> | [-> | [-> | ->]]]]; split; reflexivity. Qed.

Lemma apply_mod_dt (p : dpath pyval) m dt : dt_of_name m = Some dt -> p_dt p = DtNone ->
  apply_mod p m = Ok (Build_dpath (p_parts p) (p_concrete p) dt (p_mt p) (p_src p)).
Proof. intros H1 H2. unfold apply_mod. rewrite H1, H2. reflexivity. Qed.
Lemma apply_mod_mt (p : dpath pyval) m mt : mt_of_name m = Some mt -> p_mt p = MtNone ->
  apply_mod p m = if p_concrete p then Err ValueError
                  else Ok (Build_dpath (p_parts p) (p_concrete p) (p_dt p) mt (p_src p)).
Proof.
  intros H1 H2. unfold apply_mod. destruct (mt_name_allowed m mt H1) as [_ Hd]. rewrite Hd, H1, H2. reflexivity.
Qed.

Definition mt_set (mt : multi_type) : bool := match mt with MtNone => false | _ => true end.

(* the DataPath object of a path spec with the given DATUM_TYPE / MULTI_TYPE *)
Definition suffix_result (dt : datum_type) (mt : multi_type) (v : pyval) : res (dpath pyval + pyval) :=
  let* parts := py_iter v in
  let* t := from_part_specs T X parts in
  let* p := mk_path T idlit t in
  if mt_set mt && p_concrete p then Err ValueError
  else Ok (inl (Build_dpath (p_parts p) (p_concrete p) dt mt None)).

Lemma suffix_none k v : key_clean k = true -> lower_tokens k = ["path"] ->
  path_sem (path_from_spec T X (VDict [(VStr k, v)])) = suffix_result DtNone MtNone v.
Proof.
  intros Hc Ht. rewrite (pfs_zero k v Hc Ht). unfold suffix_result, path_sem.
  destruct (py_iter v) as [parts|e]; cbn [bind]; [|reflexivity].
  destruct (from_part_specs T X parts) as [t|e] eqn:E; cbn [bind]; [|reflexivity].
  destruct (from_part_specs_inv parts t E) as [Hm [Hs [p Hp]]].
  destruct (mk_path_nomods t p Hm Hp) as [Hdt [Hmt [Hsrc Hms]]].
  unfold with_mods. rewrite <- Hs at 1. change idlit with Spec.id0. rewrite (Hms []), Hp. cbn [apply_mods bind mt_set andb].
  destruct p as [ps conc dt mt src]. cbn [p_dt p_mt p_src p_parts p_concrete] in *. subst. rewrite Hs. reflexivity.
Qed.

Lemma suffix_dt k v a dt : key_clean k = true -> lower_tokens k = ["path"; a] -> dt_spelling a = Some dt ->
  path_sem (path_from_spec T X (VDict [(VStr k, v)])) = suffix_result dt MtNone v.
Proof.
  intros Hc Ht Ha. rewrite (pfs_one k v a Hc Ht). unfold suffix_result, path_sem. unfold dt_spelling in Ha.
  destruct (py_iter v) as [parts|e]; cbn [bind]; [|reflexivity].
  destruct (from_part_specs T X parts) as [t|e] eqn:E; cbn [bind]; [|reflexivity].
  destruct (from_part_specs_inv parts t E) as [Hm [Hs [p Hp]]].
  destruct (mk_path_nomods t p Hm Hp) as [Hdt [Hmt [Hsrc Hms]]].
  cbv zeta. rewrite (dt_name_allowed _ _ Ha). cbn [negb].
  unfold with_mods. rewrite <- Hs. change idlit with Spec.id0. rewrite (Hms [_]), Hp. cbn [apply_mods bind mt_set andb].
  rewrite (apply_mod_dt p _ dt Ha Hdt). cbn [bind]. rewrite (Hms [_]). cbn [apply_mods].
  rewrite (apply_mod_dt p _ dt Ha Hdt). cbn [bind]. rewrite Hmt, Hsrc, Hs. reflexivity.
Qed.

Lemma suffix_mt k v b mt : key_clean k = true -> lower_tokens k = ["path"; b] -> mt_spelling b = Some mt ->
  path_sem (path_from_spec T X (VDict [(VStr k, v)])) = suffix_result DtNone mt v.
Proof.
  intros Hc Ht Hb. rewrite (pfs_one k v b Hc Ht). unfold suffix_result, path_sem. unfold mt_spelling in Hb.
  destruct (py_iter v) as [parts|e]; cbn [bind]; [|reflexivity].
  destruct (from_part_specs T X parts) as [t|e] eqn:E; cbn [bind]; [|reflexivity].
  destruct (from_part_specs_inv parts t E) as [Hm [Hs [p Hp]]].
  destruct (mk_path_nomods t p Hm Hp) as [Hdt [Hmt [Hsrc Hms]]].
  cbv zeta. destruct (mt_name_allowed _ _ Hb) as [Hal _]. rewrite Hal. cbn [negb].
  unfold with_mods. rewrite <- Hs. change idlit with Spec.id0. rewrite (Hms [_]), Hp. cbn [apply_mods bind].
  rewrite (apply_mod_mt p _ mt Hb Hmt).
  assert (Hset : mt_set mt = true) by (destruct mt; [destruct (mt_name_cases _ _ Hb) as [H|[H|[H|[H|H]]]]; rewrite H in Hb; discriminate Hb|..]; reflexivity).
  rewrite Hset. cbn [andb].
  destruct (p_concrete p) eqn:Ec; cbn [bind]; [reflexivity|].
  rewrite (Hms [_]). cbn [apply_mods]. rewrite (apply_mod_mt p _ mt Hb Hmt), Ec. cbn [bind].
  rewrite Hdt, Hsrc, Hs. reflexivity.
Qed.

Lemma mods_two (p : dpath pyval) m1 m2 dt mt :
  dt_of_name m1 = Some dt -> mt_of_name m2 = Some mt -> p_dt p = DtNone -> p_mt p = MtNone ->
  let r := if p_concrete p then Err ValueError else Ok (Build_dpath (p_parts p) (p_concrete p) dt mt (p_src p)) in
  apply_mods p [m1; m2] = r /\ apply_mods p [m2; m1] = r /\
  (exists p1, apply_mods p [m1] = Ok p1) /\
  (apply_mods p [m2] = if p_concrete p then Err ValueError
                       else Ok (Build_dpath (p_parts p) (p_concrete p) DtNone mt (p_src p))).
Proof.
  intros H1 H2 Hd Hm. cbv zeta. cbn [apply_mods].
  rewrite (apply_mod_dt p m1 dt H1 Hd), (apply_mod_mt p m2 mt H2 Hm). cbn [bind].
  rewrite (apply_mod_mt (Build_dpath (p_parts p) (p_concrete p) dt (p_mt p) (p_src p)) m2 mt H2 Hm).
  cbn [p_concrete p_parts p_dt p_mt p_src]. rewrite Hd.
  destruct (p_concrete p); cbn [bind]; repeat split; try (eexists; reflexivity).
  rewrite (apply_mod_dt (Build_dpath (p_parts p) false DtNone mt (p_src p)) m1 dt H1 eq_refl). reflexivity.
Qed.

Lemma suffix_dt_mt k v a b dt mt : key_clean k = true -> lower_tokens k = ["path"; a; b] ->
  dt_spelling a = Some dt -> mt_spelling b = Some mt ->
  path_sem (path_from_spec T X (VDict [(VStr k, v)])) = suffix_result dt mt v.
Proof.
  intros Hc Ht Ha Hb. rewrite (pfs_two k v a b Hc Ht). unfold suffix_result, path_sem.
  unfold dt_spelling in Ha. unfold mt_spelling in Hb.
  destruct (py_iter v) as [parts|e]; cbn [bind]; [|reflexivity].
  destruct (from_part_specs T X parts) as [t|e] eqn:E; cbn [bind]; [|reflexivity].
  destruct (from_part_specs_inv parts t E) as [Hm [Hs [p Hp]]].
  destruct (mk_path_nomods t p Hm Hp) as [Hdt [Hmt [Hsrc Hms]]].
  cbv zeta. rewrite (dt_name_allowed _ _ Ha). destruct (mt_name_allowed _ _ Hb) as [Hal _]. rewrite Hal. cbn [negb].
  unfold with_mods. rewrite <- Hs. change idlit with Spec.id0. rewrite !Hms, Hp. cbn [bind].
  destruct (mods_two p _ _ dt mt Ha Hb Hdt Hmt) as [R1 [_ [[p1 R3] _]]]. rewrite R3, R1. cbn [bind].
  assert (Hset : mt_set mt = true) by (destruct mt; [destruct (mt_name_cases _ _ Hb) as [H|[H|[H|[H|H]]]]; rewrite H in Hb; discriminate Hb|..]; reflexivity).
  rewrite Hset. cbn [andb].
  destruct (p_concrete p) eqn:Ec; cbn [bind]; [reflexivity|]. rewrite Hms, R1. cbn [bind]. rewrite Hsrc. reflexivity.
Qed.

Lemma suffix_mt_dt k v a b dt mt : key_clean k = true -> lower_tokens k = ["path"; b; a] ->
  dt_spelling a = Some dt -> mt_spelling b = Some mt ->
  path_sem (path_from_spec T X (VDict [(VStr k, v)])) = suffix_result dt mt v.
Proof.
  intros Hc Ht Ha Hb. rewrite (pfs_two k v b a Hc Ht). unfold suffix_result, path_sem.
  unfold dt_spelling in Ha. unfold mt_spelling in Hb.
  destruct (py_iter v) as [parts|e]; cbn [bind]; [|reflexivity].
  destruct (from_part_specs T X parts) as [t|e] eqn:E; cbn [bind]; [|reflexivity].
  destruct (from_part_specs_inv parts t E) as [Hm [Hs [p Hp]]].
  destruct (mk_path_nomods t p Hm Hp) as [Hdt [Hmt [Hsrc Hms]]].
  cbv zeta. rewrite (dt_name_allowed _ _ Ha). destruct (mt_name_allowed _ _ Hb) as [Hal _]. rewrite Hal. cbn [negb].
  unfold with_mods. rewrite <- Hs. change idlit with Spec.id0. rewrite !Hms, Hp. cbn [bind].
  destruct (mods_two p _ _ dt mt Ha Hb Hdt Hmt) as [_ [R2 [_ R4]]]. rewrite R4, R2.
  assert (Hset : mt_set mt = true) by (destruct mt; [destruct (mt_name_cases _ _ Hb) as [H|[H|[H|[H|H]]]]; rewrite H in Hb; discriminate Hb|..]; reflexivity).
  rewrite Hset. cbn [andb].
  destruct (p_concrete p) eqn:Ec; cbn [bind]; [reflexivity|]. rewrite Hms, R2. cbn [bind]. rewrite Hsrc. reflexivity.
Qed.

(* C10 (4): "path.<dtype>.<multi>" and "path.<multi>.<dtype>" -- every datum-type and multiplicity name
   of the tables, their aliases, any letter case (the hypotheses are on the LOWER-CASED tokens) --
   denote the same DataPath; each suffix sets the corresponding field, an absent suffix leaves the
   default; for EVERY value v under the key (errors included).  Side condition: the key does not
   contain the escape code "\path" (such a mapping is an escaped literal, not a path spec). *)
Theorem C10_suffix_order : forall k1 k2 a b dt mt v,
  key_clean k1 = true -> key_clean k2 = true ->
  lower_tokens k1 = ["path"; a; b] -> lower_tokens k2 = ["path"; b; a] ->
  dt_spelling a = Some dt -> mt_spelling b = Some mt ->
  path_sem (path_from_spec T X (VDict [(VStr k1, v)])) = suffix_result dt mt v /\
  path_sem (path_from_spec T X (VDict [(VStr k2, v)])) = suffix_result dt mt v.
Proof.
  intros k1 k2 a b dt mt v H1 H2 T1 T2 Ha Hb. split.
  - exact (suffix_dt_mt k1 v a b dt mt H1 T1 Ha Hb).
  - exact (suffix_mt_dt k2 v a b dt mt H2 T2 Ha Hb).
Qed.

Theorem C10_suffix_single : forall k v,
  key_clean k = true ->
  (lower_tokens k = ["path"] -> path_sem (path_from_spec T X (VDict [(VStr k, v)])) = suffix_result DtNone MtNone v) /\
  (forall a dt, lower_tokens k = ["path"; a] -> dt_spelling a = Some dt ->
     path_sem (path_from_spec T X (VDict [(VStr k, v)])) = suffix_result dt MtNone v) /\
  (forall b mt, lower_tokens k = ["path"; b] -> mt_spelling b = Some mt ->
     path_sem (path_from_spec T X (VDict [(VStr k, v)])) = suffix_result DtNone mt v).
Proof.
  intros k v Hc. repeat split.
  - exact (suffix_none k v Hc).
  - intros a dt Ht Ha. exact (suffix_dt k v a dt Hc Ht Ha).
  - intros b mt Ht Hb. exact (suffix_mt k v b mt Hc Ht Hb).
Qed.

(* the fields of the result *)
Lemma suffix_result_fields dt mt v p : suffix_result dt mt v = Ok (inl p) -> p_dt p = dt /\ p_mt p = mt.
Proof.
  unfold suffix_result. destruct (py_iter v) as [parts|e]; cbn [bind]; [|discriminate].
  destruct (from_part_specs T X parts) as [t|e]; cbn [bind]; [|discriminate].
  destruct (mk_path T idlit t) as [q|e]; cbn [bind]; [|discriminate].
  destruct (mt_set mt && p_concrete q); [discriminate|]. intros [= <-]. split; reflexivity.
Qed.

Example suffix_example :
  path_sem (path_from_spec T X (VDict [(VStr "Path.TYPE.First", VList [VDict [(VStr "type", VStr "list_value")]])]))
  = path_sem (path_from_spec T X (VDict [(VStr "PATH.first.dtype", VList [VDict [(VStr "type", VStr "list_value")]])])) /\
  rmap (fun x => match x with inl p => Some (p_dt p, p_mt p) | inr _ => None end)
    (path_sem (path_from_spec T X (VDict [(VStr "Path.TYPE.First", VList [VDict [(VStr "type", VStr "list_value")]])])))
  = Ok (Some (DtDtype, MtFirst)).
Proof. vm_compute. split; reflexivity. Qed.

(* two datum types, or two multiplicities, are refused *)
Example suffix_twice :
  path_from_spec T X (VDict [(VStr "path.len.type", VList [VDict []])]) = Err ValueError /\
  path_from_spec T X (VDict [(VStr "path.first.last", VList [VDict []])]) = Err ValueError.
Proof. vm_compute. split; reflexivity. Qed.

(* ================================================================== *)
(* 2. the dotted shorthands of part specs                               *)

Lemma py_eq_str a b : py_eq (VStr a) (VStr b) = String.eqb a b.
Proof. reflexivity. Qed.

Definition key_is (k : string) (kv : pyval * pyval) : bool := py_eq (VStr k) (fst kv).
Definition no_key (k : string) (d : list (pyval * pyval)) : bool := forallb (fun kv => negb (key_is k kv)) d.

Lemma dict_pop_none k d : no_key k d = true -> dict_pop k d = (None, d).
Proof.
  induction d as [|[k2 v] r IH]; cbn [no_key forallb dict_pop key_is fst]; [reflexivity|].
  intros H. apply andb_true_iff in H as [H1 H2]. apply negb_true_iff in H1. unfold key_is in H1. cbn [fst] in H1.
  rewrite H1. fold (no_key k r) in H2. rewrite (IH H2). reflexivity.
Qed.
Lemma dict_pop_hit k v r : dict_pop k ((VStr k, v) :: r) = (Some v, r).
Proof. cbn [dict_pop]. rewrite py_eq_str, String.eqb_refl. reflexivity. Qed.

(* a shorthand entry: a str key starting with `value.` / `key.` / `index.` *)
Definition is_short (pre : string) (kv : pyval * pyval) : bool :=
  match fst kv with VStr s => String.prefix pre s | _ => false end.
Definition not_short (pre : string) (kv : pyval * pyval) : bool := negb (is_short pre kv).

Lemma split_short_eq pre d : split_short pre d = Ok (filter (is_short pre) d, filter (not_short pre) d).
Proof.
  induction d as [|[k v] r IH]; cbn [split_short filter]; [reflexivity|].
  unfold not_short. destruct k; cbn [is_short fst negb]; rewrite IH; cbn [bind]; try reflexivity.
  destruct (String.prefix pre s); reflexivity.
Qed.

Definition lab_of (o : option pyval) : list (pyval * pyval) :=
  match o with Some l => [(VStr "label", l)] | None => [] end.

Definition short_prefixes : list string := ["value."; "key."; "index."].
Definition reserved_keys : list string :=
  ["type"; "condition"; "list_condition"; "map_condition"; "value"; "key"; "index"; "label"].

(* every entry is a shorthand of one of the given prefixes *)
Definition shorts_of (pres : list string) (d : list (pyval * pyval)) : bool :=
  forallb (fun kv => existsb (fun pre => is_short pre kv) pres) d.

Lemma prefix_eq_false pre k s : String.prefix pre s = true -> String.prefix pre k = false -> String.eqb k s = false.
Proof. intros H1 H2. destruct (String.eqb_spec k s) as [->|]; [congruence|reflexivity]. Qed.

Lemma short_no_key pres k d :
  shorts_of pres d = true -> forallb (fun pre => negb (String.prefix pre k)) pres = true -> no_key k d = true.
Proof.
  intros Hd Hk. unfold shorts_of in Hd. unfold no_key. rewrite forallb_forall in *. intros [k2 v] Hin.
  specialize (Hd _ Hin). apply existsb_exists in Hd as [pre [Hpre Hs]]. specialize (Hk _ Hpre).
  apply negb_true_iff in Hk. unfold is_short in Hs. cbn [fst] in Hs. unfold key_is. cbn [fst].
  destruct k2; try discriminate Hs. rewrite py_eq_str, (prefix_eq_false pre k s Hs Hk). reflexivity.
Qed.

Lemma no_key_app k a b : no_key k (a ++ b) = no_key k a && no_key k b.
Proof. unfold no_key. apply forallb_app. Qed.

Lemma shorts_of_sub pres d : shorts_of pres d = true ->
  forallb (fun p => existsb (String.eqb p) short_prefixes) pres = true -> shorts_of short_prefixes d = true.
Proof.
  unfold shorts_of. intros Hd Hp. rewrite forallb_forall in *. intros kv Hin. specialize (Hd kv Hin).
  apply existsb_exists in Hd as [pre [Hpre Hs]]. specialize (Hp pre Hpre).
  apply existsb_exists in Hp as [q [Hq E]]. apply String.eqb_eq in E. subst q.
  apply existsb_exists. exists pre. split; assumption.
Qed.

(* none of the reserved keys is among shorthand entries (followed by a label entry, for all keys but `label`) *)
Lemma reserved_absent k d o :
  shorts_of short_prefixes d = true -> In k reserved_keys -> k <> "label" -> no_key k (d ++ lab_of o) = true.
Proof.
  intros Hd Hin Hk. rewrite no_key_app. apply andb_true_iff. split.
  - apply (short_no_key short_prefixes k d Hd).
    cbn [In reserved_keys] in Hin. repeat (destruct Hin as [<-|Hin]; [reflexivity|]). contradiction.
  - destruct o as [l|]; [|reflexivity]. unfold no_key, key_is. cbn [lab_of forallb fst]. rewrite py_eq_str.
    cbn [In reserved_keys] in Hin. repeat (destruct Hin as [<-|Hin]; [try reflexivity; try congruence|]). contradiction.
Qed.

Lemma label_absent d : shorts_of short_prefixes d = true -> no_key "label" d = true.
Proof. intros Hd. apply (short_no_key short_prefixes "label" d Hd). reflexivity. Qed.

Lemma filter_lab pre d o : In pre short_prefixes ->
  filter (is_short pre) (d ++ lab_of o) = filter (is_short pre) d /\
  filter (not_short pre) (d ++ lab_of o) = filter (not_short pre) d ++ lab_of o.
Proof.
  intros Hin. rewrite !filter_app.
  assert (H : filter (is_short pre) (lab_of o) = [] /\ filter (not_short pre) (lab_of o) = lab_of o).
  { cbn [In short_prefixes] in Hin. destruct o as [l|]; [|split; reflexivity].
    repeat (destruct Hin as [<-|Hin]; [split; reflexivity|]). contradiction. }
  destruct H as [H1 H2]. rewrite H1, H2, app_nil_r. split; reflexivity.
Qed.

Lemma filter_absorb {Y} (P Q : Y -> bool) d : (forall x, P x = true -> Q x = true) ->
  filter P (filter Q d) = filter P d.
Proof.
  intros H. induction d as [|x r IH]; cbn [filter]; [reflexivity|].
  destruct (Q x) eqn:Eq; cbn [filter]; [rewrite IH; reflexivity|].
  destruct (P x) eqn:Ep; [rewrite (H x Ep) in Eq; discriminate|exact IH].
Qed.

Lemma prefix_first a p s : String.prefix (String a p) s = true -> exists r, s = String a r.
Proof. destruct s as [|b r]; cbn [String.prefix]; [discriminate|]. destruct (ascii_dec a b) as [<-|]; [eexists; reflexivity|discriminate]. Qed.

(* the three prefixes are pairwise disjoint *)
Lemma short_disjoint p q kv : In p short_prefixes -> In q short_prefixes -> p <> q ->
  is_short p kv = true -> not_short q kv = true.
Proof.
  intros Hp Hq Hne H. unfold not_short, is_short in *. destruct (fst kv) as [| | | |s| | | | |]; try discriminate H.
  cbn [In short_prefixes] in Hp, Hq.
  repeat (destruct Hp as [<-|Hp]); try contradiction;
    repeat (destruct Hq as [<-|Hq]); try contradiction; try congruence;
    apply prefix_first in H as [r ->]; reflexivity.
Qed.

Lemma leftover_nil pres d : shorts_of pres d = true ->
  fold_right (fun pre acc => filter (not_short pre) acc) d pres = [].
Proof.
  revert d. induction pres as [|pre pres IH]; intros d H; cbn [fold_right].
  - destruct d as [|kv r]; [reflexivity|]. cbn [shorts_of forallb existsb andb] in H. discriminate H.
  - assert (Hgen : forall l, shorts_of (pre :: pres) l = true -> shorts_of pres (filter (not_short pre) l) = true).
    { induction l as [|kv r IHr]; cbn [shorts_of forallb filter]; [reflexivity|].
      intros Hl. apply andb_true_iff in Hl as [H1 H2]. unfold not_short at 1.
      destruct (is_short pre kv) eqn:E; cbn [negb].
      - apply IHr. exact H2.
      - cbn [existsb] in H1. rewrite E in H1. cbn [orb] in H1. cbn [forallb]. fold (shorts_of pres (filter (not_short pre) r)).
        rewrite H1. cbn [andb]. apply IHr. exact H2. }
    (* filters commute *)
    assert (Hc : forall l, fold_right (fun pre acc => filter (not_short pre) acc) (filter (not_short pre) l) pres
                           = filter (not_short pre) (fold_right (fun pre acc => filter (not_short pre) acc) l pres)).
    { clear. induction pres as [|q pres IHp]; intros l; cbn [fold_right]; [reflexivity|].
      rewrite IHp. induction (fold_right (fun pre0 acc => filter (not_short pre0) acc) l pres) as [|x r IHr]; cbn [filter]; [reflexivity|].
      destruct (not_short pre x) eqn:E1; destruct (not_short q x) eqn:E2; cbn [filter]; rewrite ?E1, ?E2, IHr; reflexivity. }
    rewrite <- Hc. apply IH. apply Hgen. exact H.
Qed.

Definition finish (t : pterm pyval) : res (pterm pyval) := let* _ := mk_part T Spec.id0 t in Ok t.
Definition dn : dslc pyval * cond pyval := (DNull, CNull).

Lemma part_class_map : assoc_str "map_value" (sx_part_classes X) = Some "MapValue". Proof. reflexivity. Qed.
Lemma part_class_list : assoc_str "list_value" (sx_part_classes X) = Some "ListValue". Proof. reflexivity. Qed.
Lemma part_class_mol : assoc_str "map_or_list_value" (sx_part_classes X) = Some "MapOrListValue". Proof. reflexivity. Qed.
Lemma part_class_default : assoc_str (sx_part_default X) (sx_part_classes X) = Some "MapOrListValue". Proof. reflexivity. Qed.

Section Short.
  Variable c0 : pyval -> res (dslc pyval * cond pyval).

  Lemma pop_cond_none k d : no_key k d = true -> pop_cond c0 k d = Ok (dn, d).
  Proof. intros H. unfold pop_cond. rewrite (dict_pop_none k d H). reflexivity. Qed.
  Lemma pop_kind_none k kind acc d : no_key k d = true -> pop_kind c0 k kind acc d = Ok (acc, d).
  Proof. intros H. unfold pop_kind. rewrite (dict_pop_none k d H). reflexivity. Qed.

  Lemma shorthands_eq pre acc d :
    shorthands c0 pre acc d = let* acc' := fold_short c0 (filter (is_short pre) d) acc in Ok (acc', filter (not_short pre) d).
  Proof. unfold shorthands. rewrite split_short_eq. reflexivity. Qed.

  Lemma fold_short_app a b acc :
    fold_short c0 (a ++ b) acc = let* x := fold_short c0 a acc in fold_short c0 b x.
  Proof.
    revert acc. induction a as [|[k v] r IH]; intros acc; cbn [app fold_short bind]; [reflexivity|].
    destruct (c0 (VDict [(k, v)])) as [c|e]; cbn [bind]; [|reflexivity].
    destruct (and_on acc c) as [acc'|e]; cbn [bind]; [apply IH|reflexivity].
  Qed.

  (* the part of the parser common to the three classes, on a spec without long-form entries *)
  Ltac pops Hd o :=
    repeat match goal with
    | |- context [pop_cond c0 ?k (?d ++ lab_of o)] =>
        rewrite (pop_cond_none k (d ++ lab_of o) (reserved_absent k d o Hd ltac:(cbn; tauto) ltac:(discriminate))); cbn [bind]; cbv beta iota
    end.

  (* map_value: `value.` shorthands in their order, then `key.` shorthands in their order *)
  Theorem short_map d o : shorts_of ["value."; "key."] d = true ->
    part_from_spec T X c0 ((VStr "type", VStr "map_value") :: d ++ lab_of o) =
    let* a1 := fold_short c0 (filter (is_short "value.") d) dn in
    let* a2 := fold_short c0 (filter (is_short "key.") d) a1 in
    finish (PtMap None None (Some (KCond (fst a2))) o).
  Proof.
    intros Hd0. pose proof (shorts_of_sub _ d Hd0 eq_refl) as Hd.
    unfold part_from_spec. rewrite dict_pop_hit. cbv beta iota. rewrite part_class_map. cbn [bind].
    pops Hd o.
    rewrite (pop_kind_none "value" DValue _ _ (reserved_absent "value" d o Hd ltac:(cbn; tauto) ltac:(discriminate))).
    cbn [bind]; cbv beta iota.
    rewrite shorthands_eq. destruct (filter_lab "value." d o ltac:(cbn; tauto)) as [F1 F2]. rewrite F1, F2. fold dn.
    destruct (fold_short c0 (filter (is_short "value.") d) dn) as [a1|e]; cbn [bind]; [|reflexivity]. cbv beta iota.
    change (String.eqb "MapValue" "MapValue") with true. cbv beta iota.
    rewrite shorthands_eq. destruct (filter_lab "key." (filter (not_short "value.") d) o ltac:(cbn; tauto)) as [G1 G2].
    rewrite G1, G2.
    rewrite (filter_absorb (is_short "key.") (not_short "value.") d
               (fun kv => short_disjoint "key." "value." kv ltac:(cbn; tauto) ltac:(cbn; tauto) ltac:(discriminate))).
    destruct (fold_short c0 (filter (is_short "key.") d) a1) as [a2|e]; cbn [bind]; [|reflexivity]. cbv beta iota.
    pose proof (leftover_nil ["key."; "value."] d) as L. cbn [fold_right] in L. rewrite L.
    2:{ unfold shorts_of in *. rewrite forallb_forall in *. intros kv Hin. specialize (Hd0 kv Hin).
        cbn [existsb] in *. rewrite orb_false_r in *. rewrite orb_comm. exact Hd0. }
    cbn [app]. rewrite (pop_kind_none "key" DKey a2 (lab_of o)) by (destruct o; reflexivity).
    cbn [bind]; cbv beta iota.
    destruct o as [l|]; cbn [lab_of]; [rewrite dict_pop_hit|cbn [dict_pop]]; reflexivity.
  Qed.

  (* list_value: `value.` shorthands, then `index.` shorthands *)
  Theorem short_list d o : shorts_of ["value."; "index."] d = true ->
    part_from_spec T X c0 ((VStr "type", VStr "list_value") :: d ++ lab_of o) =
    let* a1 := fold_short c0 (filter (is_short "value.") d) dn in
    let* a2 := fold_short c0 (filter (is_short "index.") d) a1 in
    finish (PtList None None (Some (KCond (fst a2))) o).
  Proof.
    intros Hd0. pose proof (shorts_of_sub _ d Hd0 eq_refl) as Hd.
    unfold part_from_spec. rewrite dict_pop_hit. cbv beta iota. rewrite part_class_list. cbn [bind].
    pops Hd o.
    rewrite (pop_kind_none "value" DValue _ _ (reserved_absent "value" d o Hd ltac:(cbn; tauto) ltac:(discriminate))).
    cbn [bind]; cbv beta iota.
    rewrite shorthands_eq. destruct (filter_lab "value." d o ltac:(cbn; tauto)) as [F1 F2]. rewrite F1, F2. fold dn.
    destruct (fold_short c0 (filter (is_short "value.") d) dn) as [a1|e]; cbn [bind]; [|reflexivity]. cbv beta iota.
    change (String.eqb "ListValue" "MapValue") with false. change (String.eqb "ListValue" "ListValue") with true. cbv beta iota.
    rewrite shorthands_eq. destruct (filter_lab "index." (filter (not_short "value.") d) o ltac:(cbn; tauto)) as [G1 G2].
    rewrite G1, G2.
    rewrite (filter_absorb (is_short "index.") (not_short "value.") d
               (fun kv => short_disjoint "index." "value." kv ltac:(cbn; tauto) ltac:(cbn; tauto) ltac:(discriminate))).
    destruct (fold_short c0 (filter (is_short "index.") d) a1) as [a2|e]; cbn [bind]; [|reflexivity]. cbv beta iota.
    pose proof (leftover_nil ["index."; "value."] d) as L. cbn [fold_right] in L. rewrite L.
    2:{ unfold shorts_of in *. rewrite forallb_forall in *. intros kv Hin. specialize (Hd0 kv Hin).
        cbn [existsb] in *. rewrite orb_false_r in *. rewrite orb_comm. exact Hd0. }
    cbn [app]. rewrite (pop_kind_none "index" DIndex a2 (lab_of o)) by (destruct o; reflexivity).
    cbn [bind]; cbv beta iota.
    destruct o as [l|]; cbn [lab_of]; [rewrite dict_pop_hit|cbn [dict_pop]]; reflexivity.
  Qed.

  (* map_or_list_value (named, or by default): the three families feed three separate conditions *)
  Definition mol_result d o : res (pterm pyval) :=
    let* c := fold_short c0 (filter (is_short "value.") d) dn in
    let* l := fold_short c0 (filter (is_short "index.") d) dn in
    let* m := fold_short c0 (filter (is_short "key.") d) dn in
    finish (PtMol None None None (Some (KCond (fst l))) (Some (KCond (fst m))) (Some (KCond (fst c))) o).

  Lemma short_mol_body d o : shorts_of short_prefixes d = true ->
    (let* (cnd, d2) := pop_cond c0 "condition" (d ++ lab_of o) in
      let* (lcnd, d3) := pop_cond c0 "list_condition" d2 in
      let* (mcnd, d4) := pop_cond c0 "map_condition" d3 in
      let* (cnd1, d5) := pop_kind c0 "value" DValue cnd d4 in
      let* (cnd2, d6) := shorthands c0 "value." cnd1 d5 in
        let* (l1, d7) := shorthands c0 "index." lcnd d6 in
        let* (m1, d8) := shorthands c0 "key." mcnd d7 in
        let* (l2, d9) := pop_kind c0 "index" DIndex l1 d8 in
        let* (m2, d10) := pop_kind c0 "key" DKey m1 d9 in
        let '(label, d11) := dict_pop "label" d10 in
        match d11 with
        | [] =>
            let t := PtMol None None None (to_carg l2) (to_carg m2) (to_carg cnd2) label in
            let* _ := mk_part T Spec.id0 t in Ok t
        | _ => Err ValueError
        end) = mol_result d o.
  Proof.
    intros Hd. unfold mol_result.
    pops Hd o.
    rewrite (pop_kind_none "value" DValue _ _ (reserved_absent "value" d o Hd ltac:(cbn; tauto) ltac:(discriminate))).
    cbn [bind]; cbv beta iota.
    rewrite shorthands_eq. destruct (filter_lab "value." d o ltac:(cbn; tauto)) as [F1 F2]. rewrite F1, F2. fold dn.
    destruct (fold_short c0 (filter (is_short "value.") d) dn) as [a1|e]; cbn [bind]; [|reflexivity]. cbv beta iota.
    rewrite shorthands_eq. destruct (filter_lab "index." (filter (not_short "value.") d) o ltac:(cbn; tauto)) as [G1 G2].
    rewrite G1, G2.
    rewrite (filter_absorb (is_short "index.") (not_short "value.") d
               (fun kv => short_disjoint "index." "value." kv ltac:(cbn; tauto) ltac:(cbn; tauto) ltac:(discriminate))).
    destruct (fold_short c0 (filter (is_short "index.") d) dn) as [a2|e]; cbn [bind]; [|reflexivity]. cbv beta iota.
    rewrite shorthands_eq.
    destruct (filter_lab "key." (filter (not_short "index.") (filter (not_short "value.") d)) o ltac:(cbn; tauto)) as [K1 K2].
    rewrite K1, K2.
    rewrite (filter_absorb (is_short "key.") (not_short "index.") _
               (fun kv => short_disjoint "key." "index." kv ltac:(cbn; tauto) ltac:(cbn; tauto) ltac:(discriminate))).
    rewrite (filter_absorb (is_short "key.") (not_short "value.") d
               (fun kv => short_disjoint "key." "value." kv ltac:(cbn; tauto) ltac:(cbn; tauto) ltac:(discriminate))).
    destruct (fold_short c0 (filter (is_short "key.") d) dn) as [a3|e]; cbn [bind]; [|reflexivity]. cbv beta iota.
    pose proof (leftover_nil ["key."; "index."; "value."] d) as L. cbn [fold_right] in L. rewrite L.
    2:{ unfold shorts_of in *. rewrite forallb_forall in *. intros kv Hin. specialize (Hd kv Hin).
        cbn [existsb short_prefixes] in *. rewrite orb_false_r in *.
        destruct (is_short "value." kv), (is_short "key." kv), (is_short "index." kv); try reflexivity; discriminate Hd. }
    cbn [app]. rewrite (pop_kind_none "index" DIndex a2 (lab_of o)) by (destruct o; reflexivity).
    cbn [bind]; cbv beta iota.
    rewrite (pop_kind_none "key" DKey a3 (lab_of o)) by (destruct o; reflexivity).
    cbn [bind]; cbv beta iota.
    destruct o as [l|]; cbn [lab_of]; [rewrite dict_pop_hit|cbn [dict_pop]]; reflexivity.
  Qed.

  Theorem short_mol d o : shorts_of short_prefixes d = true ->
    part_from_spec T X c0 ((VStr "type", VStr "map_or_list_value") :: d ++ lab_of o) = mol_result d o /\
    part_from_spec T X c0 (d ++ lab_of o) = mol_result d o.
  Proof.
    intros Hd. split.
    - unfold part_from_spec. rewrite dict_pop_hit. cbv beta iota. rewrite part_class_mol. cbn [bind].
      change (String.eqb "MapOrListValue" "MapValue") with false.
      change (String.eqb "MapOrListValue" "ListValue") with false. cbv beta iota.
      exact (short_mol_body d o Hd).
    - unfold part_from_spec.
      rewrite (dict_pop_none "type" _ (reserved_absent "type" d o Hd ltac:(cbn; tauto) ltac:(discriminate))).
      cbv beta iota. rewrite part_class_default. cbn [bind].
      change (String.eqb "MapOrListValue" "MapValue") with false.
      change (String.eqb "MapOrListValue" "ListValue") with false. cbv beta iota.
      exact (short_mol_body d o Hd).
  Qed.
End Short.

(* ---- a leaf spec whose key starts with `value.` / `key.` / `index.` parses (if at all) to a
        condition of that kind: the check of the long forms never fires on what a shorthand accepts ---- *)

Definition datum_kinds : list (string * dkind) := [("value", DValue); ("key", DKey); ("index", DIndex)].

Lemma class_kind_fact d kind cls_name k0 k k' :
  In (d, kind) datum_kinds ->
  assoc_str d (sx_datum_types X) = Some cls_name -> find_class (t_classes T) cls_name = Some k0 ->
  (k = k0 \/ exists pre, class_pre T k0 pre = Ok k) -> find_class (t_classes T) (k_name k) = Some k' ->
  k_kind k' = kind /\ String.eqb (k_name k') "NullCondition" = false.
Proof.
  intros Hin Ha Hk0 Hk Hk'. cbn [In datum_kinds] in Hin.
  destruct Hin as [E|[E|[E|[]]]]; injection E as E1 E2; subst d kind;
    vm_compute in Ha; injection Ha as Ha; subst cls_name;
    vm_compute in Hk0; injection Hk0 as Hk0; subst k0;
    (destruct Hk as [Hk|[pre Hpre]];
     [subst k
     |unfold class_pre in Hpre; destruct (String.eqb pre "length"); [|destruct (String.eqb pre "dtype")];
      vm_compute in Hpre; try discriminate Hpre; injection Hpre as Hpre; subst k]);
    vm_compute in Hk'; injection Hk' as Hk'; subst k'; split; reflexivity.
Qed.

Lemma parse_leaf_kind A lit mk inert pfs key v t c d kind :
  In (d, kind) datum_kinds -> hd "" (lower_tokens key) = d ->
  parse_leaf T X A lit mk inert pfs key v = Ok (t, c) -> is_like_strict kind c = true.
Proof.
  intros Hin Hhd. unfold parse_leaf. rewrite Hhd.
  destruct (assoc_str d (sx_datum_types X)) as [cls_name|] eqn:Ea; [|discriminate].
  match goal with |- (if ?b then _ else _) = _ -> _ => destruct b end; [discriminate|].
  destruct (find_class (t_classes T) cls_name) as [k0|] eqn:Ek0; [|discriminate].
  match goal with |- (let* x := ?e in _) = _ -> _ => destruct e as [[k v1]|e1] eqn:Ekv end; cbn [bind]; [|discriminate].
  assert (Hk : k = k0 \/ exists pre, class_pre T k0 pre = Ok k).
  { destruct (List.length (lower_tokens key) =? 3)%nat.
    - match type of Ekv with (let* x := ?e in _) = _ => destruct e as [v'|e1] end; cbn [bind] in Ekv; [|discriminate Ekv].
      match type of Ekv with (let* x := class_pre T k0 ?p in _) = _ => destruct (class_pre T k0 p) as [k'|e1] eqn:Ep end;
        cbn [bind] in Ekv; [|discriminate Ekv].
      injection Ekv as E1 E2. subst k'. right. eexists. exact Ep.
    - injection Ekv as E1 E2. left. symmetry. exact E1. }
  match goal with |- (let* x := ?e in _) = _ -> _ => destruct e as [v2|e1] end; cbn [bind]; [|discriminate].
  match goal with |- match ?e with Some _ => _ | None => _ end = _ -> _ => destruct e as [ct|] end; [|discriminate].
  match goal with |- (let* x := ?e in _) = _ -> _ => destruct e as [cv|e1] end; cbn [bind]; [|discriminate].
  match goal with |- (let* x := ?e in _) = _ -> _ => destruct e as [[pos kw]|e1] end; cbn [bind]; [|discriminate].
  match goal with |- (let* x := ?e in _) = _ -> _ => destruct e as [l|e1] eqn:Eb end; cbn [bind]; [|discriminate].
  intros E. injection E as _ Ec. subst c.
  unfold build_leaf in Eb.
  destruct (find_class (t_classes T) (k_name k)) as [k'|] eqn:Ek'; [|discriminate Eb].
  destruct (find_ctor T k' _) as [ct'|]; [|discriminate Eb].
  destruct (apply_ctor lit ct' pos kw) as [[args kws]|e1]; cbn [bind] in Eb; [|discriminate Eb].
  injection Eb as Eb. subst l.
  destruct (class_kind_fact d kind cls_name k0 k k' Hin Ea Ek0 Hk Ek') as [H1 H2].
  unfold is_like_strict. cbn [leaves forallb l_kind]. unfold is_null_leaf. cbn [l_cls]. rewrite H1, H2.
  destruct kind; reflexivity.
Qed.

Lemma prefix_split p : forall s, String.prefix p s = true -> exists r, s = (p ++ r)%string.
Proof.
  induction p as [|a p IH]; intros s H.
  - exists s. reflexivity.
  - destruct s as [|b s]; cbn [String.prefix] in H; [discriminate|].
    destruct (ascii_dec a b) as [<-|]; [|discriminate]. destruct (IH s H) as [r ->]. exists r. reflexivity.
Qed.

Definition short_kinds : list (string * (string * dkind)) :=
  [("value.", ("value", DValue)); ("key.", ("key", DKey)); ("index.", ("index", DIndex))].

Lemma short_hd pre d kind k : In (pre, (d, kind)) short_kinds -> String.prefix pre k = true ->
  hd "" (lower_tokens k) = d /\ assoc_str k (sx_binops X) = None /\ In (d, kind) datum_kinds.
Proof.
  intros Hin Hp. destruct (prefix_split pre k Hp) as [r ->].
  cbn [In short_kinds] in Hin. destruct Hin as [E|[E|[E|[]]]]; injection E as E1 E2 E3; subst pre d kind.
  - change ("value." ++ r)%string with ("value" ++ String "."%char r)%string at 1. rewrite lower_tokens_app.
    repeat split; [cbn; tauto].
  - change ("key." ++ r)%string with ("key" ++ String "."%char r)%string at 1. rewrite lower_tokens_app.
    repeat split; [cbn; tauto].
  - change ("index." ++ r)%string with ("index" ++ String "."%char r)%string at 1. rewrite lower_tokens_app.
    repeat split; [cbn; tauto].
Qed.

(* at any positive fuel of the stratum-0 condition parser *)
Lemma cond0_short_kind f pre d kind k v c : In (pre, (d, kind)) short_kinds -> String.prefix pre k = true ->
  cond0_from_spec T X (S f) (VDict [(VStr k, v)]) = Ok c -> is_like_strict kind (snd c) = true.
Proof.
  intros Hin Hp. destruct (short_hd pre d kind k Hin Hp) as [Hhd [Hb Hdk]].
  cbn [cond0_from_spec]. unfold cond_from_spec_step. cbn [py_truthy negb]. rewrite Hb.
  destruct c as [t c]. intros H. cbn [snd]. exact (parse_leaf_kind _ _ _ _ _ k v t c d kind Hdk Hhd H).
Qed.

(* ================================================================== *)
(* 1./2. long forms: `condition`, `value`, `key` / `index` given as condition specs *)

Definition opt_entry (k : string) (os : option pyval) : list (pyval * pyval) :=
  match os with Some s => [(VStr k, s)] | None => [] end.
(* `key: null` is an absent key *)
Definition given (os : option pyval) : bool := match os with Some VNone => false | _ => true end.

Section Long.
  Variable c0 : pyval -> res (dslc pyval * cond pyval).

  Definition long_cond (os : option pyval) : res (dslc pyval * cond pyval) :=
    match os with Some s => c0 s | None => Ok dn end.
  Definition long_kind (kind : dkind) (acc : dslc pyval * cond pyval) (os : option pyval) : res (dslc pyval * cond pyval) :=
    match os with
    | Some s => let* c := c0 s in if is_like_strict kind (snd c) then and_on acc c else Err ValueError
    | None => Ok acc
    end.

  Lemma pop_cond_hit k s r : given (Some s) = true ->
    pop_cond c0 k ((VStr k, s) :: r) = let* c := c0 s in Ok (c, r).
  Proof. intros H. unfold pop_cond. rewrite dict_pop_hit. destruct s; try reflexivity. discriminate H. Qed.
  Lemma pop_kind_hit k kind acc s r : given (Some s) = true ->
    pop_kind c0 k kind acc ((VStr k, s) :: r) =
    let* c := c0 s in if is_like_strict kind (snd c) then let* x := and_on acc c in Ok (x, r) else Err ValueError.
  Proof. intros H. unfold pop_kind. rewrite dict_pop_hit. destruct s; try reflexivity. discriminate H. Qed.

  Ltac eval_filters :=
    repeat match goal with
    | |- context [filter ?P ?L] => let r := eval cbv in (filter P L) in change (filter P L) with r
    end.
  Ltac red1 := cbn [bind]; cbv beta iota.
  Ltac step :=
    first
    [ rewrite pop_cond_hit by assumption;
      match goal with |- context [c0 ?s] => destruct (c0 s) as [?c|?e]; red1; [|reflexivity] end
    | rewrite (pop_cond_none c0) by reflexivity; red1
    | rewrite pop_kind_hit by assumption;
      match goal with |- context [c0 ?s] => destruct (c0 s) as [?c|?e]; red1; [|reflexivity] end;
      match goal with |- context [is_like_strict ?k ?x] => destruct (is_like_strict k x); red1; [|reflexivity] end;
      match goal with |- context [and_on ?a ?b] => destruct (and_on a b) as [?c|?e]; red1; [|reflexivity] end
    | rewrite (pop_kind_none c0) by reflexivity; red1
    | rewrite (shorthands_eq c0); eval_filters; cbn [fold_short]; red1
    | rewrite dict_pop_hit; red1
    | rewrite dict_pop_none by reflexivity; red1 ].

  Theorem long_map oc ov ok o : given oc = true -> given ov = true -> given ok = true ->
    part_from_spec T X c0 ((VStr "type", VStr "map_value")
       :: opt_entry "condition" oc ++ opt_entry "value" ov ++ opt_entry "key" ok ++ lab_of o) =
    let* c := long_cond oc in let* c1 := long_kind DValue c ov in let* c2 := long_kind DKey c1 ok in
    finish (PtMap None None (Some (KCond (fst c2))) o).
  Proof.
    intros Hc Hv Hk. unfold part_from_spec. rewrite dict_pop_hit. cbv beta iota. rewrite part_class_map. cbn [bind].
    change (String.eqb "MapValue" "MapValue") with true.
    destruct oc as [sc|], ov as [sv|], ok as [sk|], o as [l|];
      cbn [opt_entry lab_of app long_cond long_kind]; fold dn; repeat step; reflexivity.
  Qed.

  Theorem long_list oc ov oi o : given oc = true -> given ov = true -> given oi = true ->
    part_from_spec T X c0 ((VStr "type", VStr "list_value")
       :: opt_entry "condition" oc ++ opt_entry "value" ov ++ opt_entry "index" oi ++ lab_of o) =
    let* c := long_cond oc in let* c1 := long_kind DValue c ov in let* c2 := long_kind DIndex c1 oi in
    finish (PtList None None (Some (KCond (fst c2))) o).
  Proof.
    intros Hc Hv Hk. unfold part_from_spec. rewrite dict_pop_hit. cbv beta iota. rewrite part_class_list. cbn [bind].
    change (String.eqb "ListValue" "MapValue") with false. change (String.eqb "ListValue" "ListValue") with true.
    destruct oc as [sc|], ov as [sv|], oi as [si|], o as [l|];
      cbn [opt_entry lab_of app long_cond long_kind]; fold dn; repeat step; reflexivity.
  Qed.

  Definition mol_long_result oc olc omc ov oi ok o : res (pterm pyval) :=
    let* c := long_cond oc in let* lc := long_cond olc in let* mc := long_cond omc in
    let* c1 := long_kind DValue c ov in
    let* l2 := long_kind DIndex lc oi in let* m2 := long_kind DKey mc ok in
    finish (PtMol None None None (Some (KCond (fst l2))) (Some (KCond (fst m2))) (Some (KCond (fst c1))) o).

  Definition mol_entries oc olc omc ov oi ok o : list (pyval * pyval) :=
    opt_entry "condition" oc ++ opt_entry "list_condition" olc ++ opt_entry "map_condition" omc
    ++ opt_entry "value" ov ++ opt_entry "index" oi ++ opt_entry "key" ok ++ lab_of o.

  Theorem long_mol (named : bool) oc olc omc ov oi ok o :
    given oc = true -> given olc = true -> given omc = true -> given ov = true -> given oi = true -> given ok = true ->
    part_from_spec T X c0 ((if named then [(VStr "type", VStr "map_or_list_value")] else [])
                           ++ mol_entries oc olc omc ov oi ok o) = mol_long_result oc olc omc ov oi ok o.
  Proof.
    intros Hc Hlc Hmc Hv Hi Hk. unfold part_from_spec, mol_long_result, mol_entries.
    destruct named; cbn [app].
    - rewrite dict_pop_hit. cbv beta iota. rewrite part_class_mol. cbn [bind].
      change (String.eqb "MapOrListValue" "MapValue") with false. change (String.eqb "MapOrListValue" "ListValue") with false.
      destruct oc as [sc|], olc as [slc|], omc as [smc|], ov as [sv|], oi as [si|], ok as [sk|], o as [l|];
        cbn [opt_entry lab_of app long_cond long_kind]; fold dn; repeat step; reflexivity.
    - destruct oc as [sc|], olc as [slc|], omc as [smc|], ov as [sv|], oi as [si|], ok as [sk|], o as [l|];
        cbn [opt_entry lab_of app long_cond long_kind]; fold dn;
        rewrite dict_pop_none by reflexivity; cbv beta iota; rewrite part_class_default; cbn [bind];
        change (String.eqb "MapOrListValue" "MapValue") with false; change (String.eqb "MapOrListValue" "ListValue") with false;
        repeat step; reflexivity.
  Qed.
End Long.

(* ---- the shorthand theorems on the model's entry point ---- *)

Notation cond0 := (cond0_from_spec T X spec_fuel).

Lemma part_spec_parse_unfold d : part_spec_parse T X d = part_from_spec T X cond0 d.
Proof. reflexivity. Qed.

(* C10 (2), order: on a part spec made of a type, dotted shorthand entries (in ANY order, for EVERY
   argument value, parsable or not) and possibly a label, the shorthands of a family and-combine
   in the order of the mapping; map_value / list_value: `value.` entries before `key.` / `index.`
   entries; map_or_list_value: three separate conditions. *)
Theorem C10_shorthand_order : forall d o,
  (shorts_of ["value."; "key."] d = true ->
   part_spec_parse T X ((VStr "type", VStr "map_value") :: d ++ lab_of o) =
   let* a1 := fold_short cond0 (filter (is_short "value.") d) dn in
   let* a2 := fold_short cond0 (filter (is_short "key.") d) a1 in
   finish (PtMap None None (Some (KCond (fst a2))) o)) /\
  (shorts_of ["value."; "index."] d = true ->
   part_spec_parse T X ((VStr "type", VStr "list_value") :: d ++ lab_of o) =
   let* a1 := fold_short cond0 (filter (is_short "value.") d) dn in
   let* a2 := fold_short cond0 (filter (is_short "index.") d) a1 in
   finish (PtList None None (Some (KCond (fst a2))) o)) /\
  (shorts_of short_prefixes d = true ->
   part_spec_parse T X ((VStr "type", VStr "map_or_list_value") :: d ++ lab_of o) = mol_result cond0 d o /\
   part_spec_parse T X (d ++ lab_of o) = mol_result cond0 d o).
Proof.
  intros d o. rewrite !part_spec_parse_unfold. repeat split.
  - apply short_map.
  - apply short_list.
  - apply short_mol; assumption.
  - apply short_mol; assumption.
Qed.

Lemma prefix_others pre d kind k : In (pre, (d, kind)) short_kinds -> String.prefix pre k = true ->
  (String.prefix "value." k, String.prefix "key." k, String.prefix "index." k)
  = (String.eqb pre "value.", String.eqb pre "key.", String.eqb pre "index.").
Proof.
  intros Hin Hp. cbn [In short_kinds] in Hin.
  destruct Hin as [E|[E|[E|[]]]]; injection E as E1 E2 E3; subst pre d kind;
    destruct (prefix_first _ _ _ Hp) as [r Hr]; rewrite Hr in *; rewrite Hp; reflexivity.
Qed.

Definition short1 (k : string) (v : pyval) : list (pyval * pyval) := [(VStr k, v)].
Definition long1 (d k : string) (v : pyval) : list (pyval * pyval) := [(VStr d, VDict [(VStr k, v)])].

Lemma fold_short1 c0 k v acc :
  fold_short c0 [(VStr k, v)] acc = let* c := c0 (VDict [(VStr k, v)]) in and_on acc c.
Proof. cbn [fold_short]. destruct (c0 _) as [c|e]; cbn [bind]; [|reflexivity]. destruct (and_on acc c); reflexivity. Qed.

Ltac fin lv :=
  unfold short1; cbn [filter is_short fst long_cond long_kind bind];
  match goal with H1 : String.prefix "value." ?k = _, H2 : String.prefix "key." ?k = _, H3 : String.prefix "index." ?k = _ |- _ =>
    rewrite ?H1, ?H2, ?H3 end;
  rewrite ?fold_short1; cbn [fold_short bind];
  match goal with Hkind : (forall c, cond0 ?s = Ok c -> _) |- _ =>
    subst lv; cbn [long_kind];
    destruct (cond0 s) as [c|e] eqn:Ec; cbn [bind]; [|reflexivity];
    rewrite (Hkind c eq_refl); destruct (and_on dn c); reflexivity end.
Ltac finm lv := unfold mol_result, mol_long_result; fin lv.

(* C10 (2), shorthand = long form: one dotted entry `<datum>.<...>: v` is the long entry
   `<datum>: {<datum>.<...>: v}`, for every key with that prefix (known callable or not) and every v *)
Theorem C10_shorthand_long : forall pre d kind k v o,
  In (pre, (d, kind)) short_kinds -> String.prefix pre k = true ->
  (d <> "index" ->
   part_spec_parse T X ((VStr "type", VStr "map_value") :: short1 k v ++ lab_of o) =
   part_spec_parse T X ((VStr "type", VStr "map_value") :: long1 d k v ++ lab_of o)) /\
  (d <> "key" ->
   part_spec_parse T X ((VStr "type", VStr "list_value") :: short1 k v ++ lab_of o) =
   part_spec_parse T X ((VStr "type", VStr "list_value") :: long1 d k v ++ lab_of o)) /\
  part_spec_parse T X ((VStr "type", VStr "map_or_list_value") :: short1 k v ++ lab_of o) =
  part_spec_parse T X ((VStr "type", VStr "map_or_list_value") :: long1 d k v ++ lab_of o) /\
  part_spec_parse T X (short1 k v ++ lab_of o) = part_spec_parse T X (long1 d k v ++ lab_of o).
Proof.
  intros pre d kind k v o Hin Hp.
  pose proof (prefix_others pre d kind k Hin Hp) as Ho.
  assert (Hkind : forall c, cond0 (VDict [(VStr k, v)]) = Ok c -> is_like_strict kind (snd c) = true)
    by (intros c; exact (cond0_short_kind 39 pre d kind k v c Hin Hp)).
  rewrite !part_spec_parse_unfold.
  set (lv := Some (VDict [(VStr k, v)])).
  assert (Hg : given lv = true) by reflexivity.
  assert (Hsh : forall pres, existsb (fun p => String.prefix p k) pres = true -> shorts_of pres (short1 k v) = true).
  { intros pres H. unfold shorts_of, short1. cbn [forallb]. rewrite andb_true_r.
    induction pres as [|p r IH]; cbn [existsb] in *; [discriminate|]. unfold is_short at 1. cbn [fst].
    destruct (String.prefix p k); [reflexivity|]. cbn [orb] in *. apply IH. exact H. }
  cbn [In short_kinds] in Hin.
  destruct Hin as [E|[E|[E|[]]]]; injection E as E1 E2 E3; subst pre d kind; injection Ho as H1 H2 H3;
    cbn [String.eqb Ascii.eqb Bool.eqb] in H1, H2, H3.
  - (* value *)
    repeat split; intros.
    + rewrite (short_map cond0 (short1 k v) o) by (apply Hsh; cbn [existsb]; rewrite H1; reflexivity).
      change (long1 "value" k v ++ lab_of o) with (opt_entry "condition" None ++ opt_entry "value" lv ++ opt_entry "key" None ++ lab_of o).
      rewrite (long_map cond0 None lv None o eq_refl Hg eq_refl). fin lv.
    + rewrite (short_list cond0 (short1 k v) o) by (apply Hsh; cbn [existsb]; rewrite H1; reflexivity).
      change (long1 "value" k v ++ lab_of o) with (opt_entry "condition" None ++ opt_entry "value" lv ++ opt_entry "index" None ++ lab_of o).
      rewrite (long_list cond0 None lv None o eq_refl Hg eq_refl). fin lv.
    + destruct (short_mol cond0 (short1 k v) o) as [S1 _]; [apply Hsh; cbn [existsb short_prefixes]; rewrite H1; reflexivity|]. rewrite S1.
      symmetry; etransitivity; [exact (long_mol cond0 true None None None lv None None o eq_refl eq_refl eq_refl Hg eq_refl eq_refl)|]. finm lv.
    + destruct (short_mol cond0 (short1 k v) o) as [_ S2]; [apply Hsh; cbn [existsb short_prefixes]; rewrite H1; reflexivity|]. rewrite S2.
      symmetry; etransitivity; [exact (long_mol cond0 false None None None lv None None o eq_refl eq_refl eq_refl Hg eq_refl eq_refl)|]. finm lv.
  - (* key *)
    repeat split; intros.
    + rewrite (short_map cond0 (short1 k v) o) by (apply Hsh; cbn [existsb]; rewrite H1, H2; reflexivity).
      change (long1 "key" k v ++ lab_of o) with (opt_entry "condition" None ++ opt_entry "value" None ++ opt_entry "key" lv ++ lab_of o).
      rewrite (long_map cond0 None None lv o eq_refl eq_refl Hg). fin lv.
    + congruence.
    + destruct (short_mol cond0 (short1 k v) o) as [S1 _]; [apply Hsh; cbn [existsb short_prefixes]; rewrite H1, H2; reflexivity|]. rewrite S1.
      symmetry; etransitivity; [exact (long_mol cond0 true None None None None None lv o eq_refl eq_refl eq_refl eq_refl eq_refl Hg)|]. finm lv.
    + destruct (short_mol cond0 (short1 k v) o) as [_ S2]; [apply Hsh; cbn [existsb short_prefixes]; rewrite H1, H2; reflexivity|]. rewrite S2.
      symmetry; etransitivity; [exact (long_mol cond0 false None None None None None lv o eq_refl eq_refl eq_refl eq_refl eq_refl Hg)|]. finm lv.
  - (* index *)
    repeat split; intros.
    + congruence.
    + rewrite (short_list cond0 (short1 k v) o) by (apply Hsh; cbn [existsb]; rewrite H1, H3; reflexivity).
      change (long1 "index" k v ++ lab_of o) with (opt_entry "condition" None ++ opt_entry "value" None ++ opt_entry "index" lv ++ lab_of o).
      rewrite (long_list cond0 None None lv o eq_refl eq_refl Hg). fin lv.
    + destruct (short_mol cond0 (short1 k v) o) as [S1 _]; [apply Hsh; cbn [existsb short_prefixes]; rewrite H1, H2, H3; reflexivity|]. rewrite S1.
      symmetry; etransitivity; [exact (long_mol cond0 true None None None None lv None o eq_refl eq_refl eq_refl eq_refl Hg eq_refl)|]. finm lv.
    + destruct (short_mol cond0 (short1 k v) o) as [_ S2]; [apply Hsh; cbn [existsb short_prefixes]; rewrite H1, H2, H3; reflexivity|]. rewrite S2.
      symmetry; etransitivity; [exact (long_mol cond0 false None None None None lv None o eq_refl eq_refl eq_refl eq_refl Hg eq_refl)|]. finm lv.
Qed.


(* ================================================================== *)
(* 3. from_part_specs: element-wise, errors left to right               *)

(* one element of the parts list: a mapping is a part spec, anything else is taken as a primitive
   (whether it is an acceptable primitive -- str / float / int / bool -- is the DataPath constructor's
   business: None, lists ... are a TypeError there) *)
Definition part_of_spec (v : pyval) : res (pterm pyval) :=
  match v with VDict d => part_spec_parse T X d | _ => Ok (PtPrim v) end.

Lemma parts_from_specs_mapM l : parts_from_specs T X cond0 l = mapM part_of_spec l.
Proof.
  induction l as [|v r IH]; cbn [parts_from_specs mapM]; [reflexivity|].
  destruct v; cbn [part_of_spec bind]; rewrite IH; reflexivity.
Qed.

Theorem C10_primitives_and_lists : forall l,
  from_part_specs T X l =
  let* ps := mapM part_of_spec l in
  let t := {| pt_parts := ps; pt_mods := []; pt_src := None |} in
  let* _ := mk_path T idlit t in Ok t.
Proof. intros l. unfold from_part_specs, path_from_part_specs. rewrite parts_from_specs_mapM. reflexivity. Qed.

(* element-wise success ... *)
Lemma mapM_Forall2 {A B} (f : A -> res B) l ys : mapM f l = Ok ys <-> Forall2 (fun x y => f x = Ok y) l ys.
Proof.
  revert ys. induction l as [|x r IH]; intros ys; cbn [mapM].
  - split; [intros [= <-]; constructor|intros H; inversion H; reflexivity].
  - split.
    + destruct (f x) as [y|e] eqn:E; cbn [bind]; [|discriminate].
      destruct (mapM f r) as [ys'|e] eqn:E2; cbn [bind]; [|discriminate]. intros [= <-].
      constructor; [exact E|apply IH; reflexivity].
    + intros H. inversion H as [|x' y' r' ys' Hxy Hr]; subst. rewrite Hxy. cbn [bind].
      apply IH in Hr. rewrite Hr. reflexivity.
Qed.

(* ... and the first failing element decides the error *)
Lemma mapM_first_error {A B} (f : A -> res B) l1 x l2 ys e :
  mapM f l1 = Ok ys -> f x = Err e -> mapM f (l1 ++ x :: l2) = Err e.
Proof.
  revert ys. induction l1 as [|a r IH]; intros ys H1 Hx; cbn [app mapM].
  - rewrite Hx. reflexivity.
  - cbn [mapM] in H1. destruct (f a) as [y|e1]; cbn [bind] in *; [|discriminate H1].
    destruct (mapM f r) as [ys'|e1] eqn:E2; cbn [bind] in *; [|discriminate H1].
    rewrite (IH ys' eq_refl Hx). reflexivity.
Qed.

Theorem C10_part_specs_elementwise : forall l,
  (forall ps, Forall2 (fun v p => part_of_spec v = Ok p) l ps ->
     from_part_specs T X l =
     let t := {| pt_parts := ps; pt_mods := []; pt_src := None |} in let* _ := mk_path T idlit t in Ok t) /\
  (forall l1 v l2 ps e, l = l1 ++ v :: l2 -> Forall2 (fun v p => part_of_spec v = Ok p) l1 ps ->
     part_of_spec v = Err e -> from_part_specs T X l = Err e).
Proof.
  intros l. split.
  - intros ps H. rewrite C10_primitives_and_lists. apply mapM_Forall2 in H. rewrite H. reflexivity.
  - intros l1 v l2 ps e -> H He. rewrite C10_primitives_and_lists. apply mapM_Forall2 in H.
    rewrite (mapM_first_error part_of_spec l1 v l2 ps e H He). reflexivity.
Qed.

(* which primitives the constructor accepts *)
Example primitives_accepted :
  map (fun v => match from_part_specs T X [v] with Ok _ => None | Err e => Some e end)
      [VStr "a"; VInt 1%Z; VBool true; VFloat false 5%N (-1)%Z; VNone; VList []; VTuple []]
  = [None; None; None; None; Some TypeError; Some TypeError; Some TypeError].
Proof. vm_compute. reflexivity. Qed.

(* ================================================================== *)
(* 5. DataPath.from_str                                                 *)

Theorem C10_from_str : forall fo s d,
  path_from_str fo s d =
  {| pt_parts := map (str_part fo) (match s with EmptyString => [] | _ => str_split d s end);
     pt_mods := []; pt_src := None |}.
Proof. reflexivity. Qed.

(* a token that reads neither as an int nor as a float is the str primitive; an int token z is
   MapOrListValue(key=Key.in_((tok, z)), index=z); a float token f is MapValue(key=Key.in_((tok, f))) *)
Theorem C10_from_str_token : forall fo tok,
  (int_of_str tok = None -> fo tok = None -> str_part fo tok = PtPrim (VStr tok)) /\
  (forall z, int_of_str tok = Some z ->
     str_part fo tok = PtMol (Some (KCond (DLeaf "Key" "in_" [VTuple [VStr tok; VInt z]] []))) (Some (KLit (VInt z))) None None None None None) /\
  (forall f, int_of_str tok = None -> fo tok = Some f ->
     str_part fo tok = PtMap (Some (KCond (DLeaf "Key" "in_" [VTuple [VStr tok; f]] []))) None None None).
Proof.
  intros fo tok. unfold str_part. repeat split.
  - intros H1 H2. rewrite H1, H2. reflexivity.
  - intros z H. rewrite H. reflexivity.
  - intros f H1 H2. rewrite H1, H2. reflexivity.
Qed.

(* when no token reads as a number, from_str is the path of the str primitives *)
Theorem C10_from_str_strings : forall fo s d,
  forallb (fun tok => match int_of_str tok, fo tok with None, None => true | _, _ => false end)
          (match s with EmptyString => [] | _ => str_split d s end) = true ->
  path_from_str fo s d =
  {| pt_parts := map (fun tok => PtPrim (VStr tok)) (match s with EmptyString => [] | _ => str_split d s end);
     pt_mods := []; pt_src := None |}.
Proof.
  intros fo s d H. rewrite C10_from_str. f_equal.
  induction (match s with EmptyString => [] | _ => str_split d s end) as [|tok r IH]; cbn [map forallb] in *; [reflexivity|].
  apply andb_true_iff in H as [H1 H2]. rewrite (IH H2). f_equal. unfold str_part.
  destruct (int_of_str tok); [discriminate H1|]. destruct (fo tok); [discriminate H1|reflexivity].
Qed.

(* The target "from_str = the path of PRIMITIVE parts, each token read as int, else float, else str" is
   FALSE for numeric tokens (by design of from_str: a numeric token also matches the key spelt as a str):
   DataPath.from_str("1") != DataPath(1); the former is not even concrete. *)
Example C10_from_str_counterexample :
  let fo := fun _ : string => None in
  (let* a := mk_path T idlit (path_from_str fo "1" "/"%char) in
   let* b := mk_path T idlit {| pt_parts := [PtPrim (VInt 1%Z)]; pt_mods := []; pt_src := None |} in
   Ok (path_eqb a b, p_concrete a, p_concrete b)) = Ok (false, false, true).
Proof. vm_compute. reflexivity. Qed.


(* ================================================================== *)
(* 1. long forms on the model's entry point (partial: relative to the parse of the component specs) *)

(* The canonical long spelling {"type": .., "condition": C, "value": V, "key" | "index": K, "label": l}
   (each component optional, `null` excluded) parses to the part whose condition is
   ((C and V) and K): component specs are parsed by the stratum-0 condition parser in this order, the
   `value` / `key` / `index` components must be value- / key- / index-like (ValueError otherwise).
   For map_or_list_value (named or by default): condition & value, list_condition & index,
   map_condition & key.
   PARTIAL w.r.t. the target C10_part_long: the component parses are not resolved to the DSL terms
   (the C09 leaf / tree theorems are proved for the stratum-1 parser cond1_from_spec only). *)
Theorem C10_part_long_partial : forall oc ov ok o,
  given oc = true -> given ov = true -> given ok = true ->
  part_spec_parse T X ((VStr "type", VStr "map_value")
     :: opt_entry "condition" oc ++ opt_entry "value" ov ++ opt_entry "key" ok ++ lab_of o) =
  (let* c := long_cond cond0 oc in let* c1 := long_kind cond0 DValue c ov in let* c2 := long_kind cond0 DKey c1 ok in
   finish (PtMap None None (Some (KCond (fst c2))) o)) /\
  part_spec_parse T X ((VStr "type", VStr "list_value")
     :: opt_entry "condition" oc ++ opt_entry "value" ov ++ opt_entry "index" ok ++ lab_of o) =
  (let* c := long_cond cond0 oc in let* c1 := long_kind cond0 DValue c ov in let* c2 := long_kind cond0 DIndex c1 ok in
   finish (PtList None None (Some (KCond (fst c2))) o)).
Proof.
  intros oc ov ok o H1 H2 H3. rewrite !part_spec_parse_unfold. split.
  - exact (long_map cond0 oc ov ok o H1 H2 H3).
  - exact (long_list cond0 oc ov ok o H1 H2 H3).
Qed.

Theorem C10_part_long_mol_partial : forall (named : bool) oc olc omc ov oi ok o,
  given oc = true -> given olc = true -> given omc = true -> given ov = true -> given oi = true -> given ok = true ->
  part_spec_parse T X ((if named then [(VStr "type", VStr "map_or_list_value")] else [])
                       ++ mol_entries oc olc omc ov oi ok o) = mol_long_result cond0 oc olc omc ov oi ok o.
Proof. intros. rewrite part_spec_parse_unfold. apply long_mol; assumption. Qed.

(* what the constructors make of literal arguments: MapValue(key="a") is MapValue(key=Key.equal_to("a")),
   and the spec spelling of both is the shorthand `key.equal_to: "a"` *)
Example literal_argument_normalised :
  mk_part T idlit (PtMap (Some (KLit (VStr "a"))) None None None)
  = mk_part T idlit (PtMap (Some (KCond (DLeaf "Key" "equal_to" [VStr "a"] []))) None None None) /\
  (let* t := part_spec_parse T X [(VStr "type", VStr "map_value"); (VStr "key.equal_to", VStr "a")] in mk_part T idlit t)
  = mk_part T idlit (PtMap (Some (KLit (VStr "a"))) None None None).
Proof. vm_compute. split; reflexivity. Qed.

(* key and value given: equal to the API-built part (== is commutative at the top of a combination) *)
Example part_long_two_components :
  let spec := [(VStr "type", VStr "map_value");
               (VStr "value", VDict [(VStr "value.length.less_than", VInt 3%Z)]);
               (VStr "key", VDict [(VStr "key.in", VList [VStr "a"; VStr "b"])]); (VStr "label", VStr "L")] in
  let api := PtMap (Some (KCond (DLeaf "Key" "in_" [VList [VStr "a"; VStr "b"]] [])))
                   (Some (KCond (DLeaf "ValueLength" "less_than" [VInt 3%Z] []))) None (Some (VStr "L")) in
  (let* t := part_spec_parse T X spec in let* (p, _) := mk_part T idlit t in let* (q, _) := mk_part T idlit api in
   Ok (part_eqb p q)) = Ok true.
Proof. vm_compute. reflexivity. Qed.

(* The target C10_part_long is FALSE when key, value AND condition are all given: the API nests
   (condition & key) & value, from_spec nests (condition & value) & key, and == on combinations only
   commutes at the top.  Python: MapValue(key=Key.equal_to("a"), value=Value.equal_to(1), condition=Value.truthy())
   != ContainerValue.from_spec({"type": "map_value", "condition": {"value.truthy": None},
                                "value": {"value.equal_to": 1}, "key": {"key.equal_to": "a"}})
   (the two parts select the same items). *)
Example C10_part_long_counterexample :
  let spec := [(VStr "type", VStr "map_value");
               (VStr "condition", VDict [(VStr "value.truthy", VNone)]);
               (VStr "value", VDict [(VStr "value.equal_to", VInt 1%Z)]);
               (VStr "key", VDict [(VStr "key.equal_to", VStr "a")])] in
  let api := PtMap (Some (KCond (DLeaf "Key" "equal_to" [VStr "a"] [])))
                   (Some (KCond (DLeaf "Value" "equal_to" [VInt 1%Z] [])))
                   (Some (KCond (DLeaf "Value" "truthy" [] []))) None in
  (let* t := part_spec_parse T X spec in let* (p, _) := mk_part T idlit t in let* (q, _) := mk_part T idlit api in
   Ok (part_eqb p q)) = Ok false.
Proof. vm_compute. reflexivity. Qed.

(* shorthand examples: several shorthands and-combine; a shorthand is its long form *)
Example shorthand_examples :
  part_spec_parse T X [(VStr "type", VStr "map_value"); (VStr "key.equal_to", VStr "a"); (VStr "value.length.less_than", VInt 3%Z)]
  = Ok (PtMap None None (Some (KCond (DBin BoAnd (DBin BoAnd DNull (DLeaf "ValueLength" "less_than" [VInt 3%Z] []))
                                          (DLeaf "Key" "equal_to" [VStr "a"] [])))) None) /\
  part_spec_parse T X [(VStr "index.in", VList [VInt 0%Z; VInt 1%Z])]
  = part_spec_parse T X [(VStr "index", VDict [(VStr "index.in", VList [VInt 0%Z; VInt 1%Z])])].
Proof. vm_compute. split; reflexivity. Qed.

Example shorts_fragment_inhabited :
  shorts_of ["value."; "key."] [(VStr "key.equal_to", VStr "a"); (VStr "value.length.less_than", VInt 3%Z); (VStr "key.in", VList [])] = true.
Proof. vm_compute. reflexivity. Qed.

Print Assumptions C10_suffix_order.
Print Assumptions C10_suffix_single.
Print Assumptions C10_shorthand_order.
Print Assumptions C10_shorthand_long.
Print Assumptions C10_part_long_partial.
Print Assumptions C10_part_long_mol_partial.
Print Assumptions C10_primitives_and_lists.
Print Assumptions C10_part_specs_elementwise.
Print Assumptions C10_from_str.
Print Assumptions C10_from_str_token.
Print Assumptions C10_from_str_strings.
