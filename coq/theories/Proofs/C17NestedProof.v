(* C17 for data paths nested inside list / tuple / mapping arguments (NestedArgs.v):
   N1  the nested resolver extends resolve1;
   N2  the copies judge_n / rule_test_n / build_n / run_rule_test_n coincide with the originals
       on rules without nested arguments;
   N3  substitution: a nested data path (or the whole container holding it) may be replaced by the
       value it resolves to in the document the rule is judged on;
   N4  a nested item that cannot be resolved makes the item of the document fail (callable error)
       instead of aborting. *)
From Coq Require Import ZArith NArith List Bool String.
From Valida Require Import Py Lang Defs Cond Dsl Path Cast RuleDefs Rule RuleTerms Inst RunRule C17Defs NestedArgs.
From Valida.Proofs Require Import RuleProof C17Proof.
Import ListNotations.
Local Open Scope list_scope.

(* ------------------------------------------------------------------ *)
(* N1. the nested resolver                                              *)

Lemma resolve_n_NA (src : option pyval) (a : arg1) : resolve_n src (NA a) = resolve1 T src a.
Proof. reflexivity. Qed.

Lemma resolve_n_lit (src : option pyval) (v : pyval) : resolve_n src (lit_n v) = Ok v.
Proof. reflexivity. Qed.

Theorem filter_tree_emb : forall src (c : cond arg1) d,
  filter_tree T (resolve_n src) (emb c) d = filter_tree T (resolve1 T src) c d.
Proof.
  intros src c d. unfold emb. apply filter_tree_map. intros a. reflexivity.
Qed.

(* the dict argument keeps its keys, in order *)
Lemma resolve_kvs_mapM (src : option pyval) (kvs : list (pyval * arg1)) :
  resolve_kvs src kvs = rmap (combine (map fst kvs)) (mapM (resolve1 T src) (map snd kvs)).
Proof.
  induction kvs as [ | [k a] r IH]; [reflexivity | ].
  cbn [resolve_kvs map fst snd mapM].
  destruct (resolve1 T src a) as [v | e]; cbn [bind rmap]; [ | reflexivity].
  rewrite IH. destruct (mapM (resolve1 T src) (map snd r)) as [vs | e]; reflexivity.
Qed.

(* one characterisation for the three shapes: the items one level down are resolved left to
   right, then packed back into the shape of the argument *)
Definition pack_n (n : narg) (vs : list pyval) : pyval :=
  match n with
  | NA _ => hd VNone vs
  | NItems tup _ => if tup then VTuple vs else VList vs
  | NDict kvs => VDict (combine (map fst kvs) vs)
  end.

Lemma resolve_n_mapM (src : option pyval) (n : narg) :
  resolve_n src n = let* vs := mapM (resolve1 T src) (nitems n) in Ok (pack_n n vs).
Proof.
  destruct n as [a | tup items | kvs]; cbn [resolve_n nitems pack_n].
  - cbn [mapM]. destruct (resolve1 T src a) as [v | e]; reflexivity.
  - reflexivity.
  - rewrite resolve_kvs_mapM.
    destruct (mapM (resolve1 T src) (map snd kvs)) as [vs | e]; reflexivity.
Qed.

Lemma mapM_lit (src : option pyval) (vs : list pyval) : mapM (resolve1 T src) (map ALit vs) = Ok vs.
Proof.
  induction vs as [ | v r IH]; [reflexivity | ].
  cbn [map mapM resolve1 bind]. rewrite IH. reflexivity.
Qed.

(* a container argument without data paths, written item by item, is the literal container *)
Lemma resolve_n_items_lit (src : option pyval) (tup : bool) (vs : list pyval) :
  resolve_n src (NItems tup (map ALit vs)) = Ok (if tup then VTuple vs else VList vs).
Proof. cbn [resolve_n]. rewrite mapM_lit. reflexivity. Qed.

Lemma resolve_n_dict_lit (src : option pyval) (d : list (pyval * pyval)) :
  resolve_n src (NDict (map (fun kv => (fst kv, ALit (snd kv))) d)) = Ok (VDict d).
Proof.
  cbn [resolve_n]. rewrite resolve_kvs_mapM, !map_map. cbn [fst snd].
  rewrite <- (map_map snd ALit), mapM_lit. cbn [rmap bind].
  assert (H : combine (map (fun x : pyval * pyval => fst x) d) (map snd d) = d).
  { induction d as [ | [k v] r IH]; [reflexivity | ]. cbn [map combine fst snd]. rewrite IH. reflexivity. }
  rewrite H. reflexivity.
Qed.

(* ------------------------------------------------------------------ *)
(* N2. the copies coincide with the originals                           *)

Lemma has_non_value_leaf_emb (c : cond arg1) : has_non_value_leaf (emb c) = has_non_value_leaf c.
Proof. unfold emb. apply has_non_value_leaf_map. Qed.

Theorem judge_emb : forall (r : rule) doc, judge_n (emb_rule r) doc = judge T r doc.
Proof.
  intros r doc. unfold judge_n, judge. cbn [emb_rule rn_path rn_cond].
  destruct (selection T (r_path r) doc) as [sel | e]; [ | reflexivity].
  cbn [bind]. destruct sel as [ | s sel']; [reflexivity | ].
  rewrite has_non_value_leaf_emb, filter_tree_emb.
  destruct (r_cond r) as [l | o a b]; reflexivity.
Qed.

Theorem rule_test_emb : forall (r : rule) doc copy,
  rule_test_n (emb_rule r) doc copy = rule_test T r doc copy.
Proof.
  intros r doc copy. unfold rule_test_n, rule_test.
  change (rn_cast (emb_rule r)) with (r_cast r).
  change (rn_path (emb_rule r)) with (r_path r).
  destruct (mk_data doc) as [d | e]; [ | reflexivity]. cbn [bind].
  destruct (r_cast r) as [ | cf casts].
  - rewrite judge_emb. reflexivity.
  - destruct (selection T (r_path r) doc) as [sel | e]; [ | reflexivity]. cbn [bind].
    destruct (cast_loop (cf :: casts) sel match copy with Some c => c | None => doc end) as [cp1 | e];
      [ | reflexivity].
    cbn [bind]. rewrite judge_emb. reflexivity.
Qed.

Lemma check_nargs_emb (pos : list arg1) : check_nargs (map NA pos) = check_args T pos.
Proof.
  induction pos as [ | a r IH]; [reflexivity | ].
  cbn [map check_nargs check_args]. unfold check_narg. cbn [nitems check_args].
  rewrite IH. destruct (check_arg T a) as [[] | e]; reflexivity.
Qed.

Lemma check_nkw_emb (kw : list (string * arg1)) : check_nkw (kmap arg1 narg NA kw) = check_kw T kw.
Proof.
  induction kw as [ | [k a] r IH]; [reflexivity | ].
  cbn [kmap map check_nkw check_kw fst snd]. fold (kmap arg1 narg NA r).
  unfold check_narg. cbn [nitems check_args].
  rewrite IH. destruct (check_arg T a) as [[] | e]; reflexivity.
Qed.

Theorem build_n_emb : forall (t : dslc arg1), build_n (dslc_map NA t) = rmap emb (build1 T t).
Proof.
  induction t as [cls m pos kw | | o a IHa b IHb]; cbn [dslc_map build_n build1].
  - rewrite check_nargs_emb.
    destruct (check_args T pos) as [[] | e]; cbn [bind rmap]; [ | reflexivity].
    change (map (fun ka : string * arg1 => (fst ka, NA (snd ka))) kw) with (kmap arg1 narg NA kw).
    rewrite check_nkw_emb.
    destruct (check_kw T kw) as [[] | e]; cbn [bind rmap]; [ | reflexivity].
    rewrite (build_leaf_map arg1 narg NA (lit1) lit_n (fun v => eq_refl) T cls m pos kw).
    destruct (build_leaf T lit1 cls m pos kw) as [l | e]; reflexivity.
  - reflexivity.
  - rewrite IHa, IHb.
    destruct (build1 T a) as [x | e]; cbn [rmap bind]; [ | reflexivity].
    destruct (build1 T b) as [y | e]; cbn [rmap bind]; [ | reflexivity].
    unfold emb. apply mk_bin_map.
Qed.

Theorem mk_rule_emb : forall (rt : ruleterm), mk_rule_n (emb_ruleterm rt) = rmap emb_rule (mk_rule T rt).
Proof.
  intros rt. unfold mk_rule_n, mk_rule. cbn [emb_ruleterm rtn_path rtn_cond rtn_cast].
  destruct (mk_path T id0 (rt_path_t rt)) as [p | e]; cbn [bind rmap]; [ | reflexivity].
  rewrite build_n_emb.
  destruct (build1 T (rt_cond_t rt)) as [c | e]; reflexivity.
Qed.

Theorem run_rule_test_emb : forall (rt : ruleterm) doc,
  run_rule_test_n (emb_ruleterm rt) doc = run_rule_test rt doc.
Proof.
  intros rt doc. unfold run_rule_test_n, run_rule_test. rewrite mk_rule_emb.
  destruct (mk_rule T rt) as [r | e]; cbn [rmap bind]; [ | reflexivity].
  rewrite rule_test_emb. reflexivity.
Qed.

(* ------------------------------------------------------------------ *)
(* N3. substitution                                                     *)

(* every data path (top-level or nested) is replaced by what it resolves to in doc, when the
   resolution succeeds: a top-level path becomes the literal it selects (as subst_arg1); a list /
   tuple / dict argument becomes ONE literal container when all of its items resolve, and is left
   as it is otherwise *)
Definition subst_n (doc : pyval) (n : narg) : narg :=
  match n with
  | NA a => NA (subst_arg1 doc a)
  | NItems _ _ | NDict _ =>
      match resolve_n (Some doc) n with Ok v => lit_n v | Err _ => n end
  end.

Definition subst_cond_n (doc : pyval) : cond narg -> cond narg := cond_map narg narg (subst_n doc).

Definition subst_rule_n (doc : pyval) (r : rule_n) : rule_n :=
  {| rn_path := rn_path r; rn_cond := subst_cond_n doc (rn_cond r); rn_cast := rn_cast r |}.

(* Value.in_([DataPath("a"), 3]) on {"a": 1, ..} becomes Value.in_([1, 3]) *)
Example subst_n_example :
  subst_n ex_doc (NItems false [APath 1%N (ex_key_path "a"); ALit (VInt 3)]) = lit_n (VList [VInt 1; VInt 3])
  /\ subst_n ex_doc_dict (NDict [(VStr "x", APath 1%N (ex_key_path "a"))]) = lit_n (VDict [(VStr "x", VInt 1)])
  /\ subst_n ex_doc (NA (APath 1%N (ex_key_path "a"))) = lit_n (VInt 1).
Proof. vm_compute. repeat split; reflexivity. Qed.

(* uniform description *)
Lemma subst_n_uniform (doc : pyval) (n : narg) :
  subst_n doc n = match resolve_n (Some doc) n with Ok v => lit_n v | Err _ => n end.
Proof.
  destruct n as [a | tup items | kvs]; [ | reflexivity | reflexivity].
  destruct a as [v | tag p]; [reflexivity | ].
  cbn [subst_n subst_arg1 resolve_n].
  destruct (resolve1 T (Some doc) (APath tag p)) as [v | e]; reflexivity.
Qed.

Lemma resolve_n_subst (doc : pyval) (n : narg) :
  resolve_n (Some doc) (subst_n doc n) = resolve_n (Some doc) n.
Proof.
  rewrite subst_n_uniform.
  destruct (resolve_n (Some doc) n) as [v | e] eqn:E; [reflexivity | exact E].
Qed.

Theorem C17N_subst_filter : forall doc (c : cond narg) d,
  filter_tree T (resolve_n (Some doc)) (subst_cond_n doc c) d = filter_tree T (resolve_n (Some doc)) c d.
Proof.
  intros doc c d. unfold subst_cond_n. apply filter_tree_map. intros n. apply resolve_n_subst.
Qed.

(* on conditions without nested arguments this is the substitution of C17Defs.v *)
Lemma subst_cond_n_emb (doc : pyval) (c : cond arg1) : subst_cond_n doc (emb c) = emb (subst_cond doc c).
Proof.
  unfold subst_cond_n, emb. induction c as [l | o a IHa b IHb].
  - cbn [cond_map subst_cond]. f_equal.
    unfold leaf_map, subst_leaf, kmap. cbn [l_cls l_kind l_pre l_call l_args l_kwargs].
    rewrite !map_map. reflexivity.
  - cbn [cond_map subst_cond]. rewrite IHa, IHb. reflexivity.
Qed.

Lemma has_non_value_leaf_subst_n (doc : pyval) (c : cond narg) :
  has_non_value_leaf (subst_cond_n doc c) = has_non_value_leaf c.
Proof. unfold subst_cond_n. apply has_non_value_leaf_map. Qed.

(* the general form: substitution with the document the rule is judged on *)
Theorem C17N_subst_judge : forall r doc, judge_n (subst_rule_n doc r) doc = judge_n r doc.
Proof.
  intros r doc. unfold judge_n.
  change (rn_path (subst_rule_n doc r)) with (rn_path r).
  change (rn_cond (subst_rule_n doc r)) with (subst_cond_n doc (rn_cond r)).
  destruct (selection T (rn_path r) doc) as [sel | e]; [ | reflexivity].
  cbn [bind]. destruct sel as [ | s sel']; [reflexivity | ].
  rewrite has_non_value_leaf_subst_n, C17N_subst_filter.
  destruct (rn_cond r) as [l | o a b]; reflexivity.
Qed.

Theorem C17N_subst_rule_test_nocast : forall r doc,
  rn_cast r = [] -> rule_test_n (subst_rule_n doc r) doc None = rule_test_n r doc None.
Proof.
  intros r doc Hcast. unfold rule_test_n.
  change (rn_cast (subst_rule_n doc r)) with (rn_cast r).
  rewrite Hcast, C17N_subst_judge. reflexivity.
Qed.

(* With casts the rule is judged on the cast copy: substituting with THAT document preserves the
   verdict (substituting with the uncast document is not claimed). *)
Theorem C17N_subst_rule_test_cast : forall r doc copy sel cp1,
  rn_cast r <> [] ->
  selection T (rn_path r) doc = Ok sel ->
  cast_loop (rn_cast r) sel (match copy with Some c => c | None => doc end) = Ok cp1 ->
  rule_test_n (subst_rule_n cp1 r) doc copy = rule_test_n r doc copy.
Proof.
  intros r doc copy sel cp1 Hcast Hsel Hloop. unfold rule_test_n.
  change (rn_cast (subst_rule_n cp1 r)) with (rn_cast r).
  change (rn_path (subst_rule_n cp1 r)) with (rn_path r).
  destruct (mk_data doc) as [d | e]; [ | reflexivity].
  cbn [bind]. destruct (rn_cast r) as [ | cf casts] eqn:Ec; [contradiction Hcast; reflexivity | ].
  rewrite Hsel. cbn [bind]. rewrite Hloop. cbn [bind].
  rewrite C17N_subst_judge. reflexivity.
Qed.

(* ------------------------------------------------------------------ *)
(* N4. a nested item that cannot be resolved                            *)

(* generic in the argument type: some argument fails, every failure is a caught class *)
Section UnresolvableGen.
  Variable A : Type.
  Variable resolve : A -> res pyval.

  Lemma mapM_err_witness {B} (f : A -> res B) (l : list A) (e : exc) :
    mapM f l = Err e -> exists a, In a l /\ f a = Err e.
  Proof.
    induction l as [ | x r IH]; intros H; [discriminate H | ].
    cbn [mapM] in H. destruct (f x) as [y | ex] eqn:Ex; cbn [bind] in H.
    - destruct (mapM f r) as [ys | er]; cbn [bind] in H; [discriminate H | ].
      destruct (IH H) as [a [Hin Ha]]. exists a. split; [right; exact Hin | exact Ha].
    - injection H as H. subst ex. exists x. split; [left; reflexivity | exact Ex].
  Qed.

  Lemma eval_item_some_arg_err (l : leaf A) (datum v : pyval) (a : A) (e : exc) :
    pre_apply (l_pre l) datum = Ok v ->
    In a (l_args l ++ map snd (l_kwargs l)) ->
    resolve a = Err e ->
    (forall a' e', In a' (l_args l ++ map snd (l_kwargs l)) -> resolve a' = Err e' ->
                   catches (t_caught_call T) e' = true) ->
    eval_item T resolve l datum = Ok (false, true, false).
  Proof.
    intros Hpre Hin Ha Hall.
    destruct (mapM resolve (l_args l)) as [args | e0] eqn:Em.
    - apply in_app_or in Hin. destruct Hin as [Hin | Hin].
      + destruct (mapM_some_err _ _ a e Hin Ha) as [a' [e' [_ [_ Hm]]]].
        rewrite Hm in Em. discriminate Em.
      + destruct (resolve_kw_some_err _ _ a e Hin Ha) as [a' [e' [Hin' [Ha' Hk]]]].
        rewrite (eval_item_kwargs_err A resolve l datum v args e' Hpre Em Hk).
        rewrite (Hall a' e'); [reflexivity | apply in_or_app; right; exact Hin' | exact Ha'].
    - destruct (mapM_err_witness resolve _ _ Em) as [a' [Hin' Ha']].
      rewrite (eval_item_args_err A resolve l datum v e0 Hpre Em).
      rewrite (Hall a' e0); [reflexivity | apply in_or_app; left; exact Hin' | exact Ha'].
  Qed.
End UnresolvableGen.

(* the error of a nested argument is the error of its first failing item *)
Lemma resolve_n_err_item (src : option pyval) (n : narg) (e : exc) :
  resolve_n src n = Err e -> exists a, In a (nitems n) /\ resolve1 T src a = Err e.
Proof.
  rewrite resolve_n_mapM. intros H.
  destruct (mapM (resolve1 T src) (nitems n)) as [vs | e0] eqn:Em; cbn [bind] in H; [discriminate H | ].
  injection H as H. subst e0. exact (mapM_err_witness arg1 _ _ _ Em).
Qed.

Lemma resolve_n_first_err (src : option pyval) (n : narg) (ipre ipost : list arg1) (a : arg1)
      (ivs : list pyval) (e : exc) :
  nitems n = ipre ++ a :: ipost ->
  mapM (resolve1 T src) ipre = Ok ivs ->
  resolve1 T src a = Err e ->
  resolve_n src n = Err e.
Proof.
  intros Hn Hpre Ha. rewrite resolve_n_mapM, Hn.
  rewrite (mapM_first_err _ ipre ipost a ivs e Hpre Ha). reflexivity.
Qed.

Lemma resolve_n_item_err (src : option pyval) (n : narg) (a : arg1) (e : exc) :
  In a (nitems n) -> resolve1 T src a = Err e ->
  exists a' e', In a' (nitems n) /\ resolve1 T src a' = Err e' /\ resolve_n src n = Err e'.
Proof.
  intros Hin Ha.
  destruct (mapM_some_err _ _ a e Hin Ha) as [a' [e' [Hin' [Ha' Hm]]]].
  exists a', e'. split; [exact Hin' | ]. split; [exact Ha' | ].
  rewrite resolve_n_mapM, Hm. reflexivity.
Qed.

(* the primitive form (the analogue of C17_unresolvable): the resolution of the positional
   arguments, or - these being resolvable - of the keyword arguments, stops with a caught error *)
Theorem C17N_unresolvable : forall doc (l : leaf narg) datum v e,
  pre_apply (l_pre l) datum = Ok v ->
  catches (t_caught_call T) e = true ->
  ( mapM (resolve_n (Some doc)) (l_args l) = Err e
    \/ (exists args, mapM (resolve_n (Some doc)) (l_args l) = Ok args
                     /\ resolve_kw narg (resolve_n (Some doc)) (l_kwargs l) = Err e) ) ->
  eval_item T (resolve_n (Some doc)) l datum = Ok (false, true, false).
Proof.
  intros doc l datum v e Hpre Hc [Hm | [args [Hm Hk]]].
  - rewrite (eval_item_args_err narg _ l datum v e Hpre Hm), Hc. reflexivity.
  - rewrite (eval_item_kwargs_err narg _ l datum v args e Hpre Hm Hk), Hc. reflexivity.
Qed.

(* the first failing nested item of the first failing positional argument *)
Corollary C17N_unresolvable_first_item : forall doc (l : leaf narg) datum v pre n post vs ipre a ipost ivs e,
  pre_apply (l_pre l) datum = Ok v ->
  l_args l = pre ++ n :: post ->
  mapM (resolve_n (Some doc)) pre = Ok vs ->
  nitems n = ipre ++ a :: ipost ->
  mapM (resolve1 T (Some doc)) ipre = Ok ivs ->
  resolve1 T (Some doc) a = Err e ->
  catches (t_caught_call T) e = true ->
  eval_item T (resolve_n (Some doc)) l datum = Ok (false, true, false).
Proof.
  intros doc l datum v pre n post vs ipre a ipost ivs e Hpre Hargs Hok Hn Hiok Ha Hc.
  apply (C17N_unresolvable doc l datum v e Hpre Hc). left. rewrite Hargs.
  apply (mapM_first_err _ pre post n vs e Hok).
  exact (resolve_n_first_err _ n ipre ipost a ivs e Hn Hiok Ha).
Qed.

(* the same inside a keyword argument, all positional arguments being resolvable *)
Corollary C17N_unresolvable_first_kw_item : forall doc (l : leaf narg) datum v args pre k n post vs ipre a ipost ivs e,
  pre_apply (l_pre l) datum = Ok v ->
  mapM (resolve_n (Some doc)) (l_args l) = Ok args ->
  l_kwargs l = pre ++ (k, n) :: post ->
  resolve_kw narg (resolve_n (Some doc)) pre = Ok vs ->
  nitems n = ipre ++ a :: ipost ->
  mapM (resolve1 T (Some doc)) ipre = Ok ivs ->
  resolve1 T (Some doc) a = Err e ->
  catches (t_caught_call T) e = true ->
  eval_item T (resolve_n (Some doc)) l datum = Ok (false, true, false).
Proof.
  intros doc l datum v args pre k n post vs ipre a ipost ivs e Hpre Hm Hkw Hok Hn Hiok Ha Hc.
  apply (C17N_unresolvable doc l datum v e Hpre Hc). right. exists args. split; [exact Hm | ].
  rewrite Hkw. apply (resolve_kw_first_err _ pre post k n vs e Hok).
  exact (resolve_n_first_err _ n ipre ipost a ivs e Hn Hiok Ha).
Qed.

(* the readable form: some item of some argument (the argument itself, an item of a list / tuple
   argument, a value of a dict argument; positional or keyword) cannot be resolved, and every
   resolution error of an item of an argument of this leaf is one the except clause catches:
   the item of the document being judged fails with a callable error *)
Theorem C17N_unresolvable_fails : forall doc (l : leaf narg) datum v n a e,
  pre_apply (l_pre l) datum = Ok v ->
  In n (l_args l ++ map snd (l_kwargs l)) ->
  In a (nitems n) ->
  resolve1 T (Some doc) a = Err e ->
  (forall n' a' e', In n' (l_args l ++ map snd (l_kwargs l)) -> In a' (nitems n') ->
                    resolve1 T (Some doc) a' = Err e' -> catches (t_caught_call T) e' = true) ->
  eval_item T (resolve_n (Some doc)) l datum = Ok (false, true, false).
Proof.
  intros doc l datum v n a e Hpre Hn Hin Ha Hall.
  destruct (resolve_n_item_err (Some doc) n a e Hin Ha) as [a1 [e1 [_ [_ Hr]]]].
  apply (eval_item_some_arg_err narg (resolve_n (Some doc)) l datum v n e1 Hpre Hn Hr).
  intros n' e' Hn' Hr'.
  destruct (resolve_n_err_item (Some doc) n' e' Hr') as [a' [Hin' Ha']].
  exact (Hall n' a' e' Hn' Hin' Ha').
Qed.

(* with the error classes the generated except clause is known to catch (C17_resolution_errors_caught) *)
Corollary C17N_unresolvable_fails_listed : forall doc (l : leaf narg) datum v n a e,
  pre_apply (l_pre l) datum = Ok v ->
  In n (l_args l ++ map snd (l_kwargs l)) ->
  In a (nitems n) ->
  resolve1 T (Some doc) a = Err e ->
  (forall n' a' e', In n' (l_args l ++ map snd (l_kwargs l)) -> In a' (nitems n') ->
                    resolve1 T (Some doc) a' = Err e' ->
                    In e' [TypeError; AttributeError; ValueError; IndexError; KeyError; ZeroDivisionError; OverflowError]) ->
  eval_item T (resolve_n (Some doc)) l datum = Ok (false, true, false).
Proof.
  intros doc l datum v n a e Hpre Hn Hin Ha Hall.
  apply (C17N_unresolvable_fails doc l datum v n a e Hpre Hn Hin Ha).
  intros n' a' e' Hn' Hin' Ha'. apply C17_resolution_errors_caught. exact (Hall n' a' e' Hn' Hin' Ha').
Qed.

(* a concrete instance: Value.in_([DataPath("a").length(), 3]) on {"a": 1, "xs": [1, 2, 3]}: len(1)
   raises TypeError while the argument is resolved; every item of xs fails, nothing aborts *)
Example C17N_unresolvable_example :
  run_rule_test_n
    {| rtn_path := ex_xs_items;
       rtn_cond := DLeaf "Value" "in_"
                     [NItems false [APath 1%N {| pt_parts := [PtPrim (VStr "a")]; pt_mods := ["length"%string]; pt_src := None |};
                                    ALit (VInt 3)]] [];
       rtn_cast := [] |} ex_doc
  = Ok (VTuple [VTuple [VBool false; VBool true; VInt 3;
                        VList [VTuple [VInt 0; VInt 1; VTuple [VStr "xs"; VInt 0]; VBool true];
                               VTuple [VInt 1; VInt 2; VTuple [VStr "xs"; VInt 1]; VBool true];
                               VTuple [VInt 2; VInt 3; VTuple [VStr "xs"; VInt 2]; VBool true]]];
                ex_doc]).
Proof. vm_compute. reflexivity. Qed.

Print Assumptions resolve_n_NA.
Print Assumptions filter_tree_emb.
Print Assumptions resolve_n_mapM.
Print Assumptions judge_emb.
Print Assumptions rule_test_emb.
Print Assumptions build_n_emb.
Print Assumptions mk_rule_emb.
Print Assumptions run_rule_test_emb.
Print Assumptions C17N_subst_filter.
Print Assumptions subst_cond_n_emb.
Print Assumptions C17N_subst_judge.
Print Assumptions C17N_subst_rule_test_nocast.
Print Assumptions C17N_subst_rule_test_cast.
Print Assumptions C17N_unresolvable.
Print Assumptions C17N_unresolvable_first_item.
Print Assumptions C17N_unresolvable_first_kw_item.
Print Assumptions C17N_unresolvable_fails.
Print Assumptions C17N_unresolvable_fails_listed.
