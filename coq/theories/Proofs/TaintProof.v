(* Soundness of the write-to-caller analysis of Valida.Taint.

   [safe_sound]: a function the analysis accepts writes to no object owned by its caller, for every
   initial heap, every binding of its parameters and every run of its body (blocks: any order, any
   number of times).
   History: the first version of rule [cs_deep] in Taint.v let the new objects of a deep copy hold
   dangling contents (locations beyond the end of the new heap); a later allocation then landed on the
   dangling location and a variable the analysis calls [Deep] reached a caller-owned object.  This
   proof attempt exposed it (safe f = true for  x = deepcopy(); z = dict(p); x[..][..] = ..  with a
   run writing the caller's object) and the rule was given its upper bound. *)
From Coq Require Import Bool String List Arith Lia.
From Valida Require Import Taint.
Import ListNotations.
Local Open Scope string_scope.
Local Open Scope list_scope.

(* ------------------------------------------------------------------------------------------ *)
(* Examples: the analysis is not vacuous                                                       *)

Definition f_copy_then_store : afun :=
  {| af_name := "ok"; af_params := ["spec"];
     af_body := [Straight (OpShallow "spec" ["spec"]); Block [OpStore "spec" true []]] |}.
Definition f_store : afun :=
  {| af_name := "bad"; af_params := ["spec"]; af_body := [Block [OpStore "spec" true []]] |}.

Example safe_copy_then_store : safe f_copy_then_store = true.
Proof. vm_compute. reflexivity. Qed.
Example unsafe_store : safe f_store = false.
Proof. vm_compute. reflexivity. Qed.

Definition h_one : heap := [{| owned := true; kids := [] |}].
Definition e_spec : cenv := [("spec", Some 0)].

(* the rejected function really writes the caller's object *)
Example unsafe_store_run :
  exists h' e' w, crun (af_body f_store) h_one e_spec h' e' w /\ Exists (fun l => owned_at h' l = true) w.
Proof.
  exists h_one, e_spec, ([0] ++ [] ++ []). split.
  - unfold f_store; simpl af_body.
    eapply cr_block with (h1 := h_one) (e1 := e_spec); [ | apply cr_nil ].
    eapply cb_more with (o := OpStore "spec" true []) (h1 := h_one) (e1 := e_spec) (w1 := [0]).
    + left; reflexivity.
    + change h_one with (set_nth h_one 0 {| owned := owned {| owned := true; kids := [] |}; kids := [] |}) at 2.
      eapply cs_store with (r := 0).
      * reflexivity.
      * reflexivity.
      * reflexivity.
      * constructor.
    + apply cb_done.
  - simpl. left. reflexivity.
Qed.

(* ------------------------------------------------------------------------------------------ *)
(* environments                                                                                *)

Lemma aget_aset_eq : forall x l a, aget x (aset x l a) = l.
Proof.
  intros x l a. induction a as [|[y m] a IH]; simpl.
  - rewrite String.eqb_refl. reflexivity.
  - destruct (String.eqb x y) eqn:E; simpl; rewrite E; auto.
Qed.
Lemma aget_aset_neq : forall x y l a, x <> y -> aget y (aset x l a) = aget y a.
Proof.
  intros x y l a Hne. induction a as [|[z m] a IH]; simpl.
  - destruct (String.eqb_spec y x); [congruence|reflexivity].
  - destruct (String.eqb_spec x z) as [->|Hxz]; simpl.
    + destruct (String.eqb_spec y z); [congruence|reflexivity].
    + destruct (String.eqb y z); auto.
Qed.
Lemma aget_degrade : forall x a, aget x (degrade a) = match aget x a with Deep => Shal | l => l end.
Proof.
  intros x a. induction a as [|[y m] a IH]; simpl; [reflexivity|].
  destruct (String.eqb x y); auto.
Qed.
Lemma cget_cset : forall x y v e, cget y (cset x v e) = if String.eqb y x then Some v else cget y e.
Proof. reflexivity. Qed.

Lemma all_deep_spec : forall a ys y, all_deep a ys = true -> In y ys -> aget y a = Deep.
Proof.
  unfold all_deep. intros a ys y H Hin. rewrite forallb_forall in H. specialize (H y Hin).
  destruct (aget y a); congruence.
Qed.
Lemma alias_all_cases : forall a ys, alias_all a ys = Deep \/ alias_all a ys = Ext.
Proof.
  intros a ys. induction ys as [|y ys IH]; simpl; [auto|].
  fold (alias_all a ys). destruct IH as [-> | ->]; destruct (aget y a); simpl; auto.
Qed.
Lemma alias_all_deep : forall a ys y, alias_all a ys = Deep -> In y ys -> aget y a = Deep.
Proof.
  intros a ys. induction ys as [|z ys IH]; simpl; intros y H Hin; [contradiction|].
  fold (alias_all a ys) in H.
  destruct Hin as [->|Hin].
  - destruct (aget y a); simpl in H; try reflexivity; destruct (alias_all a ys); discriminate.
  - apply IH; auto. destruct (alias_all a ys); auto; destruct (aget z a); discriminate.
Qed.

Definition aenv_le (a b : aenv) : Prop := forall x, lvl_le (aget x a) (aget x b) = true.
Lemma lvl_le_refl : forall l, lvl_le l l = true. Proof. destruct l; reflexivity. Qed.
Lemma lvl_le_trans : forall a b c, lvl_le a b = true -> lvl_le b c = true -> lvl_le a c = true.
Proof. destruct a, b, c; simpl; auto. Qed.
Lemma lvl_le_antisym : forall a b, lvl_le a b = true -> lvl_le b a = true -> a = b.
Proof. destruct a, b; simpl; congruence. Qed.
Lemma lvl_le_join_l : forall a b, lvl_le a (lvl_join a b) = true. Proof. destruct a, b; reflexivity. Qed.
Lemma lvl_le_join_r : forall a b, lvl_le b (lvl_join a b) = true. Proof. destruct a, b; reflexivity. Qed.
Lemma aenv_le_refl : forall a, aenv_le a a. Proof. intros a x. apply lvl_le_refl. Qed.
Lemma aenv_le_trans : forall a b c, aenv_le a b -> aenv_le b c -> aenv_le a c.
Proof. intros a b c H1 H2 x. eapply lvl_le_trans; eauto. Qed.

Lemma aset_join_ext : forall a x l, aenv_le a (aset x (lvl_join (aget x a) l) a).
Proof.
  intros a x l y. destruct (String.eqb_spec x y) as [->|Hne].
  - rewrite aget_aset_eq. apply lvl_le_join_l.
  - rewrite aget_aset_neq by auto. apply lvl_le_refl.
Qed.
Lemma store_ext : forall a x, aenv_le a (aset x (lvl_join (aget x a) Shal) (degrade a)).
Proof.
  intros a x y. destruct (String.eqb_spec x y) as [->|Hne].
  - rewrite aget_aset_eq. apply lvl_le_join_l.
  - rewrite aget_aset_neq by auto. rewrite aget_degrade. destruct (aget y a); reflexivity.
Qed.
Lemma astep_weak_ext : forall a o a1 ok, astep false a o = (a1, ok) -> aenv_le a a1.
Proof.
  intros a o a1 ok H. destruct o; simpl in H; inversion H; subst; try apply aset_join_ext.
  destruct (all_deep a ys); [apply aenv_le_refl|apply store_ext].
Qed.
Lemma arun_weak_ext : forall os a a1 ok, arun_weak a os = (a1, ok) -> aenv_le a a1.
Proof.
  induction os as [|o os IH]; simpl; intros a a1 ok H.
  - inversion H; subst. apply aenv_le_refl.
  - destruct (astep false a o) as [e1 ok1] eqn:E1. destruct (arun_weak e1 os) as [e2 ok2] eqn:E2.
    inversion H; subst. eapply aenv_le_trans; [eapply astep_weak_ext; eauto|eapply IH; eauto].
Qed.

(* ------------------------------------------------------------------------------------------ *)
(* heaps                                                                                       *)

Definition closed (h : heap) : Prop :=
  forall l o, nth_error h l = Some o -> forall k, In k (kids o) -> k < List.length h.
(* nothing reachable from r is owned by the caller *)
Definition clean (h : heap) (r : loc) : Prop := forall k, reach h r k -> owned_at h k = false.

Lemma reach_trans : forall h a b c, reach h a b -> reach h b c -> reach h a c.
Proof. induction 1; intros; auto. eapply reach_step; eauto. Qed.
Lemma reach_kid : forall h l o m, nth_error h l = Some o -> In m (kids o) -> reach h l m.
Proof. intros. eapply reach_step; eauto. apply reach_refl. Qed.
Lemma reach_in : forall h r k, closed h -> reach h r k -> r < List.length h -> k < List.length h.
Proof. intros h r k Hc H. induction H; intros; auto. apply IHreach. eapply Hc; eauto. Qed.
Lemma clean_reach : forall h r k, clean h r -> reach h r k -> clean h k.
Proof. intros h r k Hc Hr j Hj. apply Hc. eapply reach_trans; eauto. Qed.
Lemma clean_root : forall h r, clean h r -> owned_at h r = false.
Proof. intros h r H. apply H. apply reach_refl. Qed.

Lemma nth_error_Some_lt : forall (h : heap) l o, nth_error h l = Some o -> l < List.length h.
Proof. intros h l o H. apply nth_error_Some. congruence. Qed.

Lemma reach_ext_old : forall h fr r k, closed h -> reach (h ++ fr) r k -> r < List.length h -> reach h r k.
Proof.
  intros h fr r k Hc H. induction H as [|l m k o Hn Hin Hr IH]; intros Hlt; [apply reach_refl|].
  rewrite nth_error_app1 in Hn by exact Hlt.
  eapply reach_step; eauto.
Qed.
Lemma owned_ext_old : forall h fr l, l < List.length h -> owned_at (h ++ fr) l = owned_at h l.
Proof. intros. unfold owned_at. rewrite nth_error_app1 by auto. reflexivity. Qed.
Lemma owned_ext_new : forall h fr l,
  Forall (fun o => owned o = false) fr -> List.length h <= l -> owned_at (h ++ fr) l = false.
Proof.
  intros h fr l Hf Hl. unfold owned_at. rewrite nth_error_app2 by auto.
  destruct (nth_error fr (l - List.length h)) as [o|] eqn:E; [|reflexivity].
  rewrite Forall_forall in Hf. apply Hf. eapply nth_error_In; eauto.
Qed.
Lemma owned_ext_false : forall h fr l,
  Forall (fun o => owned o = false) fr -> owned_at h l = false -> owned_at (h ++ fr) l = false.
Proof.
  intros h fr l Hf H. destruct (Nat.lt_ge_cases l (List.length h)).
  - rewrite owned_ext_old; auto.
  - apply owned_ext_new; auto.
Qed.
Lemma clean_ext : forall h fr r, closed h -> r < List.length h -> clean h r -> clean (h ++ fr) r.
Proof.
  intros h fr r Hc Hlt Hcl k Hr. apply reach_ext_old in Hr; auto.
  rewrite owned_ext_old; [auto|]. eapply reach_in; eauto.
Qed.
Lemma closed_ext : forall h fr, closed h ->
  (forall o, In o fr -> forall k, In k (kids o) -> k < List.length (h ++ fr)) -> closed (h ++ fr).
Proof.
  intros h fr Hc Hf l o Hn k Hk. destruct (Nat.lt_ge_cases l (List.length h)).
  - rewrite nth_error_app1 in Hn by auto. rewrite app_length. specialize (Hc l o Hn k Hk). lia.
  - rewrite nth_error_app2 in Hn by auto. eapply Hf; eauto. eapply nth_error_In; eauto.
Qed.

Lemma set_nth_length : forall X (l : list X) i x, List.length (set_nth l i x) = List.length l.
Proof. induction l; destruct i; simpl; auto. Qed.
Lemma nth_error_set_nth_eq : forall X (l : list X) i x, i < List.length l -> nth_error (set_nth l i x) i = Some x.
Proof. induction l; destruct i; simpl; intros; try lia; auto. apply IHl. lia. Qed.
Lemma nth_error_set_nth_neq : forall X (l : list X) i j x, i <> j -> nth_error (set_nth l i x) j = nth_error l j.
Proof. induction l; destruct i, j; simpl; intros; try congruence; auto. Qed.
Lemma owned_at_set_nth : forall h l o ks m,
  nth_error h l = Some o -> owned_at (set_nth h l {| owned := owned o; kids := ks |}) m = owned_at h m.
Proof.
  intros h l o ks m Hn. unfold owned_at. destruct (Nat.eq_dec l m) as [<-|Hne].
  - rewrite nth_error_set_nth_eq by (eapply nth_error_Some_lt; eauto). rewrite Hn. reflexivity.
  - rewrite nth_error_set_nth_neq by auto. reflexivity.
Qed.

(* the key lemma for stores whose new contents are clean *)
Lemma clean_store : forall h l o ks r,
  nth_error h l = Some o ->
  (forall k, In k ks -> In k (kids o) \/ clean h k) ->
  clean h r -> clean (set_nth h l {| owned := owned o; kids := ks |}) r.
Proof.
  intros h l o ks r Hn Hks Hcl k Hr.
  rewrite owned_at_set_nth by auto.
  revert Hcl. induction Hr as [a|a m k o' Hn' Hin Hr IH]; intros Hcl.
  - apply clean_root; auto.
  - apply IH. destruct (Nat.eq_dec l a) as [->|Hne].
    + rewrite nth_error_set_nth_eq in Hn' by (eapply nth_error_Some_lt; eauto).
      inversion Hn'; subst o'. simpl in Hin.
      destruct (Hks m Hin) as [Hold|Hnew]; [|exact Hnew].
      eapply clean_reach; eauto. eapply reach_kid; eauto.
    + rewrite nth_error_set_nth_neq in Hn' by auto.
      eapply clean_reach; eauto. eapply reach_kid; eauto.
Qed.

(* a new top-level object with clean contents *)
Lemma clean_new : forall h ks,
  closed h -> (forall k, In k ks -> k < List.length h /\ clean h k) ->
  clean (h ++ [{| owned := false; kids := ks |}]) (List.length h).
Proof.
  intros h ks Hc Hks k Hr.
  assert (Hnew : nth_error (h ++ [{| owned := false; kids := ks |}]) (List.length h)
                 = Some {| owned := false; kids := ks |}).
  { rewrite nth_error_app2 by lia. rewrite Nat.sub_diag. reflexivity. }
  inversion Hr as [|a m k0 o Hn Hin Hr']; subst.
  - unfold owned_at. rewrite Hnew. reflexivity.
  - rewrite Hnew in Hn. inversion Hn; subst o. simpl in Hin.
    destruct (Hks m Hin) as [Hlt Hcl].
    eapply clean_ext; eauto.
Qed.

(* ------------------------------------------------------------------------------------------ *)
(* the invariant                                                                               *)

Definition sat (l : lvl) (h : heap) (r : loc) : Prop :=
  match l with Deep => clean h r | Shal => owned_at h r = false | Ext => True end.

Definition inv (a : aenv) (h : heap) (e : cenv) : Prop :=
  closed h /\ forall x r, cget x e = Some (Some r) -> r < List.length h /\ sat (aget x a) h r.

(* the formulation suggested in the task *)
Lemma inv_spelled : forall a h e, inv a h e <->
  (closed h /\ forall x r, cget x e = Some (Some r) ->
     r < List.length h /\
     (aget x a = Deep -> forall k, reach h r k -> owned_at h k = false) /\
     (aget x a = Shal -> owned_at h r = false)).
Proof.
  intros a h e. unfold inv, sat, clean. split; intros [Hc H]; split; auto; intros x r Hx;
    destruct (H x r Hx) as [Hlt Hs]; split; auto.
  - split; intros E; rewrite E in Hs; auto.
  - destruct Hs as [Hd Hsh]. destruct (aget x a); auto.
Qed.

Lemma sat_mono : forall l l' h r, lvl_le l l' = true -> sat l h r -> sat l' h r.
Proof. intros l l' h r Hle H. destruct l, l'; simpl in *; try discriminate; auto. apply clean_root; auto. Qed.
Lemma inv_mono : forall a a' h e, inv a h e -> aenv_le a a' -> inv a' h e.
Proof.
  intros a a' h e [Hc H] Hle. split; auto. intros x r Hx. destruct (H x r Hx) as [Hlt Hs]. split; auto.
  eapply sat_mono; eauto.
Qed.
Lemma sat_ext : forall l h fr r, closed h -> r < List.length h -> sat l h r -> sat l (h ++ fr) r.
Proof.
  intros l h fr r Hc Hlt H. destruct l; simpl in *; auto.
  - apply clean_ext; auto.
  - rewrite owned_ext_old; auto.
Qed.
Lemma inv_ext : forall a h fr e, inv a h e -> closed (h ++ fr) -> inv a (h ++ fr) e.
Proof.
  intros a h fr e [Hc H] Hc'. split; auto. intros x r Hx. destruct (H x r Hx) as [Hlt Hs]. split.
  - rewrite app_length. lia.
  - apply sat_ext; auto.
Qed.
(* assignment of a variable *)
Lemma inv_set : forall a h e x v L,
  inv a h e -> (forall r, v = Some r -> r < List.length h /\ sat L h r) ->
  inv (aset x L a) h (cset x v e).
Proof.
  intros a h e x v L [Hc H] Hv. split; auto. intros y r Hy. rewrite cget_cset in Hy.
  destruct (String.eqb_spec y x) as [->|Hne].
  - inversion Hy; subst v. rewrite aget_aset_eq. auto.
  - rewrite aget_aset_neq by auto. auto.
Qed.
Lemma upd_le : forall (strong : bool) old l, lvl_le l (if strong then l else lvl_join old l) = true.
Proof. intros [] old l; [apply lvl_le_refl|apply lvl_le_join_r]. Qed.
Lemma inv_upd : forall (strong : bool) a h e x v l,
  inv a h e -> (forall r, v = Some r -> r < List.length h /\ sat l h r) ->
  inv (aset x (if strong then l else lvl_join (aget x a) l) a) h (cset x v e).
Proof.
  intros. apply inv_set; auto. intros r Hr. destruct (H0 r Hr). split; auto.
  eapply sat_mono; [apply upd_le|]; auto.
Qed.
Lemma from_vars_in : forall a h e ys k, inv a h e -> from_vars h e ys k -> k < List.length h.
Proof.
  intros a h e ys k [Hc H] (y & r & Hin & Hy & Hr). destruct (H y r Hy) as [Hlt _].
  eapply reach_in; eauto.
Qed.
Lemma from_vars_clean : forall a h e ys k,
  inv a h e -> (forall y, In y ys -> aget y a = Deep) -> from_vars h e ys k -> clean h k.
Proof.
  intros a h e ys k [Hc H] Hd (y & r & Hin & Hy & Hr). destruct (H y r Hy) as [_ Hs].
  rewrite (Hd y Hin) in Hs. simpl in Hs. eapply clean_reach; eauto.
Qed.

(* ------------------------------------------------------------------------------------------ *)
(* ownership never changes                                                                     *)

Lemma cstep_owned_fwd : forall h e o h1 e1 w l,
  cstep h e o h1 e1 w -> owned_at h l = false -> owned_at h1 l = false.
Proof.
  intros h e o h1 e1 w l H Hl. destruct H; auto.
  - apply owned_ext_false; auto.
  - destruct H as (fr & -> & Hf). apply owned_ext_false; auto.
  - apply owned_ext_false; auto.
  - rewrite owned_at_set_nth; auto.
Qed.
Lemma cblock_owned_fwd : forall os h e h1 e1 w l,
  cblock os h e h1 e1 w -> owned_at h l = false -> owned_at h1 l = false.
Proof. induction 1; eauto using cstep_owned_fwd. Qed.
Lemma crun_owned_fwd : forall p h e h1 e1 w l,
  crun p h e h1 e1 w -> owned_at h l = false -> owned_at h1 l = false.
Proof. induction 1; eauto using cstep_owned_fwd, cblock_owned_fwd. Qed.

Definition unowned_writes (h : heap) (w : list loc) : Prop := Forall (fun l => owned_at h l = false) w.

(* ------------------------------------------------------------------------------------------ *)
(* 1. one step                                                                                 *)

Lemma astep_sound : forall strong a o a1 h e h1 e1 w,
  inv a h e -> cstep h e o h1 e1 w -> astep strong a o = (a1, true) ->
  inv a1 h1 e1 /\ unowned_writes h1 w.
Proof.
  intros strong a o a1 h e h1 e1 w Hinv Hstep Ha.
  pose proof Hinv as [Hc Hvars].
  destruct Hstep; simpl in Ha; inversion Ha; subst; clear Ha.
  - (* fresh, immutable *)
    split; [|constructor]. apply inv_upd; auto. discriminate.
  - (* fresh object *)
    split; [|constructor].
    assert (Hc' : closed (h ++ [{| owned := false; kids := [] |}])).
    { apply closed_ext; auto. intros o [<-|[]] k []. }
    apply inv_upd; [apply inv_ext; auto|].
    intros r Hr. inversion Hr; subst r. split; [rewrite app_length; simpl; lia|].
    apply clean_new; auto. intros k [].
  - (* deep copy *)
    split; [|constructor].
    destruct H as (fr & -> & Hf).
    assert (Hc' : closed (h ++ fr)).
    { intros l o Hn k Hk. destruct (Nat.lt_ge_cases l (List.length h)) as [Hlt|Hge].
      - rewrite nth_error_app1 in Hn by auto. rewrite app_length. specialize (Hc l o Hn k Hk). lia.
      - apply (H2 l k); [split; [auto|eapply nth_error_Some_lt; eauto]|eapply reach_kid; eauto]. }
    apply inv_upd; [apply inv_ext; auto|].
    intros r' Hr. inversion Hr; subst r'. split; auto.
    intros k Hk. apply owned_ext_new; auto. apply (H2 r k); auto.
  - (* deep copy, immutable *)
    split; [|constructor]. apply inv_upd; auto. discriminate.
  - (* shallow copy *)
    split; [|constructor].
    rewrite Forall_forall in H.
    assert (Hc' : closed (h ++ [{| owned := false; kids := ks |}])).
    { apply closed_ext; auto. intros o [<-|[]] k Hk. simpl in Hk. rewrite app_length.
      pose proof (from_vars_in _ _ _ _ _ Hinv (H k Hk)). lia. }
    apply inv_upd; [apply inv_ext; auto|].
    intros r Hr. inversion Hr; subst r. split; [rewrite app_length; simpl; lia|].
    destruct (all_deep a ys) eqn:Had; simpl.
    + apply clean_new; auto. intros k Hk. split.
      * eapply from_vars_in; eauto.
      * eapply from_vars_clean; eauto. intros y Hy. eapply all_deep_spec; eauto.
    + unfold owned_at. rewrite nth_error_app2 by lia. rewrite Nat.sub_diag. reflexivity.
  - (* alias *)
    split; [|constructor]. apply inv_upd; auto.
    intros r Hr. inversion Hr; subst r. split; [eapply from_vars_in; eauto|].
    destruct (alias_all_cases a ys) as [E|E]; rewrite E; simpl; auto.
    eapply from_vars_clean; eauto. intros y Hy. eapply alias_all_deep; eauto.
  - (* alias, immutable *)
    split; [|constructor]. apply inv_upd; auto. discriminate.
  - (* copy of a variable: the same object, the same level *)
    split; [|constructor]. apply inv_upd; auto.
    intros r Hr. subst v. exact (Hvars y r H).
  - (* store *)
    destruct (Hvars x r H) as [Hr Hsx].
    assert (Hl : owned_at h l = false).
    { destruct (aget x a) eqn:Ex; simpl in Hsx; try discriminate.
      - apply Hsx. destruct top; [subst; apply reach_refl|auto].
      - subst top. subst l. auto. }
    set (h1 := set_nth h l {| owned := owned o; kids := ks |}).
    assert (Hown : forall m, owned_at h1 m = owned_at h m) by (intros; apply owned_at_set_nth; auto).
    assert (Hlen : List.length h1 = List.length h) by apply set_nth_length.
    rewrite Forall_forall in H2.
    assert (Hc' : closed h1).
    { intros m o' Hn k Hk. rewrite Hlen. destruct (Nat.eq_dec l m) as [<-|Hne].
      - unfold h1 in Hn. rewrite nth_error_set_nth_eq in Hn by (eapply nth_error_Some_lt; eauto).
        inversion Hn; subst o'. simpl in Hk. destruct (H2 k Hk) as [Hold|Hnew].
        + eapply Hc; eauto.
        + eapply from_vars_in; eauto.
      - unfold h1 in Hn. rewrite nth_error_set_nth_neq in Hn by auto. eapply Hc; eauto. }
    split; [|constructor; [rewrite Hown; auto|constructor]].
    split; auto. intros y r' Hy. destruct (Hvars y r' Hy) as [Hlt Hs]. split; [lia|].
    destruct (all_deep a ys) eqn:Had.
    + destruct (aget y a); simpl in *; auto.
      * apply clean_store; auto. intros k Hk. destruct (H2 k Hk) as [?|Hfv]; auto. right.
        eapply from_vars_clean; eauto. intros z Hz. eapply all_deep_spec; eauto.
      * rewrite Hown; auto.
    + assert (Hweak : forall L, L <> Deep -> sat L h r' -> sat L h1 r').
      { intros [] HL HsL; simpl in *; auto; [congruence|rewrite Hown; auto]. }
      destruct (String.eqb_spec x y) as [->|Hne].
      * rewrite aget_aset_eq. apply Hweak; [destruct (aget y a); discriminate|].
        eapply sat_mono; [apply lvl_le_join_l|eauto].
      * rewrite aget_aset_neq by auto. rewrite aget_degrade.
        apply Hweak; [destruct (aget y a); discriminate|].
        eapply sat_mono; [|eauto]. destruct (aget y a); reflexivity.
  - (* store into an immutable value: nothing happens *)
    split; [|constructor]. destruct (all_deep a ys); auto.
    eapply inv_mono; eauto. apply store_ext.
Qed.

(* ------------------------------------------------------------------------------------------ *)
(* 2. blocks                                                                                   *)

Definition lvl_same (p q : lvl) : bool :=
  match p, q with Deep, Deep | Shal, Shal | Ext, Ext => true | _, _ => false end.
Lemma lvl_same_eq : forall p q, lvl_same p q = true -> p = q.
Proof. destruct p, q; simpl; congruence. Qed.

Lemma aget_notin : forall x a, ~ In x (map fst a) -> aget x a = Ext.
Proof.
  intros x a. induction a as [|[y m] a IH]; simpl; intros Hn; [reflexivity|].
  destruct (String.eqb_spec x y) as [->|Hne]; [exfalso; auto|]. apply IH. auto.
Qed.
Lemma aenv_half : forall a b,
  forallb (fun yl => lvl_same (aget (fst yl) b) (snd yl)) a = true ->
  forall x, In x (map fst a) -> aget x b = aget x a.
Proof.
  intros a b. induction a as [|[y m] a IH]; simpl; intros H x Hin; [contradiction|].
  apply andb_prop in H. destruct H as [H1 H2].
  destruct (String.eqb_spec x y) as [->|Hne].
  - apply lvl_same_eq; auto.
  - apply IH; auto. destruct Hin; [congruence|auto].
Qed.
Lemma aenv_eqb_sound : forall a b, aenv_eqb a b = true -> forall x, aget x a = aget x b.
Proof.
  intros a b H x. unfold aenv_eqb in H. apply andb_prop in H. destruct H as [H1 H2].
  change (forallb (fun yl => lvl_same (aget (fst yl) b) (snd yl)) a = true) in H1.
  change (forallb (fun yl => lvl_same (aget (fst yl) a) (snd yl)) b = true) in H2.
  destruct (in_dec string_dec x (map fst a)) as [Ha|Ha].
  - symmetry. apply aenv_half; auto.
  - destruct (in_dec string_dec x (map fst b)) as [Hb|Hb].
    + apply aenv_half; auto.
    + rewrite !aget_notin; auto.
Qed.

(* an accepted block ends in a fixpoint of a successful pass over its operations *)
Lemma ablock_fix : forall n a os a',
  ablock n a os = (a', true) ->
  exists e, aenv_le a e /\ arun_weak e os = (a', true) /\ aenv_le a' e.
Proof.
  induction n as [|n IH]; simpl; intros a os a' H; [discriminate|].
  destruct (arun_weak a os) as [e1 ok] eqn:E1.
  destruct (aenv_eqb e1 a) eqn:Eq.
  - inversion H; subst. exists a. split; [apply aenv_le_refl|]. split; auto.
    intros x. rewrite (aenv_eqb_sound _ _ Eq x). apply lvl_le_refl.
  - destruct (ablock n e1 os) as [e2 ok2] eqn:E2. inversion H; subst.
    apply andb_prop in H2. destruct H2 as [-> ->].
    destruct (IH _ _ _ E2) as (e & Hle & Hrun & Hback).
    exists e. split; auto. eapply aenv_le_trans; [eapply arun_weak_ext; eauto|auto].
Qed.

(* in a successful pass that ends below where it started, every operation runs from, and ends in,
   an environment equivalent to the starting one *)
Lemma pass_steps : forall os e e1 e',
  arun_weak e1 os = (e', true) -> aenv_le e e1 -> aenv_le e' e ->
  forall o, In o os -> exists ei ei', astep false ei o = (ei', true) /\ aenv_le e ei /\ aenv_le ei' e.
Proof.
  induction os as [|o os IH]; simpl; intros e e1 e' H Hle Hback o' Hin; [contradiction|].
  destruct (astep false e1 o) as [e2 ok1] eqn:E1. destruct (arun_weak e2 os) as [e3 ok2] eqn:E2.
  inversion H; subst. apply andb_prop in H2. destruct H2 as [-> ->].
  destruct Hin as [<-|Hin].
  - exists e1, e2. split; auto. split; auto.
    eapply aenv_le_trans; [eapply arun_weak_ext; eauto|auto].
  - eapply IH; eauto. eapply aenv_le_trans; [eauto|eapply astep_weak_ext; eauto].
Qed.

Lemma cblock_sound : forall os e h s h2 s2 w,
  (forall o, In o os -> exists ei ei', astep false ei o = (ei', true) /\ aenv_le e ei /\ aenv_le ei' e) ->
  cblock os h s h2 s2 w -> inv e h s -> inv e h2 s2 /\ unowned_writes h2 w.
Proof.
  intros os e h s h2 s2 w Hops Hb. induction Hb as [|h s o h1 s1 w1 h2 s2 w2 Hin Hstep Hb IH]; intros Hinv.
  - split; [auto|constructor].
  - destruct (Hops o Hin) as (ei & ei' & Hs & Hle & Hback).
    destruct (astep_sound false ei o ei' h s h1 s1 w1) as [Hinv1 Hw1]; auto.
    { eapply inv_mono; eauto. }
    destruct IH as [Hinv2 Hw2]; [eapply inv_mono; eauto|].
    split; auto. apply Forall_app. split; auto.
    eapply Forall_impl; [|exact Hw1]. intros l Hl. eapply cblock_owned_fwd; eauto.
Qed.

Lemma ablock_sound : forall n a os a' h s h2 s2 w,
  ablock n a os = (a', true) -> inv a h s -> cblock os h s h2 s2 w ->
  inv a' h2 s2 /\ unowned_writes h2 w.
Proof.
  intros n a os a' h s h2 s2 w Hab Hinv Hb.
  destruct (ablock_fix _ _ _ _ Hab) as (e & Hle & Hrun & Hback).
  destruct (cblock_sound os e h s h2 s2 w) as [Hinv2 Hw]; auto.
  - eapply pass_steps; eauto. apply aenv_le_refl.
  - eapply inv_mono; eauto.
  - split; auto. eapply inv_mono; eauto. eapply arun_weak_ext; eauto.
Qed.

(* ------------------------------------------------------------------------------------------ *)
(* 3. whole bodies                                                                             *)

Lemma arun_sound : forall p a a' h e h' e' w,
  arun a p = (a', true) -> inv a h e -> crun p h e h' e' w ->
  inv a' h' e' /\ unowned_writes h' w.
Proof.
  intros p a a' h e h' e' w Ha Hinv Hr. revert a a' Ha Hinv.
  induction Hr as [h e|o r h e h1 e1 w1 h2 e2 w2 Hstep Hr IH|os r h e h1 e1 w1 h2 e2 w2 Hb Hr IH];
    intros a a' Ha Hinv; cbn [arun] in Ha.
  - inversion Ha; subst. split; [auto|constructor].
  - destruct (astep true a o) as [a1 ok1] eqn:E1. destruct (arun a1 r) as [a2 ok2] eqn:E2.
    inversion Ha; subst. apply andb_prop in H1. destruct H1 as [-> ->].
    destruct (astep_sound true a o a1 h e h1 e1 w1) as [Hinv1 Hw1]; auto.
    destruct (IH _ _ E2 Hinv1) as [Hinv2 Hw2].
    split; auto. apply Forall_app. split; auto.
    eapply Forall_impl; [|exact Hw1]. intros l Hl. eapply crun_owned_fwd; eauto.
  - match type of Ha with context [ablock ?n a os] =>
      destruct (ablock n a os) as [a1 ok1] eqn:E1 end.
    destruct (arun a1 r) as [a2 ok2] eqn:E2.
    inversion Ha; subst. apply andb_prop in H1. destruct H1 as [-> ->].
    destruct (ablock_sound _ _ _ _ _ _ _ _ _ E1 Hinv Hb) as [Hinv1 Hw1].
    destruct (IH _ _ E2 Hinv1) as [Hinv2 Hw2].
    split; auto. apply Forall_app. split; auto.
    eapply Forall_impl; [|exact Hw1]. intros l Hl. eapply crun_owned_fwd; eauto.
Qed.

(* ------------------------------------------------------------------------------------------ *)
(* 4. soundness                                                                                *)

Lemma aget_all_ext : forall x ps, aget x (map (fun p => (p, Ext)) ps) = Ext.
Proof. intros x ps. induction ps as [|p ps IH]; simpl; auto. destruct (String.eqb x p); auto. Qed.

(* SOUNDNESS for the corrected semantics.  Only two hypotheses on the initial state are needed:
   bound locations lie inside the heap and the heap is closed. *)
Theorem safe_sound : forall f h e0 h' e' w,
  safe f = true ->
  (forall x v, cget x e0 = Some (Some v) -> v < List.length h) ->
  (forall l o, nth_error h l = Some o -> forall k, In k (kids o) -> k < List.length h) ->
  crun (af_body f) h e0 h' e' w ->
  Forall (fun l => owned_at h' l = false) w.
Proof.
  intros f h e0 h' e' w Hsafe Hb Hc Hr. unfold safe in Hsafe.
  destruct (arun (map (fun p => (p, Ext)) (af_params f)) (af_body f)) as [a' ok] eqn:E.
  simpl in Hsafe. subst ok.
  eapply arun_sound; eauto.
  split; [exact Hc|]. intros x r Hx. split; [eauto|]. rewrite aget_all_ext. exact I.
Qed.

(* the statement with all the hypotheses of the task (two of them are not needed) *)
Corollary safe_sound_full : forall f h e0 h' e' w,
  safe f = true ->
  (forall x, In x (af_params f) -> exists v, cget x e0 = Some v) ->
  (forall x v, cget x e0 = Some (Some v) -> v < List.length h) ->
  (forall x, ~ In x (af_params f) -> cget x e0 = None) ->
  (forall l o, nth_error h l = Some o -> forall k, In k (kids o) -> k < List.length h) ->
  crun (af_body f) h e0 h' e' w ->
  Forall (fun l => owned_at h' l = false) w.
Proof. intros. eapply safe_sound; eauto. Qed.

(* in terms of [params_bound] of Taint.v *)
Corollary safe_sound_params_bound : forall f h e0 h' e' w,
  safe f = true -> params_bound f e0 h -> closed h ->
  crun (af_body f) h e0 h' e' w -> Forall (fun l => owned_at h' l = false) w.
Proof. intros. eapply safe_sound; eauto. Qed.


(* the same under an assumption on the parameters (summaries): the initial state must satisfy it *)
Theorem safe_s_sound : forall s h e0 h' e' w,
  safe_s s = true ->
  inv (senv s) h e0 ->
  crun (af_body (sf_fun s)) h e0 h' e' w ->
  Forall (fun l => owned_at h' l = false) w.
Proof.
  intros s h e0 h' e' w Hsafe Hinv Hr. unfold safe_s in Hsafe.
  destruct (arun (senv s) (af_body (sf_fun s))) as [a' ok] eqn:E. simpl in Hsafe. subst ok.
  exact (proj2 (arun_sound _ _ _ _ _ _ _ _ E Hinv Hr)).
Qed.

(* spelled out: a closed heap; every bound variable lies in the heap; a parameter assumed [Deep] reaches
   nothing owned by the caller, one assumed [Shal] is itself not owned; nothing is assumed of the others *)
Corollary safe_s_sound_spelled : forall s h e0 h' e' w,
  safe_s s = true ->
  (forall l o, nth_error h l = Some o -> forall k, In k (kids o) -> k < List.length h) ->
  (forall x r, cget x e0 = Some (Some r) ->
     r < List.length h /\
     (aget x (senv s) = Deep -> forall k, reach h r k -> owned_at h k = false) /\
     (aget x (senv s) = Shal -> owned_at h r = false)) ->
  crun (af_body (sf_fun s)) h e0 h' e' w ->
  Forall (fun l => owned_at h' l = false) w.
Proof.
  intros s h e0 h' e' w Hs Hc Hb Hr. eapply safe_s_sound; eauto.
  apply inv_spelled. split; [exact Hc|exact Hb].
Qed.
Print Assumptions safe_s_sound_spelled.

Print Assumptions safe_sound_full.
Print Assumptions safe_sound.
