(* C10 (rule specs) for rules whose condition has data paths NESTED one level inside a list / mapping argument of a
   one-parameter callable:

       Rule.from_spec({"path": ["xs", {"type": "list_value"}],
                       "condition": {"value.in": [{"path": ["a", 0]}, 1]},
                       "cast": {"str": "int"}, "doc": "..."})
         ==  Rule(DataPath("xs", ListValue()), Value.in_([DataPath("a", 0), 1]), cast={str: int})

   Model: NestedRuleIO.rule_n_from_spec (copy of SpecIO.rule_from_spec with NestedIO.condn_from_spec for the condition; it
   returns the BUILT rule_n), NestedArgs.mk_rule_n (the API), NestedRuleIO.rule_n_eqb (==), NestedArgs.rule_test_n.
   Entry point for a harness: RunNestedRule.run_rule_n_spec.

   The fields path / doc / cast are read by the very code of the arg1 instance (py_iter, from_part_specs, norm_doc,
   parse_casts), so the lemmas of C10RuleProof about them (doc shapes, cast shapes, simple_specs_parse, api_path_builds)
   apply as they are; the condition field is C09NestedProof.C09N_tree (C09N_tree_full_gen for mixed trees).

   Contents
   1. C10N_rule_fields (unfolding equation), C10N_rule_other_entries_ignored / C10N_rule_extra_entry,
      C10N_rule_error_order (which field's error is reported first), C10N_rule_not_a_mapping,
      C10N_fields_as_arg1 (path / doc / cast: what the arg1 instance reads).
   2. C10N_rule_spec_gen (any path spec that parses to a term building the API's path object),
      C10N_rule_spec (simple parts, as C10_rule_builds_api_rule), C10N_rule_spec_prims (primitive parts, cast names),
      C10N_rule_spec_roundtrips (any path term that round-trips, written by to_json_like).
   3. C10N_rule_spec_full (MIXED trees: nested leaves next to literal / data-path leaves, fragment of C09N_tree_full).
   4. C10N_run_rule_spec / C10N_run_rule_spec_full: the harness entry point returns True.
   5. examples by computation, outside the fragment.

   As in C09N / C13N the rule parsed is given EXACTLY: it is [rule_n_back nas t r], the API-built rule r in which every
   nested data path is the path term from_spec reads back from the path's spec and a display without data paths is the
   literal container; it is == to r and tests every document exactly as r does. *)
From Coq Require Import ZArith NArith List Bool String Ascii Lia.
From Valida Require Import Py Lang Defs Cond Dsl Check DocSem Path PathSpec Cast Str SpecDefs RuleDefs RuleTerms
  Spec SpecIO SpecSpell Eq Inst RunSpec Rule NestedArgs NestedIO NestedRuleIO NestedSpell RunNestedRule.
From Valida.Proofs Require Import PyFacts Tie C01Proof C02Proof RuleProof C09Proof C10Proof C11Proof C11EscProof C12Proof C14Proof
  C13Proof C13Glue C11PathProof C13PathProof C11NestedProof C13NestedProof C11NestedFullProof C17NestedProof
  C10RuleProof C09NestedProof.
From Valida Require Import Rule SpecSpell NestedIO NestedRuleIO NestedSpell RunNestedRule.
Import ListNotations.
Local Open Scope string_scope.
Local Open Scope list_scope.

(* ================================================================== *)
(* 1. Rule.from_spec over narg: the four entries and the order of their errors *)

(* the unfolding equation: only the entries "path", "condition", "doc", "cast" are read; they are evaluated in the order
   path (iterated, parsed as part specs, the DataPath object built), condition, doc, cast *)
Theorem C10N_rule_fields : forall d pv c,
  dict_look (VStr "path") d = Some pv -> dict_look (VStr "condition") d = Some c ->
  rule_n_from_spec (VDict d) =
  let* parts := py_iter pv in
  let* pt := from_part_specs T X parts in
  let* p := mk_path T idlit pt in
  let* (_, cn) := condn_from_spec c in
  let* doc := norm_doc (dict_look (VStr "doc") d) in
  let* (casts, given) := parse_casts X (dict_look (VStr "cast") d) in
  Ok ({| rn_path := p; rn_cond := cn; rn_cast := casts |}, {| rx_doc := doc; rx_cast_given := given |}).
Proof.
  intros d pv c Hp Hc. unfold rule_n_from_spec, get_item, get_opt. rewrite Hp, Hc. reflexivity.
Qed.

Corollary C10N_rule_fields_list : forall d parts c,
  dict_look (VStr "path") d = Some (VList parts) -> dict_look (VStr "condition") d = Some c ->
  rule_n_from_spec (VDict d) =
  let* pt := from_part_specs T X parts in
  let* p := mk_path T idlit pt in
  let* (_, cn) := condn_from_spec c in
  let* doc := norm_doc (dict_look (VStr "doc") d) in
  let* (casts, given) := parse_casts X (dict_look (VStr "cast") d) in
  Ok ({| rn_path := p; rn_cond := cn; rn_cast := casts |}, {| rx_doc := doc; rx_cast_given := given |}).
Proof. intros d parts c Hp Hc. rewrite (C10N_rule_fields d _ c Hp Hc). reflexivity. Qed.

(* entries other than these four are ignored *)
Theorem C10N_rule_other_entries_ignored : forall d d',
  (forall k, In k rule_keys -> dict_look (VStr k) d = dict_look (VStr k) d') ->
  rule_n_from_spec (VDict d) = rule_n_from_spec (VDict d').
Proof.
  intros d d' H. unfold rule_n_from_spec, get_item, get_opt.
  rewrite (H "path"), (H "condition"), (H "doc"), (H "cast") by (cbn; auto 6). reflexivity.
Qed.

Corollary C10N_rule_extra_entry : forall d k v, ~ In k rule_keys ->
  rule_n_from_spec (VDict (d ++ [(VStr k, v)])) = rule_n_from_spec (VDict d).
Proof.
  intros d k v Hk. apply C10N_rule_other_entries_ignored. intros k' Hk'. rewrite dict_look_app.
  destruct (dict_look (VStr k') d); [reflexivity|]. rewrite dict_look_cons. cbn [py_eq num_of].
  destruct (String.eqb_spec k' k) as [->|_]; [contradiction|reflexivity].
Qed.

(* which error wins: the first failing step in the order
   spec["path"] -> iteration -> part specs -> DataPath(...) -> spec["condition"] -> condition -> doc -> cast *)
Theorem C10N_rule_error_order : forall d,
  match dict_look (VStr "path") d with
  | None => rule_n_from_spec (VDict d) = Err KeyError
  | Some pv =>
    match py_iter pv with
    | Err e => rule_n_from_spec (VDict d) = Err e
    | Ok parts =>
      match from_part_specs T X parts with
      | Err e => rule_n_from_spec (VDict d) = Err e
      | Ok pt =>
        match mk_path T idlit pt with
        | Err e => rule_n_from_spec (VDict d) = Err e
        | Ok p =>
          match dict_look (VStr "condition") d with
          | None => rule_n_from_spec (VDict d) = Err KeyError
          | Some c =>
            match condn_from_spec c with
            | Err e => rule_n_from_spec (VDict d) = Err e
            | Ok (_, cn) =>
              match norm_doc (dict_look (VStr "doc") d) with
              | Err e => rule_n_from_spec (VDict d) = Err e
              | Ok doc =>
                match parse_casts X (dict_look (VStr "cast") d) with
                | Err e => rule_n_from_spec (VDict d) = Err e
                | Ok (casts, given) =>
                    rule_n_from_spec (VDict d) =
                    Ok ({| rn_path := p; rn_cond := cn; rn_cast := casts |}, {| rx_doc := doc; rx_cast_given := given |})
                end
              end
            end
          end
        end
      end
    end
  end.
Proof.
  intros d. unfold rule_n_from_spec, get_item, get_opt. change Rule.id0 with idlit.
  destruct (dict_look (VStr "path") d) as [pv|]; [|reflexivity]. cbn [bind].
  destruct (py_iter pv) as [parts|e]; [|reflexivity]. cbn [bind].
  destruct (from_part_specs T X parts) as [pt|e]; [|reflexivity]. cbn [bind].
  destruct (mk_path T idlit pt) as [p|e]; [|reflexivity]. cbn [bind].
  destruct (dict_look (VStr "condition") d) as [c|]; [|reflexivity]. cbn [bind].
  destruct (condn_from_spec c) as [[ct cn]|e]; [|reflexivity]. cbn [bind].
  destruct (norm_doc (dict_look (VStr "doc") d)) as [doc|e]; [|reflexivity]. cbn [bind].
  destruct (parse_casts X (dict_look (VStr "cast") d)) as [[casts given]|e]; reflexivity.
Qed.

(* a spec that is not a mapping *)
Theorem C10N_rule_not_a_mapping : forall v, (forall d, v <> VDict d) -> rule_n_from_spec v = Err TypeError.
Proof. intros v H. destruct v; try reflexivity. contradiction (H d). reflexivity. Qed.

(* the fields path / cast / doc are those the arg1 instance (SpecIO.rule_from_spec, property C10 on literal / data-path
   arguments) reads: whenever both parsers accept a mapping, the path object is the one the arg1 rule term builds, the
   casts, the normalised doc and the cast-given flag are the same.  (from_part_specs has built the path once already, so
   the DataPath(...) step of rule_n_from_spec cannot fail: C10N_path_step_total.) *)
Theorem C10N_fields_as_arg1 : forall d rt ex r' ex',
  rule_from_spec T X (VDict d) = Ok (rt, ex) -> rule_n_from_spec (VDict d) = Ok (r', ex') ->
  mk_path T idlit (rt_path_t rt) = Ok (rn_path r') /\ rn_cast r' = rt_cast_t rt /\ ex' = ex.
Proof.
  intros d rt ex r' ex' H1 H2. unfold rule_from_spec, rule_n_from_spec in *. change Rule.id0 with idlit in H2.
  destruct (get_item (VDict d) "path") as [pv|e]; [|discriminate H1]. cbn [bind] in H1, H2.
  destruct (py_iter pv) as [parts|e]; [|discriminate H1]. cbn [bind] in H1, H2.
  destruct (from_part_specs T X parts) as [pt|e]; [|discriminate H1]. cbn [bind] in H1, H2.
  destruct (mk_path T idlit pt) as [p|e] eqn:Ep; [|discriminate H2]. cbn [bind] in H1, H2.
  destruct (get_item (VDict d) "condition") as [c|e]; [|discriminate H1]. cbn [bind] in H1, H2.
  destruct (cond1_from_spec T X c) as [[ct cc]|e]; [|discriminate H1]. cbn [bind] in H1.
  destruct (condn_from_spec c) as [[tn cn]|e]; [|discriminate H2]. cbn [bind] in H2.
  destruct (norm_doc (get_opt (VDict d) "doc")) as [doc|e]; [|discriminate H1]. cbn [bind] in H1, H2.
  destruct (parse_casts X (get_opt (VDict d) "cast")) as [[casts given]|e]; [|discriminate H1]. cbn [bind] in H1, H2.
  injection H1 as <- <-. injection H2 as <- <-. cbn [rt_path_t rt_cast_t rn_path rn_cast]. repeat split. exact Ep.
Qed.

(* the DataPath(...) step cannot fail: from_part_specs has built the path once already *)
Lemma C10N_path_step_total parts pt : from_part_specs T X parts = Ok pt -> exists p, mk_path T idlit pt = Ok p.
Proof.
  unfold from_part_specs, path_from_part_specs. intros H. apply bind_ok in H as [ps [_ H]].
  change Spec.id0 with idlit in H.
  destruct (mk_path T idlit {| pt_parts := ps; pt_mods := []; pt_src := None |}) as [p|e] eqn:E; [|discriminate H].
  cbn [bind] in H. injection H as <-. exists p. exact E.
Qed.

(* ================================================================== *)
(* 2. the parsed rule is the rule the API builds                        *)

(* General form.  The path entry: ANY value that iterates to part specs parsing to a term pt' which builds the path
   object p of the API's path term pt; the condition entry: the spec (NestedSpell.ntree_spec) of a tree of the fragment
   C11NestedProof.tree_in_c11n over the nargs nas; doc / cast: anything norm_doc / parse_casts accept (C10RuleProof
   sections 1, 2).  The spec is ANY mapping holding these entries, in any order, next to any other entries.
   Then from_spec returns exactly r' = rule_n_back nas t r where r is the rule the API call
       Rule(<pt>, <t with the nargs in place>, cast=casts)
   builds; r' == r (under the side conditions of the reflexivity of == on the path and the casts) and r' tests every
   document exactly as r does. *)
Theorem C10N_rule_spec_gen : forall d pv parts pt' pt p nas t casts g doc,
  dict_look (VStr "path") d = Some pv -> py_iter pv = Ok parts ->
  from_part_specs T X parts = Ok pt' -> mk_path T idlit pt' = Ok p -> mk_path T idlit pt = Ok p ->
  tree_in_c11n nas t ->
  dict_look (VStr "condition") d = Some (ntree_spec nas t) ->
  norm_doc (dict_look (VStr "doc") d) = Ok doc ->
  parse_casts X (dict_look (VStr "cast") d) = Ok (casts, g) ->
  let r := c13n_rule p nas t casts in
  let r' := rule_n_back nas t r in
  rule_n_from_spec (VDict d) = Ok (r', {| rx_doc := doc; rx_cast_given := g |}) /\
  mk_rule_n (c13n_term pt nas t casts) = Ok r /\
  (path_eqb p p = true -> casts_wf casts -> rule_n_eqb r' r g g = true) /\
  (forall data copy, rule_test_n r' data copy = rule_test_n r data copy).
Proof.
  intros d pv parts pt' pt p nas t casts g doc Hp Hit Hps Hmk' Hmk Ht Hc Hdoc Hcast r r'.
  destruct (C09N_tree nas t Ht) as [tm [Hparse [Hbuild Heq]]].
  split; [|split; [|split]].
  - rewrite (C10N_rule_fields d _ _ Hp Hc), Hit. cbn [bind]. rewrite Hps. cbn [bind]. rewrite Hmk'. cbn [bind].
    rewrite Hparse. cbn [bind]. rewrite Hdoc. cbn [bind]. rewrite Hcast. reflexivity.
  - unfold mk_rule_n, c13n_term. cbn [rtn_path rtn_cond rtn_cast]. change Rule.id0 with idlit. rewrite Hmk. cbn [bind].
    rewrite (C13N_cond_is_built nas t Ht). reflexivity.
  - intros Hpe Hcw. unfold rule_n_eqb, r', r, rule_n_back, c13n_rule. cbn [rn_path rn_cond rn_cast].
    rewrite Hpe, Heq, (casts_eqb_refl casts Hcw), Bool.eqb_reflx. reflexivity.
  - intros data copy. exact (rule_n_back_same_test nas t p casts data copy Ht).
Qed.

(* THE THEOREM in the form of C10_rule_builds_api_rule: path = primitive parts and MapValue() / ListValue() /
   MapOrListValue() without conditions (C13Proof.simple_pterm, written sp_spec).  On these paths == is reflexive, so the
   only side condition left is casts_wf (the from-types of the cast mapping are distinct: always so for a Python dict). *)
Theorem C10N_rule_spec : forall d ts nas t casts g doc,
  forallb simple_pterm ts = true -> tree_in_c11n nas t ->
  dict_look (VStr "path") d = Some (VList (map sp_spec ts)) ->
  dict_look (VStr "condition") d = Some (ntree_spec nas t) ->
  norm_doc (dict_look (VStr "doc") d) = Ok doc ->
  parse_casts X (dict_look (VStr "cast") d) = Ok (casts, g) ->
  exists p r r',
    mk_path T idlit (api_path ts) = Ok p /\
    r = c13n_rule p nas t casts /\ r' = rule_n_back nas t r /\
    rule_n_from_spec (VDict d) = Ok (r', {| rx_doc := doc; rx_cast_given := g |}) /\
    mk_rule_n (c13n_term (api_path ts) nas t casts) = Ok r /\
    (casts_wf casts -> rule_n_eqb r' r g g = true) /\
    (forall data copy, rule_test_n r' data copy = rule_test_n r data copy).
Proof.
  intros d ts nas t casts g doc Hts Ht Hp Hc Hdoc Hcast.
  destruct (api_path_builds ts Hts) as [Hb1 Hb2].
  destruct (C10N_rule_spec_gen d _ _ _ _ _ nas t casts g doc Hp eq_refl (simple_specs_parse ts Hts) Hb2 Hb1 Ht Hc Hdoc Hcast)
    as [H1 [H2 [H3 H4]]].
  eexists. eexists. eexists. split; [exact Hb1|]. split; [reflexivity|]. split; [reflexivity|].
  split; [exact H1|]. split; [exact H2|]. split; [|exact H4].
  apply H3. apply (simple_path_eqb_refl (api_path ts)); [|exact Hb1].
  unfold simple_path, api_path. cbn [pt_parts pt_mods pt_src]. rewrite Hts. reflexivity.
Qed.

(* the case of the property: primitive parts (str / int / bool / float), the cast block written with the names of the table *)
Corollary C10N_rule_spec_prims : forall d parts nas t casts doc,
  forallb prim_ok parts = true -> tree_in_c11n nas t -> casts_in_c13 casts = true ->
  dict_look (VStr "path") d = Some (VList parts) ->
  dict_look (VStr "condition") d = Some (ntree_spec nas t) ->
  dict_look (VStr "cast") d = Some (casts_json casts) ->
  norm_doc (dict_look (VStr "doc") d) = Ok doc ->
  exists p r r',
    mk_path T idlit (api_path (map PtPrim parts)) = Ok p /\
    r = c13n_rule p nas t casts /\ r' = rule_n_back nas t r /\
    rule_n_from_spec (VDict d) = Ok (r', {| rx_doc := doc; rx_cast_given := true |}) /\
    mk_rule_n (c13n_term (api_path (map PtPrim parts)) nas t casts) = Ok r /\
    (casts_wf casts -> rule_n_eqb r' r true true = true) /\
    (forall data copy, rule_test_n r' data copy = rule_test_n r data copy).
Proof.
  intros d parts nas t casts doc Hp Ht Hk Hpath Hcond Hcast Hdoc.
  destruct (prims_simple parts Hp) as [H1 [H2 _]].
  assert (Hk' : parse_casts X (dict_look (VStr "cast") d) = Ok (casts, true)).
  { rewrite Hcast. exact (proj2 (proj2 (C13_casts casts Hk))). }
  rewrite <- H2 in Hpath.
  exact (C10N_rule_spec d (map PtPrim parts) nas t casts true doc H1 Ht Hpath Hcond Hdoc Hk').
Qed.

(* at most one cast (the table has str -> int and str -> bool only, and the keys of a Python dict are distinct): casts_wf *)
Lemma casts_wf_short casts : (List.length casts <= 1)%nat -> casts_wf casts.
Proof.
  unfold casts_wf. destruct casts as [|c [|c2 r]]; cbn [List.length map]; intros H.
  - constructor.
  - constructor; [intros []|constructor].
  - lia.
Qed.

(* ANY path term that round-trips (C13Proof.path_roundtrips: e.g. the C12 fragment, conditions inside parts included),
   the path entry being what DataPath.to_json_like() writes for it *)
Theorem C10N_rule_spec_roundtrips : forall d pt p pv nas t casts g doc,
  path_roundtrips pt -> mk_path T idlit pt = Ok p -> path_to_part_specs T X p = Ok pv ->
  tree_in_c11n nas t ->
  dict_look (VStr "path") d = Some pv ->
  dict_look (VStr "condition") d = Some (ntree_spec nas t) ->
  norm_doc (dict_look (VStr "doc") d) = Ok doc ->
  parse_casts X (dict_look (VStr "cast") d) = Ok (casts, g) ->
  let r := c13n_rule p nas t casts in
  let r' := rule_n_back nas t r in
  rule_n_from_spec (VDict d) = Ok (r', {| rx_doc := doc; rx_cast_given := g |}) /\
  mk_rule_n (c13n_term pt nas t casts) = Ok r /\
  (path_eqb p p = true -> casts_wf casts -> rule_n_eqb r' r g g = true) /\
  (forall data copy, rule_test_n r' data copy = rule_test_n r data copy).
Proof.
  intros d pt p pv nas t casts g doc Hrt Hmk Hpv Ht Hp Hc Hdoc Hcast.
  destruct (Hrt p Hmk) as [specs [t' [Hps [_ [Hfs Hmk']]]]].
  rewrite Hps in Hpv. injection Hpv as <-.
  exact (C10N_rule_spec_gen d (VList specs) specs t' pt p nas t casts g doc Hp eq_refl Hfs Hmk' Hmk Ht Hc Hdoc Hcast).
Qed.

(* ================================================================== *)
(* 3. MIXED trees: nested leaves next to literal / data-path leaves     *)

(* The fragment of C09N_tree_full / C11NestedFullProof: placeholder list nas = embp pts ++ ns (first the data paths pts,
   then the nargs ns); a leaf is a nested leaf (leaf_in_c11n) or a leaf of C11PathProof over pts (leaf_in_c11p: literal
   leaves with any callable shape, several-parameter / *args / **kwargs callables with data-path or literal arguments);
   the condition entry is C09NestedProof.ntree_spec_full pts ns t. *)

(* the arguments read back resolve alike against every document *)
Lemma resolve_subn_back_full pts ns t data v :
  Forall path_good pts ->
  Forall (fun cq => leaf_in_c11n_full pts ns (fst cq) (snd cq)) (qleaves t) ->
  In v (cvals pyval (cond_of (qnorm t))) ->
  resolve_n (Some data) (subn (backs_n (embp pts ++ ns)) v) = resolve_n (Some data) (subn (embp pts ++ ns) v).
Proof.
  intros Hg Hl Hv. destruct (cvals_cond_of _ v Hv) as [c [q [Hin Hq]]]. rewrite qleaves_qnorm in Hin.
  rewrite Forall_forall in Hl. destruct (Hl (c, q) Hin) as [H|H]; cbn [fst snd] in H.
  - destruct H as [_ [_ [k [n [Hf [Hk Hn]]]]]].
    rewrite q_args_form, Hf in Hq. cbn [form_args] in Hq. destruct Hq as [<-|[]].
    rewrite (subn_backs _ k n Hk), (subn_at _ k n Hk). exact (resolve_n_back data n (narg_ok_paths_good n Hn)).
  - pose proof (c11p_args_ok pts c q H) as Ha. rewrite forallb_forall in Ha. specialize (Ha v Hq).
    rewrite backs_n_emb, (subn_emb pts ns v Ha).
    assert (Ha' : argv_ok (List.length (backs pts)) v = true) by (rewrite backs_length; exact Ha).
    rewrite (subn_emb (backs pts) (backs_n ns) v Ha'). cbn [resolve_n].
    exact (resolve1_sub_back pts data v Hg).
Qed.

Theorem C10N_rule_spec_full_gen : forall d pv parts pt' pt p pts ns t casts g doc,
  dict_look (VStr "path") d = Some pv -> py_iter pv = Ok parts ->
  from_part_specs T X parts = Ok pt' -> mk_path T idlit pt' = Ok p -> mk_path T idlit pt = Ok p ->
  Forall path_good pts ->
  Forall (fun cq => leaf_in_c11n_full pts ns (fst cq) (snd cq)) (qleaves t) -> tree_depth t <= 40 ->
  qmixed (qnorm t) = false ->
  dict_look (VStr "condition") d = Some (ntree_spec_full pts ns t) ->
  norm_doc (dict_look (VStr "doc") d) = Ok doc ->
  parse_casts X (dict_look (VStr "cast") d) = Ok (casts, g) ->
  let nas := embp pts ++ ns in
  let r := c13n_rule p nas t casts in
  let r' := rule_n_back nas t r in
  rule_n_from_spec (VDict d) = Ok (r', {| rx_doc := doc; rx_cast_given := g |}) /\
  mk_rule_n (c13n_term pt nas t casts) = Ok r /\
  (path_eqb p p = true -> casts_wf casts -> rule_n_eqb r' r g g = true) /\
  (forall data copy, rule_test_n r' data copy = rule_test_n r data copy).
Proof.
  intros d pv parts pt' pt p pts ns t casts g doc Hp Hit Hps Hmk' Hmk Hg Hl Hd Hm Hc Hdoc Hcast nas r r'.
  pose proof (C09N_tree_full_gen pts ns t Hg Hl Hd) as H. cbv zeta in H. rewrite Hm in H. fold nas in H.
  destruct H as [tm [Hparse [Hbuild Heq]]].
  split; [|split; [|split]].
  - rewrite (C10N_rule_fields d _ _ Hp Hc), Hit. cbn [bind]. rewrite Hps. cbn [bind]. rewrite Hmk'. cbn [bind].
    rewrite Hparse. cbn [bind]. rewrite Hdoc. cbn [bind]. rewrite Hcast. reflexivity.
  - unfold mk_rule_n, c13n_term. cbn [rtn_path rtn_cond rtn_cast]. change Rule.id0 with idlit. rewrite Hmk. cbn [bind].
    rewrite <- ntree_term_eq, Hbuild. reflexivity.
  - intros Hpe Hcw. unfold rule_n_eqb, r', r, rule_n_back, c13n_rule. cbn [rn_path rn_cond rn_cast].
    rewrite Hpe, Heq, (casts_eqb_refl casts Hcw), Bool.eqb_reflx. reflexivity.
  - intros data copy. unfold r', r, rule_n_back, c13n_rule, condn_back, condn_of. cbn [rn_path rn_cond rn_cast].
    exact (rule_test_alike_n _ _ _ (fun d0 v Hv => resolve_subn_back_full pts ns t d0 v Hg Hl Hv) p casts data copy).
Qed.

(* simple paths, as C10N_rule_spec *)
Theorem C10N_rule_spec_full : forall d ts pts ns t casts g doc,
  forallb simple_pterm ts = true ->
  Forall path_good pts ->
  Forall (fun cq => leaf_in_c11n_full pts ns (fst cq) (snd cq)) (qleaves t) -> tree_depth t <= 40 ->
  qmixed (qnorm t) = false ->
  dict_look (VStr "path") d = Some (VList (map sp_spec ts)) ->
  dict_look (VStr "condition") d = Some (ntree_spec_full pts ns t) ->
  norm_doc (dict_look (VStr "doc") d) = Ok doc ->
  parse_casts X (dict_look (VStr "cast") d) = Ok (casts, g) ->
  let nas := embp pts ++ ns in
  exists p r r',
    mk_path T idlit (api_path ts) = Ok p /\
    r = c13n_rule p nas t casts /\ r' = rule_n_back nas t r /\
    rule_n_from_spec (VDict d) = Ok (r', {| rx_doc := doc; rx_cast_given := g |}) /\
    mk_rule_n (c13n_term (api_path ts) nas t casts) = Ok r /\
    (casts_wf casts -> rule_n_eqb r' r g g = true) /\
    (forall data copy, rule_test_n r' data copy = rule_test_n r data copy).
Proof.
  intros d ts pts ns t casts g doc Hts Hg Hl Hd Hm Hp Hc Hdoc Hcast nas.
  destruct (api_path_builds ts Hts) as [Hb1 Hb2].
  destruct (C10N_rule_spec_full_gen d _ _ _ _ _ pts ns t casts g doc Hp eq_refl (simple_specs_parse ts Hts) Hb2 Hb1
              Hg Hl Hd Hm Hc Hdoc Hcast) as [H1 [H2 [H3 H4]]].
  eexists. eexists. eexists. split; [exact Hb1|]. split; [reflexivity|]. split; [reflexivity|].
  split; [exact H1|]. split; [exact H2|]. split; [|exact H4].
  apply H3. apply (simple_path_eqb_refl (api_path ts)); [|exact Hb1].
  unfold simple_path, api_path. cbn [pt_parts pt_mods pt_src]. rewrite Hts. reflexivity.
Qed.

(* a single leaf whose key is written in ANY accepted spelling (letter case, aliases: C09NestedProof.spells), e.g.
   "value.in" / "VALUE.In" for Value.in_; n is the argument (C11NestedProof.narg_ok: a data path, a list display of data
   paths and literals, a mapping display of such values) *)
Theorem C10N_rule_spec_leaf : forall d ts c q n key ks g doc,
  forallb simple_pterm ts = true ->
  class_ok c q = true -> casts c q = false -> q_form q = FOne (VObj 0%N) -> narg_ok n -> spells key c q ->
  dict_look (VStr "path") d = Some (VList (map sp_spec ts)) ->
  dict_look (VStr "condition") d = Some (VDict [(VStr key, narg_spec n)]) ->
  norm_doc (dict_look (VStr "doc") d) = Ok doc ->
  parse_casts X (dict_look (VStr "cast") d) = Ok (ks, g) ->
  exists p r r',
    mk_path T idlit (api_path ts) = Ok p /\
    r = c13n_rule p [n] (QLeaf c q) ks /\ r' = rule_n_back [n] (QLeaf c q) r /\
    rule_n_from_spec (VDict d) = Ok (r', {| rx_doc := doc; rx_cast_given := g |}) /\
    mk_rule_n {| rtn_path := api_path ts; rtn_cond := nleaf_term c q n; rtn_cast := ks |} = Ok r /\
    (casts_wf ks -> rule_n_eqb r' r g g = true) /\
    (forall data copy, rule_test_n r' data copy = rule_test_n r data copy).
Proof.
  intros d ts c q n key ks g doc Hts Hcls Hc Hq Hn Hkey Hp Hcond Hdoc Hcast.
  destruct (api_path_builds ts Hts) as [Hb1 Hb2].
  destruct (C09N_leaf c q n key Hcls Hc Hq Hn Hkey) as [Hparse [Hbuild [_ Heq]]].
  assert (Ht : tree_in_c11n [n] (QLeaf c q)).
  { split; [|split; [cbn [tree_depth]; lia|exact (qmixed_leaf c q)]]. cbn [qleaves]. constructor; [|constructor]. cbn [fst snd].
    split; [exact Hcls|]. split; [exact Hc|]. exists 0%N, n. split; [exact Hq|]. split; [reflexivity|exact Hn]. }
  eexists. eexists. eexists. split; [exact Hb1|]. split; [reflexivity|]. split; [reflexivity|].
  split; [|split; [|split]].
  - rewrite (C10N_rule_fields_list d _ _ Hp Hcond), (simple_specs_parse ts Hts). cbn [bind]. rewrite Hb2. cbn [bind].
    rewrite Hparse. cbn [bind]. rewrite Hdoc. cbn [bind]. rewrite Hcast. reflexivity.
  - unfold mk_rule_n. cbn [rtn_path rtn_cond rtn_cast]. change Rule.id0 with idlit. rewrite Hb1. cbn [bind].
    rewrite Hbuild. reflexivity.
  - intros Hcw. unfold rule_n_eqb, rule_n_back, c13n_rule. cbn [rn_path rn_cond rn_cast].
    assert (Hpe : path_eqb (Build_dpath (map sp_part ts) (sp_conc ts) DtNone MtNone None)
                           (Build_dpath (map sp_part ts) (sp_conc ts) DtNone MtNone None) = true).
    { apply (simple_path_eqb_refl (api_path ts)); [|exact Hb1].
      unfold simple_path, api_path. cbn [pt_parts pt_mods pt_src]. rewrite Hts. reflexivity. }
    rewrite Hpe. change (condn_back [n] (QLeaf c q)) with (CLeaf (nleaf [back_n n] c q)).
    change (condn_of [n] (QLeaf c q)) with (CLeaf (nleaf [n] c q)).
    rewrite Heq, (casts_eqb_refl ks Hcw), Bool.eqb_reflx. reflexivity.
  - intros data copy. exact (rule_n_back_same_test [n] (QLeaf c q) _ ks data copy Ht).
Qed.

(* a tree mixing Key and Index conditions: TypeError on both sides (Rule.from_spec and the API expression) *)
Theorem C10N_rule_spec_mixed_kinds : forall d ts nas t ks,
  forallb simple_pterm ts = true ->
  Forall (fun cq => leaf_in_c11n nas (fst cq) (snd cq)) (qleaves t) -> tree_depth t <= 40 -> qmixed (qnorm t) = true ->
  dict_look (VStr "path") d = Some (VList (map sp_spec ts)) ->
  dict_look (VStr "condition") d = Some (ntree_spec nas t) ->
  rule_n_from_spec (VDict d) = Err TypeError /\ mk_rule_n (c13n_term (api_path ts) nas t ks) = Err TypeError.
Proof.
  intros d ts nas t ks Hts Hl Hd Hm Hp Hc.
  destruct (api_path_builds ts Hts) as [Hb1 Hb2].
  pose proof (C09N_tree_gen nas t Hl Hd) as H. rewrite Hm in H. destruct H as [Hparse Hbuild]. split.
  - rewrite (C10N_rule_fields_list d _ _ Hp Hc), (simple_specs_parse ts Hts). cbn [bind]. rewrite Hb2. cbn [bind].
    rewrite Hparse. reflexivity.
  - unfold mk_rule_n, c13n_term. cbn [rtn_path rtn_cond rtn_cast]. change Rule.id0 with idlit. rewrite Hb1. cbn [bind].
    rewrite <- ntree_term_eq, Hbuild. reflexivity.
Qed.

(* ================================================================== *)
(* 4. the harness entry point RunNestedRule.run_rule_n_spec             *)

Lemma run_rule_n_spec_true spec rt r' r ex g :
  rule_n_from_spec spec = Ok (r', ex) -> mk_rule_n rt = Ok r -> rx_cast_given ex = g -> rule_n_eqb r' r g g = true ->
  run_rule_n_spec spec rt g = Ok (VBool true).
Proof.
  intros H1 H2 H3 H4. unfold run_rule_n_spec. rewrite H1. cbn [bind]. rewrite H2. cbn [bind]. rewrite H3, H4. reflexivity.
Qed.

(* on a rule spec of the fragment, against the API term with the nargs in place and the flag "a cast mapping was given"
   equal to the one from_spec reports (g = true iff the spec has a "cast" entry that is a mapping): True *)
Theorem C10N_run_rule_spec : forall d ts nas t ks g doc,
  forallb simple_pterm ts = true -> tree_in_c11n nas t ->
  dict_look (VStr "path") d = Some (VList (map sp_spec ts)) ->
  dict_look (VStr "condition") d = Some (ntree_spec nas t) ->
  norm_doc (dict_look (VStr "doc") d) = Ok doc ->
  parse_casts X (dict_look (VStr "cast") d) = Ok (ks, g) -> casts_wf ks ->
  run_rule_n_spec (VDict d) (c13n_term (api_path ts) nas t ks) g = Ok (VBool true).
Proof.
  intros d ts nas t ks g doc Hts Ht Hp Hc Hdoc Hcast Hcw.
  destruct (C10N_rule_spec d ts nas t ks g doc Hts Ht Hp Hc Hdoc Hcast) as [p [r [r' [_ [_ [_ [H1 [H2 [H3 _]]]]]]]]].
  exact (run_rule_n_spec_true _ _ r' r _ g H1 H2 eq_refl (H3 Hcw)).
Qed.

Theorem C10N_run_rule_spec_leaf : forall d ts c q n key ks g doc,
  forallb simple_pterm ts = true ->
  class_ok c q = true -> casts c q = false -> q_form q = FOne (VObj 0%N) -> narg_ok n -> spells key c q ->
  dict_look (VStr "path") d = Some (VList (map sp_spec ts)) ->
  dict_look (VStr "condition") d = Some (VDict [(VStr key, narg_spec n)]) ->
  norm_doc (dict_look (VStr "doc") d) = Ok doc ->
  parse_casts X (dict_look (VStr "cast") d) = Ok (ks, g) -> casts_wf ks ->
  run_rule_n_spec (VDict d) {| rtn_path := api_path ts; rtn_cond := nleaf_term c q n; rtn_cast := ks |} g = Ok (VBool true).
Proof.
  intros d ts c q n key ks g doc Hts Hcls Hc Hq Hn Hkey Hp Hcond Hdoc Hcast Hcw.
  destruct (C10N_rule_spec_leaf d ts c q n key ks g doc Hts Hcls Hc Hq Hn Hkey Hp Hcond Hdoc Hcast)
    as [p [r [r' [_ [_ [_ [H1 [H2 [H3 _]]]]]]]]].
  exact (run_rule_n_spec_true _ _ r' r _ g H1 H2 eq_refl (H3 Hcw)).
Qed.

Theorem C10N_run_rule_spec_full : forall d ts pts ns t ks g doc,
  forallb simple_pterm ts = true ->
  Forall path_good pts ->
  Forall (fun cq => leaf_in_c11n_full pts ns (fst cq) (snd cq)) (qleaves t) -> tree_depth t <= 40 ->
  qmixed (qnorm t) = false ->
  dict_look (VStr "path") d = Some (VList (map sp_spec ts)) ->
  dict_look (VStr "condition") d = Some (ntree_spec_full pts ns t) ->
  norm_doc (dict_look (VStr "doc") d) = Ok doc ->
  parse_casts X (dict_look (VStr "cast") d) = Ok (ks, g) -> casts_wf ks ->
  run_rule_n_spec (VDict d) (c13n_term (api_path ts) (embp pts ++ ns) t ks) g = Ok (VBool true).
Proof.
  intros d ts pts ns t ks g doc Hts Hg Hl Hd Hm Hp Hc Hdoc Hcast Hcw.
  destruct (C10N_rule_spec_full d ts pts ns t ks g doc Hts Hg Hl Hd Hm Hp Hc Hdoc Hcast)
    as [p [r [r' [_ [_ [_ [H1 [H2 [H3 _]]]]]]]]].
  exact (run_rule_n_spec_true _ _ r' r _ g H1 H2 eq_refl (H3 Hcw)).
Qed.

(* ================================================================== *)
(* 5. non-vacuity: the statements evaluated on concrete rule specs      *)

(* {"path": ["xs", {"type": "list_value"}], "condition": {"value.in": [{"path": ["a", 0]}, 1]}, "cast": {"str": "int"}}
     vs  Rule(DataPath("xs", ListValue()), Value.in_([DataPath("a", 0), 1]), cast={str: int})   (C13NestedProof.exn_term) *)
Definition ex10_path : pyval := VList [VStr "xs"; VDict [(VStr "type", VStr "list_value")]].
Definition ex10_cond : pyval := VDict [(VStr "value.in", VList [VDict [(VStr "path", VList [VStr "a"; VInt 0])]; VInt 1])].
Definition ex10_cast : pyval := VDict [(VStr "str", VStr "int")].
Definition ex10_spec : pyval := VDict [(VStr "path", ex10_path); (VStr "condition", ex10_cond); (VStr "cast", ex10_cast)].

Definition ex10_ts : list (pterm pyval) := [PtPrim (VStr "xs"); PtList None None None None].

(* by computation, on the term as a harness writes it (exn_term_is) *)
Example ex10_run : run_rule_n_spec ex10_spec exn_term true = Ok (VBool true).
Proof. vm_compute. reflexivity. Qed.

(* the API term of the theorems is that term *)
Example ex10_term_is :
  {| rtn_path := api_path ex10_ts; rtn_cond := nleaf_term SValue (Q_in (VObj 0)) exn_arg; rtn_cast := [(TStr, CastStrInt)] |}
  = exn_term.
Proof. vm_compute. reflexivity. Qed.

(* by the theorem (the key "value.in" is an alias spelling: the leaf form) *)
Example ex10_by_theorem :
  run_rule_n_spec ex10_spec
    {| rtn_path := api_path ex10_ts; rtn_cond := nleaf_term SValue (Q_in (VObj 0)) exn_arg; rtn_cast := [(TStr, CastStrInt)] |}
    true = Ok (VBool true).
Proof.
  unfold ex10_spec.
  apply (C10N_run_rule_spec_leaf _ ex10_ts SValue (Q_in (VObj 0)) exn_arg "value.in" [(TStr, CastStrInt)] true VNone);
    try reflexivity.
  - exact exn_arg_ok.
  - split; reflexivity.
  - apply casts_wf_short. cbn [List.length]. lia.
Qed.

(* the canonical spelling "value.in_" is the tree form; with a doc and an entry that is ignored *)
Example ex10_tree_by_theorem :
  run_rule_n_spec
    (VDict [(VStr "doc", VStr " items of xs "); (VStr "note", VInt 7); (VStr "cast", ex10_cast);
            (VStr "condition", ntree_spec [exn_arg] exn_tree); (VStr "path", ex10_path)])
    (c13n_term (api_path ex10_ts) [exn_arg] exn_tree [(TStr, CastStrInt)]) true = Ok (VBool true).
Proof.
  apply (C10N_run_rule_spec _ ex10_ts [exn_arg] exn_tree [(TStr, CastStrInt)] true (doc_nf ["items of xs"] []));
    try reflexivity.
  - exact exn_tree_in.
  - apply casts_wf_short. cbn [List.length]. lia.
Qed.

(* the parsed rule, the normalised doc and both rules tested on {"a": [3, 9], "xs": ["3", 1, 7]}:
   == ; same verdict, same failure, same cast data *)
Example ex10_run_test :
  let cast_doc := VDict [(VStr "a", VList [VInt 3; VInt 9]); (VStr "xs", VList [VInt 3; VInt 1; VInt 7])] in
  let t := VTuple [VTuple [VBool false; VBool true; VInt 1;
                           VList [VTuple [VInt 2; VInt 7; VTuple [VStr "xs"; VInt 2]; VBool true]]];
                   cast_doc; cast_doc] in
  run_rule_n_spec_test (VDict [(VStr "doc", VStr " items of xs "); (VStr "path", ex10_path); (VStr "condition", ex10_cond);
                               (VStr "cast", ex10_cast)]) exn_term true exn_doc
  = Ok (VTuple [VBool true; doc_nf ["items of xs"] []; t; t]).
Proof. vm_compute. reflexivity. Qed.

(* a mixed tree: (Value.in_([DataPath("a", 0), 1]) & Value.in_range(lower=DataPath("b"), upper=5)) | Value.equal_to({"path": 2}) *)
Example ex10_mixed_by_theorem :
  run_rule_n_spec
    (VDict [(VStr "path", ex10_path); (VStr "condition", ntree_spec_full [p_b] [ex_mix_list] ex_mix_tree)])
    (c13n_term (api_path ex10_ts) ex_mix_nas ex_mix_tree []) false = Ok (VBool true).
Proof.
  apply (C10N_run_rule_spec_full _ ex10_ts [p_b] [ex_mix_list] ex_mix_tree [] false VNone); try reflexivity.
  - repeat constructor. exact p_b_good.
  - cbn [qleaves ex_mix_tree app]. apply Forall_cons; [|apply Forall_cons; [|apply Forall_cons; [|apply Forall_nil]]]; cbn [fst snd].
    + left. split; [reflexivity|]. split; [reflexivity|]. exists 1%N, ex_mix_list. split; [reflexivity|]. split; [reflexivity|].
      split; [reflexivity|]. repeat constructor; cbn [item_ok1]; try exact p_a0_good; vm_compute; reflexivity.
    + right. vm_compute. reflexivity.
    + right. vm_compute. reflexivity.
  - vm_compute. lia.
  - apply casts_wf_short. cbn [List.length]. lia.
Qed.

Example ex10_mixed_run :
  run_rule_n_spec
    (VDict [(VStr "path", ex10_path);
            (VStr "condition", VDict [(VStr "or", VList [
               VDict [(VStr "and", VList [
                 VDict [(VStr "value.in_", VList [VDict [(VStr "path", VList [VStr "a"; VInt 0])]; VInt 1])];
                 VDict [(VStr "value.in_range", VDict [(VStr "lower", VDict [(VStr "path", VList [VStr "b"])]); (VStr "upper", VInt 5)])]])];
               VDict [(VStr "value.equal_to", VDict [(VStr "\path", VInt 2)])]])])])
    (c13n_term (api_path ex10_ts) ex_mix_nas ex_mix_tree []) false = Ok (VBool true).
Proof. vm_compute. reflexivity. Qed.

(* the order of errors, on instances with a nested condition: path before condition before doc before cast *)
Example C10N_rule_error_order_ex :
  let bad_path := VList [VNone] in let bad_cond := VDict [(VStr "value.no_such", VList [VDict [(VStr "path", VList [VStr "a"])]])] in
  let good_path := ex10_path in let good_cond := ex10_cond in
  let tuple_cond := VDict [(VStr "value.in", VTuple [VDict [(VStr "path", VList [VStr "a"; VInt 0])]; VInt 1])] in
  let doc_type_error := VInt 1 in let doc_malformed := VDict [(VStr "examples", VInt 1)] in
  let cast_type_error := VDict [(VStr "str", VList [])] in let cast_malformed := VInt 1 in
  rule_n_from_spec (ex_spec bad_path bad_cond doc_malformed cast_malformed) = Err TypeError /\
  rule_n_from_spec (ex_spec good_path bad_cond doc_type_error cast_type_error) = Err MalformedCond /\
  rule_n_from_spec (ex_spec good_path tuple_cond doc_malformed cast_malformed) = Err TypeError /\
  rule_n_from_spec (ex_spec good_path good_cond doc_malformed cast_type_error) = Err MalformedRule /\
  rule_n_from_spec (ex_spec good_path good_cond doc_type_error cast_malformed) = Err TypeError /\
  rule_n_from_spec (ex_spec good_path good_cond (VStr "d") cast_type_error) = Err TypeError /\
  rule_n_from_spec (ex_spec good_path good_cond (VStr "d") cast_malformed) = Err MalformedRule /\
  rule_n_from_spec (VDict [(VStr "condition", good_cond)]) = Err KeyError /\
  rule_n_from_spec (VDict [(VStr "path", good_path); (VStr "doc", doc_malformed)]) = Err KeyError.
Proof. vm_compute. repeat split. Qed.

(* ================================================================== *)
(* 6. outside the fragment                                              *)

(* `cast` absent / None vs cast={}: Rule.__eq__ tells them apart; the flag of the harness is the API's *)
Example C10N_cast_flag :
  let spec := VDict [(VStr "path", ex10_path); (VStr "condition", ex10_cond)] in
  let rt := c13n_term (api_path ex10_ts) [exn_arg] exn_tree [] in
  run_rule_n_spec spec rt false = Ok (VBool true) /\ run_rule_n_spec spec rt true = Ok (VBool false) /\
  run_rule_n_spec (VDict [(VStr "path", ex10_path); (VStr "condition", ex10_cond); (VStr "cast", VDict [])]) rt true = Ok (VBool true).
Proof. vm_compute. repeat split. Qed.

(* a TUPLE display has no spelling of its own: its list spelling parses to the LIST display, which is not == to the
   API-built rule (C09N_counterexample_tuple_as_list) although both rules test alike *)
Example C10N_counterexample_tuple :
  let rt := c13n_term (api_path ex10_ts) [NItems true [APath 5%N p_a0; ALit (VInt 1)]] exn_tree [(TStr, CastStrInt)] in
  match run_rule_n_spec_test ex10_spec rt true exn_doc with
  | Ok (VTuple [VBool false; _; t1; t2]) => t1 = t2
  | _ => False
  end.
Proof. vm_compute. reflexivity. Qed.

Print Assumptions C10N_rule_fields.
Print Assumptions C10N_rule_other_entries_ignored.
Print Assumptions C10N_rule_error_order.
Print Assumptions C10N_fields_as_arg1.
Print Assumptions C10N_rule_spec_gen.
Print Assumptions C10N_rule_spec.
Print Assumptions C10N_rule_spec_prims.
Print Assumptions C10N_rule_spec_roundtrips.
Print Assumptions C10N_rule_spec_full_gen.
Print Assumptions C10N_rule_spec_full.
Print Assumptions C10N_rule_spec_leaf.
Print Assumptions C10N_rule_spec_mixed_kinds.
Print Assumptions C10N_run_rule_spec.
Print Assumptions C10N_run_rule_spec_leaf.
Print Assumptions C10N_run_rule_spec_full.
