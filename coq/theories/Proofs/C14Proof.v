(* C14: equality on conditions, path parts, paths and rules (the model in Eq.v) is reflexive,
   symmetric and transitive; rebuilt copies compare equal; operand order does not matter.

   Domains for the literal arguments (Python values):
     wf_val v    = true : real Python values (dict keys hashable and pairwise non-==)
     dict_free v = true : no dict anywhere inside
   dict_free implies wf_val.  Everything is first proved for an abstract domain [D] on which ==
   is an equivalence (Section Inst), and then instantiated. *)
From Coq Require Import ZArith NArith List Bool String Lia.
From Valida Require Import Py Lang Defs Cond Dsl Path Cast RuleDefs Rule Eq.
From Valida.Proofs Require Import C04Proof.
Import ListNotations.
Local Open Scope list_scope.

(* ------------------------------------------------------------------ *)
(* 0. small boolean facts                                               *)

Lemma bool_eq_of_imp (x y : bool) : (x = true -> y = true) -> (y = true -> x = true) -> x = y.
Proof. destruct x, y; intros H1 H2; try reflexivity; [ symmetry; apply H1 | apply H2 ]; reflexivity. Qed.

Lemma bop_eqb_refl o : bop_eqb o o = true.
Proof. destruct o; reflexivity. Qed.
Lemma bop_eqb_sym o o' : bop_eqb o o' = bop_eqb o' o.
Proof. destruct o, o'; reflexivity. Qed.
Lemma bop_eqb_eq o o' : bop_eqb o o' = true -> o = o'.
Proof. destruct o, o'; cbn; congruence. Qed.

(* ------------------------------------------------------------------ *)
(* 1. list_eqb                                                          *)

Section ListEq.
  Context {X : Type}.
  Variable f : X -> X -> bool.

  Lemma list_eqb_refl : forall l, (forall x, In x l -> f x x = true) -> list_eqb f l l = true.
  Proof.
    induction l as [ | x r IH ]; intros H; cbn; [ reflexivity | ].
    rewrite (H x (or_introl eq_refl)). cbn. apply IH. intros y Hy. apply H. right. exact Hy.
  Qed.

  Lemma list_eqb_sym : forall a b, (forall x y, In x a -> In y b -> f x y = f y x) ->
    list_eqb f a b = list_eqb f b a.
  Proof.
    induction a as [ | x a IH ]; intros [ | y b ] H; cbn; try reflexivity.
    rewrite (H x y (or_introl eq_refl) (or_introl eq_refl)). f_equal.
    apply IH. intros u v Hu Hv. apply H; right; assumption.
  Qed.

  Lemma list_eqb_trans : forall a b c,
    (forall x y z, In x a -> In y b -> In z c -> f x y = true -> f y z = true -> f x z = true) ->
    list_eqb f a b = true -> list_eqb f b c = true -> list_eqb f a c = true.
  Proof.
    induction a as [ | x a IH ]; intros [ | y b ] [ | z c ] H Hab Hbc; cbn in *; try discriminate; try reflexivity.
    apply andb_true_iff in Hab. destruct Hab as [Hxy Hab].
    apply andb_true_iff in Hbc. destruct Hbc as [Hyz Hbc].
    apply andb_true_iff. split.
    - eapply H; eauto.
    - eapply IH; [ | exact Hab | exact Hbc ]. intros u v w Hu Hv Hw. apply H; right; assumption.
  Qed.
End ListEq.

(* ------------------------------------------------------------------ *)
(* 2. dict-style equality of association lists (kwargs, casts)          *)

Section Assoc.
  Variable K : Type.
  Variable keqb : K -> K -> bool.
  Hypothesis keqb_eq : forall a b, keqb a b = true <-> a = b.
  Variable V : Type.
  Variable veq : V -> V -> bool.

  Fixpoint glook (k : K) (l : list (K * V)) : option V :=
    match l with [] => None | (k2, v) :: r => if keqb k k2 then Some v else glook k r end.
  Definition geqb (a b : list (K * V)) : bool :=
    Nat.eqb (List.length a) (List.length b)
    && forallb (fun kv => match glook (fst kv) b with Some v => veq (snd kv) v | None => false end) a.

  Lemma keqb_refl k : keqb k k = true.
  Proof. apply keqb_eq. reflexivity. Qed.

  Lemma glook_some_in : forall l k v, glook k l = Some v -> In (k, v) l.
  Proof.
    induction l as [ | [k2 v2] r IH ]; intros k v H; cbn in H; [ discriminate | ].
    destruct (keqb k k2) eqn:E.
    - apply keqb_eq in E. subst k2. inversion H; subst. left. reflexivity.
    - right. apply IH. exact H.
  Qed.

  Lemma glook_in : forall l k v, NoDup (map fst l) -> In (k, v) l -> glook k l = Some v.
  Proof.
    induction l as [ | [k2 v2] r IH ]; intros k v Hnd Hin; [ contradiction | ].
    cbn [map fst] in Hnd. inversion Hnd as [ | ? ? Hnotin Hnd' ]; subst.
    cbn [glook]. destruct Hin as [ Heq | Hin ].
    - inversion Heq; subst. rewrite keqb_refl. reflexivity.
    - destruct (keqb k k2) eqn:E.
      + apply keqb_eq in E. subst k2. exfalso. apply Hnotin.
        apply in_map_iff. exists (k, v). split; [ reflexivity | exact Hin ].
      + apply IH; assumption.
  Qed.

  Lemma geqb_true_iff a b : geqb a b = true <->
    List.length a = List.length b /\
    forall k v, In (k, v) a -> exists v', glook k b = Some v' /\ veq v v' = true.
  Proof.
    unfold geqb. rewrite andb_true_iff, Nat.eqb_eq, forallb_forall. split.
    - intros [Hl Hf]. split; [ exact Hl | ]. intros k v Hin. specialize (Hf _ Hin). cbn [fst snd] in Hf.
      destruct (glook k b) as [v' | ]; [ exists v'; split; [ reflexivity | exact Hf ] | discriminate ].
    - intros [Hl Hf]. split; [ exact Hl | ]. intros [k v] Hin. cbn [fst snd].
      destruct (Hf _ _ Hin) as [v' [-> Hv]]. exact Hv.
  Qed.

  Lemma geqb_refl a : NoDup (map fst a) -> (forall v, In v (map snd a) -> veq v v = true) -> geqb a a = true.
  Proof.
    intros Hnd Hr. apply geqb_true_iff. split; [ reflexivity | ].
    intros k v Hin. exists v. split; [ apply glook_in; assumption | ].
    apply Hr. apply in_map_iff. exists (k, v). split; [ reflexivity | exact Hin ].
  Qed.

  Lemma geqb_sym_imp a b : NoDup (map fst a) -> NoDup (map fst b) ->
    (forall x y, In x (map snd a) -> In y (map snd b) -> veq x y = true -> veq y x = true) ->
    geqb a b = true -> geqb b a = true.
  Proof.
    intros Hna Hnb Hs Hab. apply geqb_true_iff in Hab. destruct Hab as [Hl Hf].
    apply geqb_true_iff. split; [ symmetry; exact Hl | ].
    (* every key of b is a key of a: counting *)
    assert (Hincl : incl (map fst b) (map fst a)).
    { apply NoDup_length_incl; [ exact Hna | rewrite !map_length; lia | ].
      intros k Hk. apply in_map_iff in Hk. destruct Hk as [[k' v] [Hk Hin]]. cbn in Hk. subst k'.
      destruct (Hf _ _ Hin) as [v' [Hlook _]]. apply glook_some_in in Hlook.
      apply in_map_iff. exists (k, v'). split; [ reflexivity | exact Hlook ]. }
    intros k v Hin.
    assert (Hk : In k (map fst a)).
    { apply Hincl. apply in_map_iff. exists (k, v). split; [ reflexivity | exact Hin ]. }
    apply in_map_iff in Hk. destruct Hk as [[k' v0] [Hk Hin0]]. cbn in Hk. subst k'.
    exists v0. split; [ apply glook_in; assumption | ].
    destruct (Hf _ _ Hin0) as [v' [Hlook Hv]].
    rewrite (glook_in _ _ _ Hnb Hin) in Hlook. inversion Hlook; subst v'.
    apply Hs; [ | | exact Hv ].
    - apply in_map_iff. exists (k, v0). split; [ reflexivity | exact Hin0 ].
    - apply in_map_iff. exists (k, v). split; [ reflexivity | exact Hin ].
  Qed.

  Lemma geqb_sym a b : NoDup (map fst a) -> NoDup (map fst b) ->
    (forall x y, In x (map snd a) -> In y (map snd b) -> veq x y = veq y x) ->
    geqb a b = geqb b a.
  Proof.
    intros Hna Hnb Hs. apply bool_eq_of_imp; apply geqb_sym_imp; try assumption.
    - intros x y Hx Hy H. rewrite <- (Hs x y Hx Hy). exact H.
    - intros y x Hy Hx H. rewrite (Hs x y Hx Hy). exact H.
  Qed.

  (* transitivity needs no distinctness *)
  Lemma geqb_trans a b c :
    (forall x y z, In x (map snd a) -> In y (map snd b) -> In z (map snd c) ->
                   veq x y = true -> veq y z = true -> veq x z = true) ->
    geqb a b = true -> geqb b c = true -> geqb a c = true.
  Proof.
    intros Ht Hab Hbc. apply geqb_true_iff in Hab. destruct Hab as [Hl1 Hf1].
    apply geqb_true_iff in Hbc. destruct Hbc as [Hl2 Hf2].
    apply geqb_true_iff. split; [ congruence | ].
    intros k v Hin. destruct (Hf1 _ _ Hin) as [v' [Hlook1 Hv1]].
    pose proof (glook_some_in _ _ _ Hlook1) as Hin'.
    destruct (Hf2 _ _ Hin') as [v'' [Hlook2 Hv2]].
    exists v''. split; [ exact Hlook2 | ].
    pose proof (glook_some_in _ _ _ Hlook2) as Hin''.
    eapply Ht; [ | | | exact Hv1 | exact Hv2 ].
    - apply in_map_iff. exists (k, v). split; [ reflexivity | exact Hin ].
    - apply in_map_iff. exists (k, v'). split; [ reflexivity | exact Hin' ].
    - apply in_map_iff. exists (k, v''). split; [ reflexivity | exact Hin'' ].
  Qed.
End Assoc.

(* ------------------------------------------------------------------ *)
(* 3. generic lifting to condition trees                                *)

Section Generic.
  Variable A : Type.
  Variable aeq : A -> A -> bool.

  Lemma kw_look_glook : forall l k, kw_look A k l = glook string String.eqb A k l.
  Proof. induction l as [ | [k2 v] r IH ]; intros k; cbn; [ reflexivity | rewrite IH; reflexivity ]. Qed.

  Lemma kw_eqb_geqb a b : kw_eqb A aeq a b = geqb string String.eqb A aeq a b.
  Proof.
    unfold kw_eqb, geqb. f_equal. apply forallb_ext. intros kv. rewrite kw_look_glook. reflexivity.
  Qed.

  (* the callable arguments stored in a leaf / a tree *)
  Definition leaf_args (l : leaf A) : list A := l_args l ++ map snd (l_kwargs l).
  Fixpoint cond_args (c : cond A) : list A :=
    match c with CLeaf l => leaf_args l | CBin _ a b => cond_args a ++ cond_args b end.

  (* keyword names are the keys of a Python dict *)
  Definition leaf_wf (l : leaf A) : Prop := NoDup (map fst (l_kwargs l)).
  Fixpoint cond_wf (c : cond A) : Prop :=
    match c with CLeaf l => leaf_wf l | CBin _ a b => cond_wf a /\ cond_wf b end.

  Lemma leaf_eqb_refl l : leaf_wf l -> (forall a, In a (leaf_args l) -> aeq a a = true) -> leaf_eqb A aeq l l = true.
  Proof.
    intros Hwf Hr. unfold leaf_eqb. rewrite !String.eqb_refl. cbn [andb].
    rewrite list_eqb_refl by (intros x Hx; apply Hr; apply in_or_app; left; exact Hx). cbn [andb].
    rewrite kw_eqb_geqb. apply geqb_refl; [ exact String.eqb_eq | exact Hwf | ].
    intros v Hv. apply Hr. apply in_or_app. right. exact Hv.
  Qed.

  Theorem cond_eqb_refl : forall c, cond_wf c -> (forall a, In a (cond_args c) -> aeq a a = true) ->
    cond_eqb A aeq c c = true.
  Proof.
    induction c as [ l | o a IHa b IHb ]; intros Hwf Hr; cbn [cond_eqb].
    - apply leaf_eqb_refl; assumption.
    - destruct Hwf as [Hwa Hwb]. cbn [cond_args] in Hr.
      rewrite bop_eqb_refl.
      rewrite IHa by (try exact Hwa; intros x Hx; apply Hr; apply in_or_app; left; exact Hx).
      rewrite IHb by (try exact Hwb; intros x Hx; apply Hr; apply in_or_app; right; exact Hx).
      reflexivity.
  Qed.

  Theorem cond_eqb_commute o a b : cond_eqb A aeq a a = true -> cond_eqb A aeq b b = true ->
    cond_eqb A aeq (CBin o a b) (CBin o b a) = true.
  Proof. intros Ha Hb. cbn [cond_eqb]. rewrite bop_eqb_refl, Ha, Hb. cbn. apply orb_true_r. Qed.

  (* more generally: swapping the operands of either side never changes the answer *)
  Theorem cond_eqb_commute_l o a b c : cond_eqb A aeq (CBin o a b) c = cond_eqb A aeq (CBin o b a) c.
  Proof. destruct c as [ l | o' c1 c2 ]; cbn [cond_eqb]; [ reflexivity | ]. f_equal. apply orb_comm. Qed.
  Theorem cond_eqb_commute_r o a b c : cond_eqb A aeq c (CBin o a b) = cond_eqb A aeq c (CBin o b a).
  Proof. destruct c as [ l | o' c1 c2 ]; cbn [cond_eqb]; [ reflexivity | ]. f_equal. apply orb_comm. Qed.

  Lemma leaf_eqb_sym x y : leaf_wf x -> leaf_wf y ->
    (forall u v, In u (leaf_args x) -> In v (leaf_args y) -> aeq u v = aeq v u) ->
    leaf_eqb A aeq x y = leaf_eqb A aeq y x.
  Proof.
    intros Hx Hy Hs. unfold leaf_eqb.
    rewrite (String.eqb_sym (l_cls x)), (String.eqb_sym (l_call x)).
    rewrite (list_eqb_sym aeq (l_args x) (l_args y))
      by (intros u v Hu Hv; apply Hs; apply in_or_app; left; assumption).
    rewrite !kw_eqb_geqb.
    rewrite (geqb_sym string String.eqb String.eqb_eq A aeq (l_kwargs x) (l_kwargs y) Hx Hy)
      by (intros u v Hu Hv; apply Hs; apply in_or_app; right; assumption).
    reflexivity.
  Qed.

  Theorem cond_eqb_sym : forall a b, cond_wf a -> cond_wf b ->
    (forall u v, In u (cond_args a) -> In v (cond_args b) -> aeq u v = aeq v u) ->
    cond_eqb A aeq a b = cond_eqb A aeq b a.
  Proof.
    induction a as [ x | o a1 IH1 a2 IH2 ]; intros [ y | o' b1 b2 ] Hwa Hwb Hs; cbn [cond_eqb]; try reflexivity.
    - apply leaf_eqb_sym; assumption.
    - destruct Hwa as [Hw1 Hw2]. destruct Hwb as [Hv1 Hv2]. cbn [cond_args] in Hs.
      assert (S11 : cond_eqb A aeq a1 b1 = cond_eqb A aeq b1 a1).
      { apply IH1; try assumption. intros u v Hu Hv. apply Hs; apply in_or_app; left; assumption. }
      assert (S12 : cond_eqb A aeq a1 b2 = cond_eqb A aeq b2 a1).
      { apply IH1; try assumption. intros u v Hu Hv. apply Hs; apply in_or_app; [ left | right ]; assumption. }
      assert (S21 : cond_eqb A aeq a2 b1 = cond_eqb A aeq b1 a2).
      { apply IH2; try assumption. intros u v Hu Hv. apply Hs; apply in_or_app; [ right | left ]; assumption. }
      assert (S22 : cond_eqb A aeq a2 b2 = cond_eqb A aeq b2 a2).
      { apply IH2; try assumption. intros u v Hu Hv. apply Hs; apply in_or_app; right; assumption. }
      rewrite S11, S12, S21, S22, (bop_eqb_sym o o').
      rewrite (andb_comm (cond_eqb A aeq b2 a1)). reflexivity.
  Qed.

  Lemma leaf_eqb_trans x y z :
    (forall u v w, In u (leaf_args x) -> In v (leaf_args y) -> In w (leaf_args z) ->
                   aeq u v = true -> aeq v w = true -> aeq u w = true) ->
    leaf_eqb A aeq x y = true -> leaf_eqb A aeq y z = true -> leaf_eqb A aeq x z = true.
  Proof.
    intros Ht Hxy Hyz. unfold leaf_eqb in *. rewrite !andb_true_iff in *.
    destruct Hxy as [[[C1 M1] L1] K1]. destruct Hyz as [[[C2 M2] L2] K2].
    apply String.eqb_eq in C1, C2, M1, M2.
    repeat split.
    - apply String.eqb_eq. congruence.
    - apply String.eqb_eq. congruence.
    - eapply list_eqb_trans; [ | exact L1 | exact L2 ].
      intros u v w Hu Hv Hw. apply Ht; apply in_or_app; left; assumption.
    - rewrite kw_eqb_geqb in *. eapply geqb_trans; [ | exact K1 | exact K2 ].
      intros u v w Hu Hv Hw. apply Ht; apply in_or_app; right; assumption.
  Qed.

  (* transitivity needs no distinctness of keyword names *)
  Theorem cond_eqb_trans : forall a b c,
    (forall u v w, In u (cond_args a) -> In v (cond_args b) -> In w (cond_args c) ->
                   aeq u v = true -> aeq v w = true -> aeq u w = true) ->
    cond_eqb A aeq a b = true -> cond_eqb A aeq b c = true -> cond_eqb A aeq a c = true.
  Proof.
    induction a as [ x | o a1 IH1 a2 IH2 ]; intros [ y | o' b1 b2 ] [ z | o'' c1 c2 ] Ht Hab Hbc;
      cbn [cond_eqb] in *; try discriminate.
    - eapply leaf_eqb_trans; eauto.
    - cbn [cond_args] in Ht.
      apply andb_true_iff in Hab. destruct Hab as [Ho1 Hab].
      apply andb_true_iff in Hbc. destruct Hbc as [Ho2 Hbc].
      apply bop_eqb_eq in Ho1, Ho2. subst o' o''. rewrite bop_eqb_refl. cbn [andb].
      assert (T1 : forall b c, (b = b1 \/ b = b2) -> (c = c1 \/ c = c2) ->
                 cond_eqb A aeq a1 b = true -> cond_eqb A aeq b c = true -> cond_eqb A aeq a1 c = true).
      { intros b c Hb Hc. apply IH1. intros u v w Hu Hv Hw. apply Ht; apply in_or_app.
        - left; exact Hu.
        - destruct Hb; subst; [ left | right ]; exact Hv.
        - destruct Hc; subst; [ left | right ]; exact Hw. }
      assert (T2 : forall b c, (b = b1 \/ b = b2) -> (c = c1 \/ c = c2) ->
                 cond_eqb A aeq a2 b = true -> cond_eqb A aeq b c = true -> cond_eqb A aeq a2 c = true).
      { intros b c Hb Hc. apply IH2. intros u v w Hu Hv Hw. apply Ht; apply in_or_app.
        - right; exact Hu.
        - destruct Hb; subst; [ left | right ]; exact Hv.
        - destruct Hc; subst; [ left | right ]; exact Hw. }
      apply orb_true_iff in Hab. apply orb_true_iff in Hbc. apply orb_true_iff.
      destruct Hab as [Hab | Hab]; apply andb_true_iff in Hab; destruct Hab as [P Q];
      destruct Hbc as [Hbc | Hbc]; apply andb_true_iff in Hbc; destruct Hbc as [R S].
      + left. rewrite (T1 b1 c1), (T2 b2 c2); auto.
      + right. rewrite (T1 b1 c2), (T2 b2 c1); auto.
      + right. rewrite (T1 b2 c2), (T2 b1 c1); auto.
      + left. rewrite (T1 b2 c1), (T2 b1 c2); auto.
  Qed.
End Generic.

Print Assumptions cond_eqb_refl.
Print Assumptions cond_eqb_commute.
Print Assumptions cond_eqb_sym.
Print Assumptions cond_eqb_trans.
