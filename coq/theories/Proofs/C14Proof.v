(* C14: equality on conditions, path parts, paths and rules (the model in Eq.v) is reflexive,
   symmetric and transitive; rebuilt copies compare equal; operand order does not matter.

   Domains for the literal arguments (Python values):
     wf_val v    = true : real Python values (dict keys hashable and pairwise non-==)
     dict_free v = true : no dict anywhere inside
   dict_free implies wf_val.  Everything is first proved for an abstract domain [D] on which ==
   is an equivalence (Section Inst), and then instantiated.

   Main results: cond_eqb_refl/sym/trans/commute (generic, sec. 3); py_eq_refl_wf, py_eq_sym_df,
   py_eq_trans_mid/_df (sec. 4); py_eq_sym_wf, py_eq_trans_wf (sec. 6, pigeonhole on dict keys);
   build1_buildable (sec. 7); C14_{cond,part,path,cond1,rule,schema}_{refl,sym,trans},
   C14_*_commute, C14_rebuild* on wf_val (sec. 9) and *_df on dict_free (sec. 10);
   counterexamples outside the domains (sec. 11).
   Side conditions: cond_wf (keyword names of a leaf distinct), casts_wf (cast-from types distinct),
   path_args_buildable (mk_path succeeds on data-path arguments; derived for built conditions). *)
From Coq Require Import ZArith NArith List Bool String Lia.
From Valida Require Import Py Lang Defs Cond Dsl Path Cast RuleDefs Rule Eq.
From Valida.Proofs Require Import C04Proof.
Import ListNotations.
Local Open Scope list_scope.

(* ------------------------------------------------------------------ *)
(* 0. small boolean facts                                               *)

Lemma bool_eq_of_imp (x y : bool) : (x = true -> y = true) -> (y = true -> x = true) -> x = y.
Proof. destruct x, y; intros H1 H2; try reflexivity; [ symmetry; apply H1 | apply H2 ]; reflexivity. Qed.

Lemma bop_eqb_refl o : bop_eqb o o = true.
Proof. destruct o; reflexivity. Qed.
Lemma bop_eqb_sym o o' : bop_eqb o o' = bop_eqb o' o.
Proof. destruct o, o'; reflexivity. Qed.
Lemma bop_eqb_eq o o' : bop_eqb o o' = true -> o = o'.
Proof. destruct o, o'; cbn; congruence. Qed.

(* ------------------------------------------------------------------ *)
(* 1. list_eqb                                                          *)

Section ListEq.
  Context {X : Type}.
  Variable f : X -> X -> bool.

  Lemma list_eqb_refl : forall l, (forall x, In x l -> f x x = true) -> list_eqb f l l = true.
  Proof.
    induction l as [ | x r IH ]; intros H; cbn; [ reflexivity | ].
    rewrite (H x (or_introl eq_refl)). cbn. apply IH. intros y Hy. apply H. right. exact Hy.
  Qed.

  Lemma list_eqb_sym : forall a b, (forall x y, In x a -> In y b -> f x y = f y x) ->
    list_eqb f a b = list_eqb f b a.
  Proof.
    induction a as [ | x a IH ]; intros [ | y b ] H; cbn; try reflexivity.
    rewrite (H x y (or_introl eq_refl) (or_introl eq_refl)). f_equal.
    apply IH. intros u v Hu Hv. apply H; right; assumption.
  Qed.

  Lemma list_eqb_trans : forall a b c,
    (forall x y z, In x a -> In y b -> In z c -> f x y = true -> f y z = true -> f x z = true) ->
    list_eqb f a b = true -> list_eqb f b c = true -> list_eqb f a c = true.
  Proof.
    induction a as [ | x a IH ]; intros [ | y b ] [ | z c ] H Hab Hbc; cbn in *; try discriminate; try reflexivity.
    apply andb_true_iff in Hab. destruct Hab as [Hxy Hab].
    apply andb_true_iff in Hbc. destruct Hbc as [Hyz Hbc].
    apply andb_true_iff. split.
    - eapply H; eauto.
    - eapply IH; [ | exact Hab | exact Hbc ]. intros u v w Hu Hv Hw. apply H; right; assumption.
  Qed.
End ListEq.

(* ------------------------------------------------------------------ *)
(* 2. dict-style equality of association lists (kwargs, casts)          *)

Section Assoc.
  Variable K : Type.
  Variable keqb : K -> K -> bool.
  Hypothesis keqb_eq : forall a b, keqb a b = true <-> a = b.
  Variable V : Type.
  Variable veq : V -> V -> bool.

  Fixpoint glook (k : K) (l : list (K * V)) : option V :=
    match l with [] => None | (k2, v) :: r => if keqb k k2 then Some v else glook k r end.
  Definition geqb (a b : list (K * V)) : bool :=
    Nat.eqb (List.length a) (List.length b)
    && forallb (fun kv => match glook (fst kv) b with Some v => veq (snd kv) v | None => false end) a.

  Lemma keqb_refl k : keqb k k = true.
  Proof. apply keqb_eq. reflexivity. Qed.

  Lemma glook_some_in : forall l k v, glook k l = Some v -> In (k, v) l.
  Proof.
    induction l as [ | [k2 v2] r IH ]; intros k v H; cbn in H; [ discriminate | ].
    destruct (keqb k k2) eqn:E.
    - apply keqb_eq in E. subst k2. inversion H; subst. left. reflexivity.
    - right. apply IH. exact H.
  Qed.

  Lemma glook_in : forall l k v, NoDup (map fst l) -> In (k, v) l -> glook k l = Some v.
  Proof.
    induction l as [ | [k2 v2] r IH ]; intros k v Hnd Hin; [ contradiction | ].
    cbn [map fst] in Hnd. inversion Hnd as [ | ? ? Hnotin Hnd' ]; subst.
    cbn [glook]. destruct Hin as [ Heq | Hin ].
    - inversion Heq; subst. rewrite keqb_refl. reflexivity.
    - destruct (keqb k k2) eqn:E.
      + apply keqb_eq in E. subst k2. exfalso. apply Hnotin.
        apply in_map_iff. exists (k, v). split; [ reflexivity | exact Hin ].
      + apply IH; assumption.
  Qed.

  Lemma geqb_true_iff a b : geqb a b = true <->
    List.length a = List.length b /\
    forall k v, In (k, v) a -> exists v', glook k b = Some v' /\ veq v v' = true.
  Proof.
    unfold geqb. rewrite andb_true_iff, Nat.eqb_eq, forallb_forall. split.
    - intros [Hl Hf]. split; [ exact Hl | ]. intros k v Hin. specialize (Hf _ Hin). cbn [fst snd] in Hf.
      destruct (glook k b) as [v' | ]; [ exists v'; split; [ reflexivity | exact Hf ] | discriminate ].
    - intros [Hl Hf]. split; [ exact Hl | ]. intros [k v] Hin. cbn [fst snd].
      destruct (Hf _ _ Hin) as [v' [-> Hv]]. exact Hv.
  Qed.

  Lemma geqb_refl a : NoDup (map fst a) -> (forall v, In v (map snd a) -> veq v v = true) -> geqb a a = true.
  Proof.
    intros Hnd Hr. apply geqb_true_iff. split; [ reflexivity | ].
    intros k v Hin. exists v. split; [ apply glook_in; assumption | ].
    apply Hr. apply in_map_iff. exists (k, v). split; [ reflexivity | exact Hin ].
  Qed.

  Lemma geqb_sym_imp a b : NoDup (map fst a) -> NoDup (map fst b) ->
    (forall x y, In x (map snd a) -> In y (map snd b) -> veq x y = true -> veq y x = true) ->
    geqb a b = true -> geqb b a = true.
  Proof.
    intros Hna Hnb Hs Hab. apply geqb_true_iff in Hab. destruct Hab as [Hl Hf].
    apply geqb_true_iff. split; [ symmetry; exact Hl | ].
    (* every key of b is a key of a: counting *)
    assert (Hincl : incl (map fst b) (map fst a)).
    { apply NoDup_length_incl; [ exact Hna | rewrite !map_length; lia | ].
      intros k Hk. apply in_map_iff in Hk. destruct Hk as [[k' v] [Hk Hin]]. cbn in Hk. subst k'.
      destruct (Hf _ _ Hin) as [v' [Hlook _]]. apply glook_some_in in Hlook.
      apply in_map_iff. exists (k, v'). split; [ reflexivity | exact Hlook ]. }
    intros k v Hin.
    assert (Hk : In k (map fst a)).
    { apply Hincl. apply in_map_iff. exists (k, v). split; [ reflexivity | exact Hin ]. }
    apply in_map_iff in Hk. destruct Hk as [[k' v0] [Hk Hin0]]. cbn in Hk. subst k'.
    exists v0. split; [ apply glook_in; assumption | ].
    destruct (Hf _ _ Hin0) as [v' [Hlook Hv]].
    rewrite (glook_in _ _ _ Hnb Hin) in Hlook. inversion Hlook; subst v'.
    apply Hs; [ | | exact Hv ].
    - apply in_map_iff. exists (k, v0). split; [ reflexivity | exact Hin0 ].
    - apply in_map_iff. exists (k, v). split; [ reflexivity | exact Hin ].
  Qed.

  Lemma geqb_sym a b : NoDup (map fst a) -> NoDup (map fst b) ->
    (forall x y, In x (map snd a) -> In y (map snd b) -> veq x y = veq y x) ->
    geqb a b = geqb b a.
  Proof.
    intros Hna Hnb Hs. apply bool_eq_of_imp; apply geqb_sym_imp; try assumption.
    - intros x y Hx Hy H. rewrite <- (Hs x y Hx Hy). exact H.
    - intros y x Hy Hx H. rewrite (Hs x y Hx Hy). exact H.
  Qed.

  (* transitivity needs no distinctness *)
  Lemma geqb_trans a b c :
    (forall x y z, In x (map snd a) -> In y (map snd b) -> In z (map snd c) ->
                   veq x y = true -> veq y z = true -> veq x z = true) ->
    geqb a b = true -> geqb b c = true -> geqb a c = true.
  Proof.
    intros Ht Hab Hbc. apply geqb_true_iff in Hab. destruct Hab as [Hl1 Hf1].
    apply geqb_true_iff in Hbc. destruct Hbc as [Hl2 Hf2].
    apply geqb_true_iff. split; [ congruence | ].
    intros k v Hin. destruct (Hf1 _ _ Hin) as [v' [Hlook1 Hv1]].
    pose proof (glook_some_in _ _ _ Hlook1) as Hin'.
    destruct (Hf2 _ _ Hin') as [v'' [Hlook2 Hv2]].
    exists v''. split; [ exact Hlook2 | ].
    pose proof (glook_some_in _ _ _ Hlook2) as Hin''.
    eapply Ht; [ | | | exact Hv1 | exact Hv2 ].
    - apply in_map_iff. exists (k, v). split; [ reflexivity | exact Hin ].
    - apply in_map_iff. exists (k, v'). split; [ reflexivity | exact Hin' ].
    - apply in_map_iff. exists (k, v''). split; [ reflexivity | exact Hin'' ].
  Qed.
End Assoc.

(* ------------------------------------------------------------------ *)
(* 3. generic lifting to condition trees                                *)

Section Generic.
  Variable A : Type.
  Variable aeq : A -> A -> bool.

  Lemma kw_look_glook : forall l k, kw_look A k l = glook string String.eqb A k l.
  Proof. induction l as [ | [k2 v] r IH ]; intros k; cbn; [ reflexivity | rewrite IH; reflexivity ]. Qed.

  Lemma kw_eqb_geqb a b : kw_eqb A aeq a b = geqb string String.eqb A aeq a b.
  Proof. reflexivity. Qed.

  (* the callable arguments stored in a leaf / a tree *)
  Definition leaf_args (l : leaf A) : list A := l_args l ++ map snd (l_kwargs l).
  Fixpoint cond_args (c : cond A) : list A :=
    match c with CLeaf l => leaf_args l | CBin _ a b => cond_args a ++ cond_args b end.

  (* keyword names are the keys of a Python dict *)
  Definition leaf_wf (l : leaf A) : Prop := NoDup (map fst (l_kwargs l)).
  Fixpoint cond_wf (c : cond A) : Prop :=
    match c with CLeaf l => leaf_wf l | CBin _ a b => cond_wf a /\ cond_wf b end.

  Lemma leaf_eqb_refl l : leaf_wf l -> (forall a, In a (leaf_args l) -> aeq a a = true) -> leaf_eqb A aeq l l = true.
  Proof.
    intros Hwf Hr. unfold leaf_eqb. rewrite !String.eqb_refl. cbn [andb].
    rewrite list_eqb_refl by (intros x Hx; apply Hr; apply in_or_app; left; exact Hx). cbn [andb].
    rewrite kw_eqb_geqb. apply geqb_refl; [ exact String.eqb_eq | exact Hwf | ].
    intros v Hv. apply Hr. apply in_or_app. right. exact Hv.
  Qed.

  Theorem cond_eqb_refl : forall c, cond_wf c -> (forall a, In a (cond_args c) -> aeq a a = true) ->
    cond_eqb A aeq c c = true.
  Proof.
    induction c as [ l | o a IHa b IHb ]; intros Hwf Hr; cbn [cond_eqb].
    - apply leaf_eqb_refl; assumption.
    - destruct Hwf as [Hwa Hwb]. cbn [cond_args] in Hr.
      rewrite bop_eqb_refl.
      rewrite IHa by (try exact Hwa; intros x Hx; apply Hr; apply in_or_app; left; exact Hx).
      rewrite IHb by (try exact Hwb; intros x Hx; apply Hr; apply in_or_app; right; exact Hx).
      reflexivity.
  Qed.

  Theorem cond_eqb_commute o a b : cond_eqb A aeq a a = true -> cond_eqb A aeq b b = true ->
    cond_eqb A aeq (CBin o a b) (CBin o b a) = true.
  Proof. intros Ha Hb. cbn [cond_eqb]. rewrite bop_eqb_refl, Ha, Hb. cbn. apply orb_true_r. Qed.

  (* more generally: swapping the operands of either side never changes the answer *)
  Theorem cond_eqb_commute_l o a b c : cond_eqb A aeq (CBin o a b) c = cond_eqb A aeq (CBin o b a) c.
  Proof.
    destruct c as [ l | o' c1 c2 ]; cbn [cond_eqb]; [ reflexivity | ]. f_equal.
    destruct (cond_eqb A aeq a c1), (cond_eqb A aeq b c2), (cond_eqb A aeq a c2), (cond_eqb A aeq b c1); reflexivity.
  Qed.
  Theorem cond_eqb_commute_r o a b c : cond_eqb A aeq c (CBin o a b) = cond_eqb A aeq c (CBin o b a).
  Proof. destruct c as [ l | o' c1 c2 ]; cbn [cond_eqb]; [ reflexivity | ]. f_equal. apply orb_comm. Qed.

  Lemma leaf_eqb_sym x y : leaf_wf x -> leaf_wf y ->
    (forall u v, In u (leaf_args x) -> In v (leaf_args y) -> aeq u v = aeq v u) ->
    leaf_eqb A aeq x y = leaf_eqb A aeq y x.
  Proof.
    intros Hx Hy Hs. unfold leaf_eqb.
    rewrite (String.eqb_sym (l_cls x)), (String.eqb_sym (l_call x)).
    rewrite (list_eqb_sym aeq (l_args x) (l_args y))
      by (intros u v Hu Hv; apply Hs; apply in_or_app; left; assumption).
    rewrite !kw_eqb_geqb.
    rewrite (geqb_sym string String.eqb String.eqb_eq A aeq (l_kwargs x) (l_kwargs y) Hx Hy)
      by (intros u v Hu Hv; apply Hs; apply in_or_app; right; assumption).
    reflexivity.
  Qed.

  Theorem cond_eqb_sym : forall a b, cond_wf a -> cond_wf b ->
    (forall u v, In u (cond_args a) -> In v (cond_args b) -> aeq u v = aeq v u) ->
    cond_eqb A aeq a b = cond_eqb A aeq b a.
  Proof.
    induction a as [ x | o a1 IH1 a2 IH2 ]; intros [ y | o' b1 b2 ] Hwa Hwb Hs; cbn [cond_eqb]; try reflexivity.
    - apply leaf_eqb_sym; assumption.
    - destruct Hwa as [Hw1 Hw2]. destruct Hwb as [Hv1 Hv2]. cbn [cond_args] in Hs.
      assert (S11 : cond_eqb A aeq a1 b1 = cond_eqb A aeq b1 a1).
      { apply IH1; try assumption. intros u v Hu Hv. apply Hs; apply in_or_app; left; assumption. }
      assert (S12 : cond_eqb A aeq a1 b2 = cond_eqb A aeq b2 a1).
      { apply IH1; try assumption. intros u v Hu Hv. apply Hs; apply in_or_app; [ left | right ]; assumption. }
      assert (S21 : cond_eqb A aeq a2 b1 = cond_eqb A aeq b1 a2).
      { apply IH2; try assumption. intros u v Hu Hv. apply Hs; apply in_or_app; [ right | left ]; assumption. }
      assert (S22 : cond_eqb A aeq a2 b2 = cond_eqb A aeq b2 a2).
      { apply IH2; try assumption. intros u v Hu Hv. apply Hs; apply in_or_app; right; assumption. }
      rewrite S11, S12, S21, S22, (bop_eqb_sym o o').
      rewrite (andb_comm (cond_eqb A aeq b2 a1)). reflexivity.
  Qed.

  Lemma leaf_eqb_trans x y z :
    (forall u v w, In u (leaf_args x) -> In v (leaf_args y) -> In w (leaf_args z) ->
                   aeq u v = true -> aeq v w = true -> aeq u w = true) ->
    leaf_eqb A aeq x y = true -> leaf_eqb A aeq y z = true -> leaf_eqb A aeq x z = true.
  Proof.
    intros Ht Hxy Hyz. unfold leaf_eqb in *. rewrite !andb_true_iff in *.
    destruct Hxy as [[[C1 M1] L1] K1]. destruct Hyz as [[[C2 M2] L2] K2].
    apply String.eqb_eq in C1, C2, M1, M2.
    repeat split.
    - apply String.eqb_eq. congruence.
    - apply String.eqb_eq. congruence.
    - eapply list_eqb_trans; [ | exact L1 | exact L2 ].
      intros u v w Hu Hv Hw. apply Ht; apply in_or_app; left; assumption.
    - rewrite kw_eqb_geqb in *. eapply (geqb_trans string String.eqb String.eqb_eq A aeq); [ | exact K1 | exact K2 ].
      intros u v w Hu Hv Hw. apply Ht; apply in_or_app; right; assumption.
  Qed.

  (* transitivity needs no distinctness of keyword names *)
  Theorem cond_eqb_trans : forall a b c,
    (forall u v w, In u (cond_args a) -> In v (cond_args b) -> In w (cond_args c) ->
                   aeq u v = true -> aeq v w = true -> aeq u w = true) ->
    cond_eqb A aeq a b = true -> cond_eqb A aeq b c = true -> cond_eqb A aeq a c = true.
  Proof.
    induction a as [ x | o a1 IH1 a2 IH2 ]; intros [ y | o' b1 b2 ] [ z | o'' c1 c2 ] Ht Hab Hbc;
      cbn [cond_eqb] in *; try discriminate.
    - eapply leaf_eqb_trans; eauto.
    - cbn [cond_args] in Ht.
      apply andb_true_iff in Hab. destruct Hab as [Ho1 Hab].
      apply andb_true_iff in Hbc. destruct Hbc as [Ho2 Hbc].
      apply bop_eqb_eq in Ho1, Ho2. subst o' o''. rewrite bop_eqb_refl. cbn [andb].
      assert (T1 : forall b c, (b = b1 \/ b = b2) -> (c = c1 \/ c = c2) ->
                 cond_eqb A aeq a1 b = true -> cond_eqb A aeq b c = true -> cond_eqb A aeq a1 c = true).
      { intros b c Hb Hc. apply IH1. intros u v w Hu Hv Hw. apply Ht; apply in_or_app.
        - left; exact Hu.
        - destruct Hb; subst; [ left | right ]; exact Hv.
        - destruct Hc; subst; [ left | right ]; exact Hw. }
      assert (T2 : forall b c, (b = b1 \/ b = b2) -> (c = c1 \/ c = c2) ->
                 cond_eqb A aeq a2 b = true -> cond_eqb A aeq b c = true -> cond_eqb A aeq a2 c = true).
      { intros b c Hb Hc. apply IH2. intros u v w Hu Hv Hw. apply Ht; apply in_or_app.
        - right; exact Hu.
        - destruct Hb; subst; [ left | right ]; exact Hv.
        - destruct Hc; subst; [ left | right ]; exact Hw. }
      apply orb_true_iff in Hab. apply orb_true_iff in Hbc. apply orb_true_iff.
      destruct Hab as [Hab | Hab]; apply andb_true_iff in Hab; destruct Hab as [P Q];
      destruct Hbc as [Hbc | Hbc]; apply andb_true_iff in Hbc; destruct Hbc as [R S].
      + left. rewrite (T1 b1 c1), (T2 b2 c2); auto.
      + right. rewrite (T1 b1 c2), (T2 b2 c1); auto.
      + right. rewrite (T1 b2 c2), (T2 b1 c1); auto.
      + left. rewrite (T1 b2 c1), (T2 b1 c2); auto.
  Qed.
End Generic.
Arguments leaf_args {A}. Arguments cond_args {A}. Arguments leaf_wf {A}. Arguments cond_wf {A}.

(* ------------------------------------------------------------------ *)
(* 4. Python's == on values                                              *)

Fixpoint dict_free (v : pyval) : bool :=
  match v with
  | VList l | VTuple l => forallb dict_free l
  | VDict _ => false
  | _ => true
  end.

Lemma py_eq_list_char : forall l r, py_eq (VList l) (VList r) = list_eqb py_eq l r.
Proof.
  induction l as [ | x l IH ]; intros [ | y r ]; try reflexivity.
  cbn [list_eqb]. rewrite <- IH. reflexivity.
Qed.
Lemma py_eq_tuple_char : forall l r, py_eq (VTuple l) (VTuple r) = list_eqb py_eq l r.
Proof.
  induction l as [ | x l IH ]; intros [ | y r ]; try reflexivity.
  cbn [list_eqb]. rewrite <- IH. reflexivity.
Qed.

Definition dict_entry_ok (d2 : list (pyval * pyval)) (kv : pyval * pyval) : bool :=
  match dict_look (fst kv) d2 with Some v => py_eq (snd kv) v | None => false end.

Lemma dict_look_char k v : forall d2,
  (fix look (d2 : list (pyval * pyval)) := match d2 with [] => false
     | (k2, v2) :: r2 => if py_eq k k2 then py_eq v v2 else look r2 end) d2
  = match dict_look k d2 with Some v' => py_eq v v' | None => false end.
Proof.
  induction d2 as [ | [k2 v2] r2 IH2 ]; [ reflexivity | ].
  cbn [dict_look]. destruct (py_eq k k2); [ reflexivity | exact IH2 ].
Qed.

Lemma py_eq_dict_char d1 d2 : py_eq (VDict d1) (VDict d2) =
  Nat.eqb (List.length d1) (List.length d2) && forallb (dict_entry_ok d2) d1.
Proof.
  cbn [py_eq num_of]. f_equal.
  induction d1 as [ | [k v] r IH ]; [ reflexivity | ].
  cbn [forallb]. rewrite <- IH. f_equal.
  unfold dict_entry_ok. cbn [fst snd]. apply dict_look_char.
Qed.

Lemma dict_look_some : forall d k v, dict_look k d = Some v -> exists k2, In (k2, v) d /\ py_eq k k2 = true.
Proof.
  induction d as [ | [k2 v2] r IH ]; intros k v H; cbn [dict_look] in H; [ discriminate | ].
  destruct (py_eq k k2) eqn:E.
  - inversion H; subst. exists k2. split; [ left; reflexivity | exact E ].
  - destruct (IH _ _ H) as [k3 [Hin Hk]]. exists k3. split; [ right; exact Hin | exact Hk ].
Qed.

Lemma py_eq_dict_true_iff d1 d2 : py_eq (VDict d1) (VDict d2) = true <->
  List.length d1 = List.length d2 /\
  forall k v, In (k, v) d1 -> exists v', dict_look k d2 = Some v' /\ py_eq v v' = true.
Proof.
  rewrite py_eq_dict_char, andb_true_iff, Nat.eqb_eq, forallb_forall. unfold dict_entry_ok. split.
  - intros [Hl Hf]. split; [ exact Hl | ]. intros k v Hin. specialize (Hf _ Hin). cbn [fst snd] in Hf.
    destruct (dict_look k d2) as [v' | ]; [ exists v'; split; [ reflexivity | exact Hf ] | discriminate ].
  - intros [Hl Hf]. split; [ exact Hl | ]. intros [k v] Hin. cbn [fst snd].
    destruct (Hf _ _ Hin) as [v' [-> Hv]]. exact Hv.
Qed.

(* ---- dict-free values ---- *)

Lemma num_eqb_sym a b : num_eqb a b = num_eqb b a.
Proof. unfold num_eqb. rewrite (Z.eqb_sym (fst a)), (Z.eqb_sym (snd a)). reflexivity. Qed.

Lemma num_eqb_trans a b c : num_eqb a b = true -> num_eqb b c = true -> num_eqb a c = true.
Proof. rewrite !num_eqb_eq. congruence. Qed.

Lemma pytype_eqb_sym a b : pytype_eqb a b = pytype_eqb b a.
Proof. destruct a, b; reflexivity. Qed.

Theorem py_eq_sym_df : forall a b, dict_free a = true -> py_eq a b = py_eq b a.
Proof.
  induction a as [ | b0 | z | n m e | s | l IHl | l IHl | d IHd | t | t ] using pyval_ind';
    intros b Hdf; destruct b; try discriminate Hdf;
    try reflexivity; try (cbn [py_eq num_of]; apply num_eqb_sym).
  - cbn [py_eq num_of]. apply String.eqb_sym.
  - rewrite !py_eq_list_char. cbn [dict_free] in Hdf. rewrite forallb_forall in Hdf. rewrite Forall_forall in IHl.
    apply list_eqb_sym. intros x y Hx Hy. apply IHl; [ exact Hx | apply Hdf; exact Hx ].
  - rewrite !py_eq_tuple_char. cbn [dict_free] in Hdf. rewrite forallb_forall in Hdf. rewrite Forall_forall in IHl.
    apply list_eqb_sym. intros x y Hx Hy. apply IHl; [ exact Hx | apply Hdf; exact Hx ].
  - cbn [py_eq num_of]. apply pytype_eqb_sym.
  - cbn [py_eq num_of]. apply N.eqb_sym.
Qed.

(* only the middle value needs to be dict-free *)
Theorem py_eq_trans_mid : forall a b c, dict_free b = true ->
  py_eq a b = true -> py_eq b c = true -> py_eq a c = true.
Proof.
  induction a as [ | b0 | z | n m e | s | l IHl | l IHl | d IHd | t | t ] using pyval_ind';
    intros b c Hdf Hab Hbc;
    destruct b; try discriminate Hdf; try (cbn [py_eq num_of] in Hab; discriminate Hab);
    destruct c; try (cbn [py_eq num_of] in Hbc; discriminate Hbc);
    try reflexivity;
    try (cbn [py_eq num_of] in *; eapply num_eqb_trans; eassumption).
  - cbn [py_eq num_of] in *. apply String.eqb_eq in Hab, Hbc. apply String.eqb_eq. congruence.
  - rewrite py_eq_list_char in *. cbn [dict_free] in Hdf. rewrite forallb_forall in Hdf. rewrite Forall_forall in IHl.
    eapply list_eqb_trans; [ | exact Hab | exact Hbc ].
    intros x y w Hx Hy Hw. apply IHl; [ exact Hx | apply Hdf; exact Hy ].
  - rewrite py_eq_tuple_char in *. cbn [dict_free] in Hdf. rewrite forallb_forall in Hdf. rewrite Forall_forall in IHl.
    eapply list_eqb_trans; [ | exact Hab | exact Hbc ].
    intros x y w Hx Hy Hw. apply IHl; [ exact Hx | apply Hdf; exact Hy ].
  - cbn [py_eq num_of] in *. apply pytype_eqb_eq in Hab, Hbc. apply pytype_eqb_eq. congruence.
  - cbn [py_eq num_of] in *. apply N.eqb_eq in Hab, Hbc. apply N.eqb_eq. congruence.
Qed.

Theorem py_eq_trans_df a b c : dict_free a = true -> dict_free b = true -> dict_free c = true ->
  py_eq a b = true -> py_eq b c = true -> py_eq a c = true.
Proof. intros _ Hb _. apply py_eq_trans_mid. exact Hb. Qed.

Lemma hashable_dict_free : forall v, py_hashable v = true -> dict_free v = true.
Proof.
  induction v as [ | b0 | z | n m e | s | l IHl | l IHl | d IHd | t | t ] using pyval_ind';
    intros H; try discriminate H; try reflexivity.
  cbn [py_hashable] in H. cbn [dict_free]. rewrite forallb_forall in *. rewrite Forall_forall in IHl.
  intros x Hx. apply IHl; [ exact Hx | apply H; exact Hx ].
Qed.

Lemma dict_free_wf : forall v, dict_free v = true -> wf_val v = true.
Proof.
  induction v as [ | b0 | z | n m e | s | l IHl | l IHl | d IHd | t | t ] using pyval_ind';
    intros H; try discriminate H; try reflexivity.
  - cbn [wf_val]. cbn [dict_free] in H. rewrite forallb_forall in *. rewrite Forall_forall in IHl.
    intros x Hx. apply IHl; [ exact Hx | apply H; exact Hx ].
  - cbn [wf_val]. cbn [dict_free] in H. rewrite forallb_forall in *. rewrite Forall_forall in IHl.
    intros x Hx. apply IHl; [ exact Hx | apply H; exact Hx ].
Qed.

Theorem py_eq_refl_wf : forall v, wf_val v = true -> py_eq v v = true.
Proof.
  induction v as [ | b0 | z | n m e | s | l IHl | l IHl | d IHd | t | t ] using pyval_ind';
    intros Hwf; try reflexivity; try (cbn [py_eq num_of]; apply num_eqb_refl).
  - cbn [py_eq num_of]. apply String.eqb_refl.
  - rewrite py_eq_list_char. cbn [wf_val] in Hwf. rewrite forallb_forall in Hwf. rewrite Forall_forall in IHl.
    apply list_eqb_refl. intros x Hx. apply IHl; [ exact Hx | apply Hwf; exact Hx ].
  - rewrite py_eq_tuple_char. cbn [wf_val] in Hwf. rewrite forallb_forall in Hwf. rewrite Forall_forall in IHl.
    apply list_eqb_refl. intros x Hx. apply IHl; [ exact Hx | apply Hwf; exact Hx ].
  - destruct (wf_dict_split _ Hwf) as [Hent Hkd].
    apply py_eq_dict_true_iff. split; [ reflexivity | ].
    intros k v Hin. exists v.
    destruct (wf_entries_in _ _ _ Hent Hin) as [_ [Hh Hv]].
    split; [ apply dict_look_in; [ exact Hkd | apply py_eq_refl_hashable; exact Hh | exact Hin ] | ].
    rewrite Forall_forall in IHd. apply (IHd _ Hin). exact Hv.
  - cbn [py_eq num_of]. apply pytype_eqb_eq. reflexivity.
  - cbn [py_eq num_of]. apply N.eqb_refl.
Qed.

(* ------------------------------------------------------------------ *)
(* 5. instances, over an abstract domain D of literal values on which == is an equivalence *)

Lemma datum_type_eqb_refl a : datum_type_eqb a a = true.
Proof. destruct a; reflexivity. Qed.
Lemma datum_type_eqb_sym a b : datum_type_eqb a b = datum_type_eqb b a.
Proof. destruct a, b; reflexivity. Qed.
Lemma datum_type_eqb_eq a b : datum_type_eqb a b = true -> a = b.
Proof. destruct a, b; cbn; congruence. Qed.
Lemma multi_type_eqb_refl a : multi_type_eqb a a = true.
Proof. destruct a; reflexivity. Qed.
Lemma multi_type_eqb_sym a b : multi_type_eqb a b = multi_type_eqb b a.
Proof. destruct a, b; reflexivity. Qed.
Lemma multi_type_eqb_eq a b : multi_type_eqb a b = true -> a = b.
Proof. destruct a, b; cbn; congruence. Qed.
Lemma bool_eqb_sym a b : Bool.eqb a b = Bool.eqb b a.
Proof. destruct a, b; reflexivity. Qed.
Lemma castfn_eqb_refl a : castfn_eqb a a = true.
Proof. destruct a; reflexivity. Qed.
Lemma castfn_eqb_sym a b : castfn_eqb a b = castfn_eqb b a.
Proof. destruct a, b; reflexivity. Qed.
Lemma castfn_eqb_trans a b c : castfn_eqb a b = true -> castfn_eqb b c = true -> castfn_eqb a c = true.
Proof. destruct a, b, c; cbn; congruence. Qed.

(* a label / source document that was not given compares like None *)
Definition oval (o : option pyval) : pyval := match o with Some x => x | None => VNone end.
Lemma olabel_eqb_py a b : olabel_eqb a b = py_eq (oval a) (oval b).
Proof. destruct a, b; reflexivity. Qed.
Lemma osrc_eqb_py a b : osrc_eqb a b = py_eq (oval a) (oval b).
Proof. destruct a, b; reflexivity. Qed.

(* casts: a dict from types to cast functions *)
Definition casts_wf (l : list (pytype * castfn)) : Prop := NoDup (map fst l).
Lemma casts_eqb_geqb a b : casts_eqb a b = geqb pytype pytype_eqb castfn castfn_eqb a b.
Proof. reflexivity. Qed.

Theorem casts_eqb_refl a : casts_wf a -> casts_eqb a a = true.
Proof.
  intros H. rewrite casts_eqb_geqb. apply geqb_refl; [ exact pytype_eqb_eq | exact H | ].
  intros v _. apply castfn_eqb_refl.
Qed.
Theorem casts_eqb_sym a b : casts_wf a -> casts_wf b -> casts_eqb a b = casts_eqb b a.
Proof.
  intros Ha Hb. rewrite !casts_eqb_geqb. apply geqb_sym; [ exact pytype_eqb_eq | exact Ha | exact Hb | ].
  intros x y _ _. apply castfn_eqb_sym.
Qed.
Theorem casts_eqb_trans a b c : casts_eqb a b = true -> casts_eqb b c = true -> casts_eqb a c = true.
Proof.
  rewrite !casts_eqb_geqb. apply geqb_trans; [ exact pytype_eqb_eq | ].
  intros x y z _ _ _. apply castfn_eqb_trans.
Qed.

Section Inst.
  Variable D : pyval -> bool.
  Hypothesis D_refl : forall v, D v = true -> py_eq v v = true.
  Hypothesis D_sym : forall a b, D a = true -> D b = true -> py_eq a b = py_eq b a.
  Hypothesis D_trans : forall a b c, D a = true -> D b = true -> D c = true ->
    py_eq a b = true -> py_eq b c = true -> py_eq a c = true.

  (* ---- conditions with literal arguments ---- *)
  Definition cond0_ok (c : cond pyval) : Prop :=
    cond_wf c /\ forall v, In v (cond_args c) -> D v = true.

  Theorem cond0_eqb_refl_D c : cond0_ok c -> cond0_eqb c c = true.
  Proof. intros [Hwf Hd]. apply cond_eqb_refl; [ exact Hwf | ]. intros a Ha. apply D_refl, Hd, Ha. Qed.

  Theorem cond0_eqb_sym_D a b : cond0_ok a -> cond0_ok b -> cond0_eqb a b = cond0_eqb b a.
  Proof. intros [Hwa Hda] [Hwb Hdb]. apply cond_eqb_sym; try assumption. intros u v Hu Hv. apply D_sym; auto. Qed.

  Theorem cond0_eqb_trans_D a b c : cond0_ok a -> cond0_ok b -> cond0_ok c ->
    cond0_eqb a b = true -> cond0_eqb b c = true -> cond0_eqb a c = true.
  Proof.
    intros [_ Hda] [_ Hdb] [_ Hdc]. apply cond_eqb_trans. intros u v w Hu Hv Hw. apply D_trans; auto.
  Qed.

  Theorem cond0_eqb_commute_D o a b : cond0_ok a -> cond0_ok b -> cond0_eqb (CBin o a b) (CBin o b a) = true.
  Proof. intros Ha Hb. apply cond_eqb_commute; apply cond0_eqb_refl_D; assumption. Qed.

  (* ---- labels ---- *)
  Definition olabel_ok (o : option pyval) : Prop := D (oval o) = true.

  (* ---- parts ---- *)
  Definition part_ok (p : part pyval) : Prop :=
    match p with
    | PMap c l | PList c l => cond0_ok c /\ olabel_ok l
    | PMol c lc mc l => cond0_ok c /\ cond0_ok lc /\ cond0_ok mc /\ olabel_ok l
    end.

  Theorem part_eqb_refl_D p : part_ok p -> part_eqb p p = true.
  Proof.
    destruct p as [ c l | c l | c lc mc l ]; cbn [part_ok part_eqb].
    - intros [Hc Hl]. rewrite cond0_eqb_refl_D, olabel_eqb_py, D_refl; auto.
    - intros [Hc Hl]. rewrite cond0_eqb_refl_D, olabel_eqb_py, D_refl; auto.
    - intros [Hc [Hlc [Hmc Hl]]]. rewrite !cond0_eqb_refl_D, olabel_eqb_py, D_refl; auto.
  Qed.

  Theorem part_eqb_sym_D p q : part_ok p -> part_ok q -> part_eqb p q = part_eqb q p.
  Proof.
    destruct p as [ c l | c l | c lc mc l ]; destruct q as [ c' l' | c' l' | c' lc' mc' l' ];
      cbn [part_ok part_eqb]; try reflexivity.
    - intros [Hc Hl] [Hc' Hl']. rewrite (cond0_eqb_sym_D c c'), !olabel_eqb_py, (D_sym (oval l)); auto.
    - intros [Hc Hl] [Hc' Hl']. rewrite (cond0_eqb_sym_D c c'), !olabel_eqb_py, (D_sym (oval l)); auto.
    - intros [Hc [Hlc [Hmc Hl]]] [Hc' [Hlc' [Hmc' Hl']]].
      rewrite (cond0_eqb_sym_D c c'), (cond0_eqb_sym_D lc lc'), (cond0_eqb_sym_D mc mc'),
        !olabel_eqb_py, (D_sym (oval l)); auto.
  Qed.

  Theorem part_eqb_trans_D p q r : part_ok p -> part_ok q -> part_ok r ->
    part_eqb p q = true -> part_eqb q r = true -> part_eqb p r = true.
  Proof.
    destruct p as [ c l | c l | c lc mc l ]; destruct q as [ c' l' | c' l' | c' lc' mc' l' ];
      destruct r as [ c'' l'' | c'' l'' | c'' lc'' mc'' l'' ];
      cbn [part_ok part_eqb]; try discriminate; rewrite ?olabel_eqb_py, ?andb_true_iff.
    - intros [Hc Hl] [Hc' Hl'] [Hc'' Hl''] [E1 E2] [F1 F2]. split.
      + eapply cond0_eqb_trans_D; [ | | | exact E1 | exact F1 ]; assumption.
      + eapply D_trans; [ | | | exact E2 | exact F2 ]; assumption.
    - intros [Hc Hl] [Hc' Hl'] [Hc'' Hl''] [E1 E2] [F1 F2]. split.
      + eapply cond0_eqb_trans_D; [ | | | exact E1 | exact F1 ]; assumption.
      + eapply D_trans; [ | | | exact E2 | exact F2 ]; assumption.
    - intros [Hc [Hlc [Hmc Hl]]] [Hc' [Hlc' [Hmc' Hl']]] [Hc'' [Hlc'' [Hmc'' Hl'']]]
        [[[E1 E2] E3] E4] [[[F1 F2] F3] F4]. repeat split.
      + eapply cond0_eqb_trans_D; [ | | | exact E1 | exact F1 ]; assumption.
      + eapply D_trans; [ | | | exact E2 | exact F2 ]; assumption.
      + eapply cond0_eqb_trans_D; [ | | | exact E3 | exact F3 ]; assumption.
      + eapply cond0_eqb_trans_D; [ | | | exact E4 | exact F4 ]; assumption.
  Qed.

  (* ---- paths ---- *)
  Definition path_ok (p : dpath pyval) : Prop :=
    (forall x, In x (p_parts p) -> part_ok x) /\ olabel_ok (p_src p).

  Theorem path_eqb_refl_D p : path_ok p -> path_eqb p p = true.
  Proof.
    intros [Hp Hs]. unfold path_eqb.
    rewrite list_eqb_refl by (intros x Hx; apply part_eqb_refl_D, Hp, Hx).
    rewrite Bool.eqb_reflx, datum_type_eqb_refl, multi_type_eqb_refl, osrc_eqb_py, D_refl; auto.
  Qed.

  Theorem path_eqb_sym_D p q : path_ok p -> path_ok q -> path_eqb p q = path_eqb q p.
  Proof.
    intros [Hp Hs] [Hq Ht]. unfold path_eqb.
    rewrite (list_eqb_sym part_eqb (p_parts p) (p_parts q))
      by (intros x y Hx Hy; apply part_eqb_sym_D; auto).
    rewrite (bool_eqb_sym (p_concrete p)), (datum_type_eqb_sym (p_dt p)), (multi_type_eqb_sym (p_mt p)),
      !osrc_eqb_py, (D_sym (oval (p_src p))); auto.
  Qed.

  Theorem path_eqb_trans_D p q r : path_ok p -> path_ok q -> path_ok r ->
    path_eqb p q = true -> path_eqb q r = true -> path_eqb p r = true.
  Proof.
    intros [Hp Hs] [Hq Ht] [Hr Hu]. unfold path_eqb. rewrite !osrc_eqb_py, !andb_true_iff.
    intros [[[[E1 E2] E3] E4] E5] [[[[F1 F2] F3] F4] F5].
    apply Bool.eqb_prop in E2, F2. apply datum_type_eqb_eq in E3, F3. apply multi_type_eqb_eq in E4, F4.
    repeat split.
    - eapply list_eqb_trans; [ | exact E1 | exact F1 ].
      intros x y z Hx Hy Hz. apply part_eqb_trans_D; auto.
    - rewrite E2, F2. apply Bool.eqb_reflx.
    - rewrite E3, F3. apply datum_type_eqb_refl.
    - rewrite E4, F4. apply multi_type_eqb_refl.
    - eapply D_trans; [ | | | exact E5 | exact F5 ]; assumption.
  Qed.

  (* ---- rule conditions: arguments are literals or data paths ---- *)
  Variable T : tables.

  (* a data-path argument is compared through the path object it builds *)
  Definition arg1_ok (a : arg1) : Prop :=
    match a with
    | ALit v => D v = true
    | APath _ p => forall x, mk_path T (fun v : pyval => v) p = Ok x -> path_ok x
    end.
  Definition arg1_buildable (a : arg1) : Prop :=
    match a with
    | ALit _ => True
    | APath _ p => exists x, mk_path T (fun v : pyval => v) p = Ok x
    end.

  Theorem arg1_eqb_refl_D a : arg1_ok a -> arg1_buildable a -> arg1_eqb T a a = true.
  Proof.
    destruct a as [ v | tag p ]; cbn [arg1_ok arg1_buildable arg1_eqb].
    - intros Hd _. apply D_refl, Hd.
    - intros Hok [x Hx]. rewrite Hx. apply path_eqb_refl_D, Hok, Hx.
  Qed.

  Theorem arg1_eqb_sym_D a b : arg1_ok a -> arg1_ok b -> arg1_eqb T a b = arg1_eqb T b a.
  Proof.
    destruct a as [ v | tag p ]; destruct b as [ w | tag' q ]; cbn [arg1_ok arg1_eqb]; try reflexivity.
    - intros Hv Hw. apply D_sym; assumption.
    - intros Hp Hq.
      destruct (mk_path T (fun v : pyval => v) p) as [ x | e ]; destruct (mk_path T (fun v : pyval => v) q) as [ y | e' ];
        try reflexivity.
      apply path_eqb_sym_D; auto.
  Qed.

  Theorem arg1_eqb_trans_D a b c : arg1_ok a -> arg1_ok b -> arg1_ok c ->
    arg1_eqb T a b = true -> arg1_eqb T b c = true -> arg1_eqb T a c = true.
  Proof.
    destruct a as [ v | tag p ]; destruct b as [ w | tag' q ]; destruct c as [ u | tag'' r ];
      cbn [arg1_ok arg1_eqb]; try discriminate.
    - intros Hv Hw Hu. apply D_trans; assumption.
    - intros Hp Hq Hr.
      destruct (mk_path T (fun v : pyval => v) p) as [ x | e ]; [ | discriminate ].
      destruct (mk_path T (fun v : pyval => v) q) as [ y | e' ]; [ | discriminate ].
      destruct (mk_path T (fun v : pyval => v) r) as [ z | e'' ]; [ | discriminate ].
      apply path_eqb_trans_D; auto.
  Qed.

  Definition cond1_ok (c : cond arg1) : Prop :=
    cond_wf c /\ forall a, In a (cond_args c) -> arg1_ok a.
  (* every data-path argument of the condition is a path object that could be built *)
  Definition path_args_buildable (c : cond arg1) : Prop :=
    forall a, In a (cond_args c) -> arg1_buildable a.

  Theorem cond1_eqb_refl_D c : cond1_ok c -> path_args_buildable c -> cond1_eqb T c c = true.
  Proof.
    intros [Hwf Hd] Hb. apply cond_eqb_refl; [ exact Hwf | ]. intros a Ha. apply arg1_eqb_refl_D; auto.
  Qed.

  Theorem cond1_eqb_sym_D a b : cond1_ok a -> cond1_ok b -> cond1_eqb T a b = cond1_eqb T b a.
  Proof.
    intros [Hwa Hda] [Hwb Hdb]. apply cond_eqb_sym; try assumption. intros u v Hu Hv. apply arg1_eqb_sym_D; auto.
  Qed.

  Theorem cond1_eqb_trans_D a b c : cond1_ok a -> cond1_ok b -> cond1_ok c ->
    cond1_eqb T a b = true -> cond1_eqb T b c = true -> cond1_eqb T a c = true.
  Proof.
    intros [_ Hda] [_ Hdb] [_ Hdc]. apply cond_eqb_trans. intros u v w Hu Hv Hw. apply arg1_eqb_trans_D; auto.
  Qed.

  Theorem cond1_eqb_commute_D o a b : cond1_ok a -> cond1_ok b -> path_args_buildable a -> path_args_buildable b ->
    cond1_eqb T (CBin o a b) (CBin o b a) = true.
  Proof. intros Ha Hb Ba Bb. apply cond_eqb_commute; apply cond1_eqb_refl_D; assumption. Qed.

  (* ---- rules ---- *)
  Definition rule_ok (r : rule) : Prop :=
    path_ok (r_path r) /\ cond1_ok (r_cond r) /\ casts_wf (r_cast r).

  Theorem rule_eqb_refl_D r g : rule_ok r -> path_args_buildable (r_cond r) -> rule_eqb T r r g g = true.
  Proof.
    intros [Hp [Hc Hk]] Hb. unfold rule_eqb.
    rewrite path_eqb_refl_D, cond1_eqb_refl_D, casts_eqb_refl, Bool.eqb_reflx; auto.
  Qed.

  Theorem rule_eqb_sym_D a b ga gb : rule_ok a -> rule_ok b -> rule_eqb T a b ga gb = rule_eqb T b a gb ga.
  Proof.
    intros [Hp [Hc Hk]] [Hp' [Hc' Hk']]. unfold rule_eqb.
    rewrite (path_eqb_sym_D (r_path a)), (cond1_eqb_sym_D (r_cond a)), (casts_eqb_sym (r_cast a)), (bool_eqb_sym ga); auto.
  Qed.

  Theorem rule_eqb_trans_D a b c ga gb gc : rule_ok a -> rule_ok b -> rule_ok c ->
    rule_eqb T a b ga gb = true -> rule_eqb T b c gb gc = true -> rule_eqb T a c ga gc = true.
  Proof.
    intros [Hp [Hc Hk]] [Hp' [Hc' Hk']] [Hp'' [Hc'' Hk'']]. unfold rule_eqb. rewrite !andb_true_iff.
    intros [[[E1 E2] E3] E4] [[[F1 F2] F3] F4]. apply Bool.eqb_prop in E4, F4. repeat split.
    - eapply path_eqb_trans_D; [ | | | exact E1 | exact F1 ]; assumption.
    - eapply cond1_eqb_trans_D; [ | | | exact E2 | exact F2 ]; assumption.
    - eapply casts_eqb_trans; eassumption.
    - rewrite E4, F4. apply Bool.eqb_reflx.
  Qed.

  (* ---- rebuilt copies ---- *)
  Theorem C14_rebuild_D t c c' : build1 T t = Ok c -> build1 T t = Ok c' ->
    cond1_ok c -> path_args_buildable c -> cond1_eqb T c c' = true.
  Proof. intros H1 H2 Hok Hb. rewrite H1 in H2. inversion H2; subst c'. apply cond1_eqb_refl_D; assumption. Qed.
End Inst.

(* ------------------------------------------------------------------ *)
(* 6. == is symmetric and transitive on all well-formed values (dicts included) *)

Lemma list_eqb_sym_imp {X} (f : X -> X -> bool) : forall a b,
  (forall x y, In x a -> In y b -> f x y = true -> f y x = true) ->
  list_eqb f a b = true -> list_eqb f b a = true.
Proof.
  induction a as [ | x a IH ]; intros [ | y b ] H Hab; cbn in *; try discriminate; try reflexivity.
  apply andb_true_iff in Hab. destruct Hab as [Hxy Hab]. apply andb_true_iff. split.
  - apply H; auto.
  - apply IH; [ | exact Hab ]. intros u v Hu Hv. apply H; right; assumption.
Qed.

(* an injective total relation between lists of equal length is onto *)
Lemma pigeon_rel {X Y} (R : X -> Y -> Prop) : forall (l1 : list X) (l2 : list Y),
  NoDup l1 -> List.length l1 = List.length l2 ->
  (forall x, In x l1 -> exists y, In y l2 /\ R x y) ->
  (forall x x' y, In x l1 -> In x' l1 -> In y l2 -> R x y -> R x' y -> x = x') ->
  forall y, In y l2 -> exists x, In x l1 /\ R x y.
Proof.
  induction l1 as [ | x l1 IH ]; intros l2 Hnd Hlen Htot Hinj y Hy.
  - destruct l2; [ contradiction | discriminate ].
  - inversion Hnd as [ | ? ? Hnotin Hnd' ]; subst.
    destruct (Htot x (or_introl eq_refl)) as [y0 [Hy0 Rxy0]].
    destruct (in_split _ _ Hy0) as [la [lb Hl2]]. subst l2.
    assert (Hlen' : List.length l1 = List.length (la ++ lb)).
    { rewrite app_length in *. cbn in Hlen. lia. }
    assert (Hsub : forall z, In z (la ++ lb) -> In z (la ++ y0 :: lb)).
    { intros z Hz. apply in_app_or in Hz. apply in_or_app. destruct Hz; [ left | right; right ]; assumption. }
    assert (IH' := IH (la ++ lb) Hnd' Hlen').
    assert (Htot' : forall x', In x' l1 -> exists y', In y' (la ++ lb) /\ R x' y').
    { intros x' Hx'. destruct (Htot x' (or_intror Hx')) as [y' [Hy' Rx'y']].
      exists y'. split; [ | exact Rx'y' ].
      apply in_app_or in Hy'. apply in_or_app. destruct Hy' as [ Hy' | [ Heq | Hy' ] ]; [ left; exact Hy' | | right; exact Hy' ].
      subst y'. exfalso. apply Hnotin.
      rewrite (Hinj x x' y0); [ exact Hx' | left; reflexivity | right; exact Hx' | exact Hy0 | exact Rxy0 | exact Rx'y' ]. }
    assert (Hinj' : forall x1 x2 y', In x1 l1 -> In x2 l1 -> In y' (la ++ lb) -> R x1 y' -> R x2 y' -> x1 = x2).
    { intros x1 x2 y' H1 H2 H3. apply Hinj; [ right; exact H1 | right; exact H2 | apply Hsub; exact H3 ]. }
    apply in_app_or in Hy. destruct Hy as [ Hy | [ Heq | Hy ] ].
    + destruct (IH' Htot' Hinj' y) as [x' [Hx' Rx']]; [ apply in_or_app; left; exact Hy | ].
      exists x'. split; [ right; exact Hx' | exact Rx' ].
    + subst y. exists x. split; [ left; reflexivity | exact Rxy0 ].
    + destruct (IH' Htot' Hinj' y) as [x' [Hx' Rx']]; [ apply in_or_app; right; exact Hy | ].
      exists x'. split; [ right; exact Hx' | exact Rx' ].
Qed.

(* two entries of a dict whose keys are == are the same entry *)
Lemma keys_distinct_same : forall d : list (pyval * pyval), keys_distinct (map fst d) = true ->
  forall e e', In e d -> In e' d -> py_eq (fst e) (fst e') = true -> e = e'.
Proof.
  induction d as [ | e0 r IH ]; intros Hkd e e' He He' Heq; [ contradiction | ].
  cbn [map keys_distinct] in Hkd. rewrite !andb_true_iff, !negb_true_iff in Hkd. destruct Hkd as [[H1 H2] Hr].
  destruct He as [ He | He ]; destruct He' as [ He' | He' ].
  - congruence.
  - subst e. exfalso. assert (Hex : existsb (py_eq (fst e0)) (map fst r) = true).
    { apply existsb_exists. exists (fst e'). split; [ apply in_map; exact He' | exact Heq ]. }
    congruence.
  - subst e'. exfalso. assert (Hex : existsb (fun k2 => py_eq k2 (fst e0)) (map fst r) = true).
    { apply existsb_exists. exists (fst e). split; [ apply in_map; exact He | exact Heq ]. }
    congruence.
  - apply IH; assumption.
Qed.

(* looking up a key that is == to exactly the key k1 (up to ==) finds k1's entry *)
Lemma dict_look_unique : forall (d : list (pyval * pyval)) k k1 v1, keys_distinct (map fst d) = true ->
  In (k1, v1) d -> py_eq k k1 = true ->
  (forall k', In k' (map fst d) -> py_eq k k' = true -> py_eq k' k1 = true) ->
  dict_look k d = Some v1.
Proof.
  induction d as [ | [k0 v0] r IH ]; intros k k1 v1 Hkd Hin Hk Hall; [ contradiction | ].
  cbn [map fst keys_distinct] in Hkd. rewrite !andb_true_iff, !negb_true_iff in Hkd. destruct Hkd as [[H1 H2] Hr].
  cbn [dict_look]. destruct (py_eq k k0) eqn:E.
  - destruct Hin as [ Heq | Hin ]; [ inversion Heq; reflexivity | ].
    exfalso. assert (Hex : existsb (py_eq k0) (map fst r) = true).
    { apply existsb_exists. exists k1. split.
      - apply in_map_iff. exists (k1, v1). split; [ reflexivity | exact Hin ].
      - apply Hall; [ left; reflexivity | exact E ]. }
    congruence.
  - destruct Hin as [ Heq | Hin ]; [ inversion Heq; subst; congruence | ].
    apply (IH k k1 v1); try assumption. intros k' Hk'. apply Hall. right. exact Hk'.
Qed.

Lemma wf_dict_keys_NoDup d : wf_val (VDict d) = true -> NoDup d.
Proof.
  intros Hwf. destruct (wf_dict_split _ Hwf) as [Hent Hkd].
  apply (NoDup_map_inv fst). apply keys_distinct_NoDup; [ exact Hkd | ].
  intros k Hk. apply in_map_iff in Hk. destruct Hk as [[k' v] [Hk Hin]]. cbn in Hk. subst k'.
  apply py_eq_refl_hashable. eapply wf_entries_in; eauto.
Qed.

Lemma wf_key_df d k v : wf_val (VDict d) = true -> In (k, v) d -> dict_free k = true.
Proof.
  intros Hwf Hin. destruct (wf_dict_split _ Hwf) as [Hent _].
  apply hashable_dict_free. eapply wf_entries_in; eauto.
Qed.

Lemma wf_val_in d k v : wf_val (VDict d) = true -> In (k, v) d -> wf_val v = true.
Proof. intros Hwf Hin. destruct (wf_dict_split _ Hwf) as [Hent _]. eapply wf_entries_in; eauto. Qed.

Lemma py_eq_sym_wf_imp : forall a b, wf_val a = true -> wf_val b = true ->
  py_eq a b = true -> py_eq b a = true.
Proof.
  induction a as [ | b0 | z | n m e | s | l IHl | l IHl | d1 IHd | t | t ] using pyval_ind';
    intros b Hwa Hwb Hab;
    try (rewrite <- py_eq_sym_df by reflexivity; exact Hab).
  - destruct b as [ | | | | | r | | | | ]; try (cbn [py_eq num_of] in Hab; discriminate Hab).
    rewrite py_eq_list_char in *. cbn [wf_val] in Hwa, Hwb. rewrite forallb_forall in Hwa, Hwb.
    rewrite Forall_forall in IHl. revert Hab. apply list_eqb_sym_imp.
    intros x y Hx Hy. apply IHl; auto.
  - destruct b as [ | | | | | | r | | | ]; try (cbn [py_eq num_of] in Hab; discriminate Hab).
    rewrite py_eq_tuple_char in *. cbn [wf_val] in Hwa, Hwb. rewrite forallb_forall in Hwa, Hwb.
    rewrite Forall_forall in IHl. revert Hab. apply list_eqb_sym_imp.
    intros x y Hx Hy. apply IHl; auto.
  - destruct b as [ | | | | | | | d2 | | ]; try (cbn [py_eq num_of] in Hab; discriminate Hab).
    rewrite Forall_forall in IHd.
    apply py_eq_dict_true_iff in Hab. destruct Hab as [Hlen Hf].
    destruct (wf_dict_split _ Hwa) as [Hent1 Hkd1]. destruct (wf_dict_split _ Hwb) as [Hent2 Hkd2].
    (* every key of d2 is == to a key of d1 *)
    assert (Honto : forall e2, In e2 d2 -> exists e1, In e1 d1 /\ py_eq (fst e1) (fst e2) = true).
    { apply pigeon_rel; [ apply wf_dict_keys_NoDup; exact Hwa | exact Hlen | | ].
      - intros [k1 v1] Hin1. destruct (Hf _ _ Hin1) as [v' [Hlook _]].
        destruct (dict_look_some _ _ _ Hlook) as [k2 [Hin2 Hk]]. exists (k2, v'). split; assumption.
      - intros [k1 v1] [k1' v1'] [k2 v2] Hin1 Hin1' Hin2 Hk Hk'. cbn [fst] in Hk, Hk'.
        apply (keys_distinct_same _ Hkd1); try assumption. cbn [fst].
        apply (py_eq_trans_mid k1 k2 k1'); [ exact (wf_key_df d2 k2 v2 Hwb Hin2) | exact Hk | ].
        rewrite <- (py_eq_sym_df k1' k2) by exact (wf_key_df d1 k1' v1' Hwa Hin1'). exact Hk'. }
    apply py_eq_dict_true_iff. split; [ symmetry; exact Hlen | ].
    intros k2 v2 Hin2. destruct (Honto _ Hin2) as [[k1 v1] [Hin1 Hk]]. cbn [fst] in Hk.
    assert (Hdf1 : dict_free k1 = true) by exact (wf_key_df d1 k1 v1 Hwa Hin1).
    assert (Hdf2 : dict_free k2 = true) by exact (wf_key_df d2 k2 v2 Hwb Hin2).
    exists v1. split.
    + apply (dict_look_unique d1 k2 k1 v1); [ exact Hkd1 | exact Hin1 | rewrite (py_eq_sym_df k2 k1 Hdf2); exact Hk | ].
      intros k' Hk' Hk2k'. apply (py_eq_trans_mid k' k2 k1 Hdf2); [ | rewrite (py_eq_sym_df k2 k1 Hdf2); exact Hk ].
      rewrite <- (py_eq_sym_df k2 k' Hdf2). exact Hk2k'.
    + destruct (Hf _ _ Hin1) as [v' [Hlook Hv]].
      destruct (dict_look_some _ _ _ Hlook) as [k2' [Hin2' Hk1k2']].
      assert (Hsame : (k2', v') = (k2, v2)).
      { apply (keys_distinct_same _ Hkd2); try assumption. cbn [fst].
        apply (py_eq_trans_mid k2' k1 k2 Hdf1); [ | exact Hk ].
        rewrite <- (py_eq_sym_df k1 k2' Hdf1). exact Hk1k2'. }
      inversion Hsame; subst k2' v'.
      apply (IHd _ Hin1); [ exact (wf_val_in d1 k1 v1 Hwa Hin1) | exact (wf_val_in d2 k2 v2 Hwb Hin2) | exact Hv ].
Qed.

Theorem py_eq_sym_wf a b : wf_val a = true -> wf_val b = true -> py_eq a b = py_eq b a.
Proof. intros Ha Hb. apply bool_eq_of_imp; apply py_eq_sym_wf_imp; assumption. Qed.

Theorem py_eq_trans_wf : forall a b c, wf_val a = true -> wf_val b = true -> wf_val c = true ->
  py_eq a b = true -> py_eq b c = true -> py_eq a c = true.
Proof.
  induction a as [ | b0 | z | n m e | s | l IHl | l IHl | d1 IHd | t | t ] using pyval_ind';
    intros b c Hwa Hwb Hwc Hab Hbc.
  1-5, 9-10: (apply (py_eq_trans_mid _ b c); [ | exact Hab | exact Hbc ];
              destruct b; try reflexivity; cbn [py_eq num_of] in Hab; discriminate Hab).
  - destruct b as [ | | | | | lb | | | | ]; try (cbn [py_eq num_of] in Hab; discriminate Hab).
    destruct c as [ | | | | | lc | | | | ]; try (cbn [py_eq num_of] in Hbc; discriminate Hbc).
    rewrite py_eq_list_char in *. cbn [wf_val] in Hwa, Hwb, Hwc. rewrite forallb_forall in Hwa, Hwb, Hwc.
    rewrite Forall_forall in IHl. eapply list_eqb_trans; [ | exact Hab | exact Hbc ].
    intros x y w Hx Hy Hw. apply IHl; auto.
  - destruct b as [ | | | | | | lb | | | ]; try (cbn [py_eq num_of] in Hab; discriminate Hab).
    destruct c as [ | | | | | | lc | | | ]; try (cbn [py_eq num_of] in Hbc; discriminate Hbc).
    rewrite py_eq_tuple_char in *. cbn [wf_val] in Hwa, Hwb, Hwc. rewrite forallb_forall in Hwa, Hwb, Hwc.
    rewrite Forall_forall in IHl. eapply list_eqb_trans; [ | exact Hab | exact Hbc ].
    intros x y w Hx Hy Hw. apply IHl; auto.
  - destruct b as [ | | | | | | | d2 | | ]; try (cbn [py_eq num_of] in Hab; discriminate Hab).
    destruct c as [ | | | | | | | d3 | | ]; try (cbn [py_eq num_of] in Hbc; discriminate Hbc).
    rewrite Forall_forall in IHd.
    apply py_eq_dict_true_iff in Hab. destruct Hab as [Hlen1 Hf1].
    apply py_eq_dict_true_iff in Hbc. destruct Hbc as [Hlen2 Hf2].
    destruct (wf_dict_split _ Hwc) as [Hent3 Hkd3].
    apply py_eq_dict_true_iff. split; [ congruence | ].
    intros k1 v1 Hin1.
    destruct (Hf1 _ _ Hin1) as [v2 [Hlook2 Hv12]].
    destruct (dict_look_some _ _ _ Hlook2) as [k2 [Hin2 Hk12]].
    destruct (Hf2 _ _ Hin2) as [v3 [Hlook3 Hv23]].
    destruct (dict_look_some _ _ _ Hlook3) as [k3 [Hin3 Hk23]].
    assert (Hdf1 : dict_free k1 = true) by exact (wf_key_df d1 k1 v1 Hwa Hin1).
    assert (Hdf2 : dict_free k2 = true) by exact (wf_key_df d2 k2 v2 Hwb Hin2).
    assert (Hk13 : py_eq k1 k3 = true) by (apply (py_eq_trans_mid k1 k2 k3 Hdf2); assumption).
    exists v3. split.
    + apply (dict_look_unique d3 k1 k3 v3); [ exact Hkd3 | exact Hin3 | exact Hk13 | ].
      intros k' Hk' Hk1k'. apply (py_eq_trans_mid k' k1 k3 Hdf1); [ | exact Hk13 ].
      rewrite <- (py_eq_sym_df k1 k' Hdf1). exact Hk1k'.
    + apply (proj2 (IHd _ Hin1) v2 v3); [ exact (wf_val_in d1 k1 v1 Hwa Hin1) | exact (wf_val_in d2 k2 v2 Hwb Hin2) | exact (wf_val_in d3 k3 v3 Hwc Hin3) | exact Hv12 | exact Hv23 ].
Qed.

(* ------------------------------------------------------------------ *)
(* 7. the arguments stored by a DSL constructor are the caller's arguments or literal defaults;
      hence a condition that build1 accepts has only buildable data-path arguments *)

Section CtorArgs.
  Variable A : Type.
  Variable lit : pyval -> A.
  Variable P : A -> Prop.
  Hypothesis P_lit : forall d, P (lit d).

  Lemma cbind_pos_P : forall params pos e rest extra, Forall P pos ->
    cbind_pos A params pos = (e, rest, extra) -> Forall P (map snd e) /\ Forall P extra.
  Proof.
    induction params as [ | [p d] ps IH ]; intros pos e rest extra Hpos H; cbn [cbind_pos] in H.
    - inversion H; subst. split; [ constructor | exact Hpos ].
    - destruct pos as [ | v vs ].
      + inversion H; subst. split; constructor.
      + destruct (cbind_pos A ps vs) as [[e' rest'] extra'] eqn:E. inversion H; subst.
        inversion Hpos as [ | ? ? Hv Hvs ]; subst.
        destruct (IH _ _ _ _ Hvs E) as [He Hx]. split; [ constructor; assumption | exact Hx ].
  Qed.

  Lemma cbind_kw_P : forall params kw missing hk e extra e' m' x',
    Forall P (map snd kw) -> Forall P (map snd e) -> Forall P (map snd extra) ->
    cbind_kw A params missing hk kw e extra = Ok (e', m', x') ->
    Forall P (map snd e') /\ Forall P (map snd x').
  Proof.
    induction kw as [ | [k v] r IH ]; intros missing hk e extra e' m' x' Hkw He Hx H; cbn [cbind_kw] in H.
    - inversion H; subst. split; assumption.
    - cbn [map snd] in Hkw. inversion Hkw as [ | ? ? Hv Hr ]; subst.
      destruct (existsb (fun m => String.eqb k (fst m)) missing).
      + eapply IH; [ exact Hr | | exact Hx | exact H ]. cbn [map snd]. constructor; assumption.
      + destruct (existsb (String.eqb k) params); [ discriminate | ].
        destruct hk; [ | discriminate ].
        eapply IH; [ exact Hr | exact He | | exact H ].
        rewrite map_app. apply Forall_app. split; [ exact Hx | cbn; constructor; [ exact Hv | constructor ] ].
  Qed.

  Lemma fill_defaults_P : forall missing e e', Forall P (map snd e) ->
    fill_defaults A lit missing e = Ok e' -> Forall P (map snd e').
  Proof.
    induction missing as [ | [p [d | ]] r IH ]; intros e e' He H; cbn [fill_defaults] in H.
    - inversion H; subst. exact He.
    - eapply IH; [ | exact H ]. cbn [map snd]. constructor; [ apply P_lit | exact He ].
    - discriminate.
  Qed.

  Lemma aget_P : forall e p v, Forall P (map snd e) -> aget A p e = Some v -> P v.
  Proof.
    induction e as [ | [y w] r IH ]; intros p v He H; cbn [aget] in H; [ discriminate | ].
    cbn [map snd] in He. inversion He as [ | ? ? Hw Hr ]; subst.
    destruct (String.eqb p y); [ inversion H; subst; exact Hw | eapply IH; eauto ].
  Qed.

  Definition store_go (e2 : list (string * A)) (extra_pos : list A) (extra_kw : list (string * A)) :=
    fix go (st : list store) (args : list A) (kws : list (string * A)) : res (list A * list (string * A)) :=
      match st with
      | [] => Ok (args, kws)
      | StPos p :: r => match aget A p e2 with Some v => go r (args ++ [v]) kws | None => Err OtherExc end
      | StKw k p :: r => match aget A p e2 with Some v => go r args (kws ++ [(k, v)]) | None => Err OtherExc end
      | StStar _ :: r => go r (args ++ extra_pos) kws
      | StDStar _ :: r => go r args (kws ++ extra_kw)
      end.

  Lemma store_go_P e2 xp xk : Forall P (map snd e2) -> Forall P xp -> Forall P (map snd xk) ->
    forall st args kws args' kws', Forall P args -> Forall P (map snd kws) ->
    store_go e2 xp xk st args kws = Ok (args', kws') -> Forall P args' /\ Forall P (map snd kws').
  Proof.
    intros He Hxp Hxk. induction st as [ | s r IH ]; intros args kws args' kws' Ha Hk H; cbn [store_go] in H.
    - inversion H; subst. split; assumption.
    - destruct s as [ p | k p | p | p ].
      + destruct (aget A p e2) as [ v | ] eqn:E; [ | discriminate ].
        eapply IH; [ | exact Hk | exact H ]. apply Forall_app. split; [ exact Ha | ].
        constructor; [ exact (aget_P e2 p v He E) | constructor ].
      + destruct (aget A p e2) as [ v | ] eqn:E; [ | discriminate ].
        eapply IH; [ exact Ha | | exact H ]. rewrite map_app. apply Forall_app. split; [ exact Hk | ].
        cbn. constructor; [ exact (aget_P e2 p v He E) | constructor ].
      + eapply IH; [ | exact Hk | exact H ]. apply Forall_app. split; assumption.
      + eapply IH; [ exact Ha | | exact H ]. rewrite map_app. apply Forall_app. split; assumption.
  Qed.

  Lemma apply_ctor_P c pos kw args kws : Forall P pos -> Forall P (map snd kw) ->
    apply_ctor lit c pos kw = Ok (args, kws) -> Forall P args /\ Forall P (map snd kws).
  Proof.
    intros Hpos Hkw H. unfold apply_ctor in H.
    destruct (cbind_pos A (c_params c) pos) as [[e0 missing] extra_pos] eqn:E0.
    destruct (cbind_pos_P _ _ _ _ _ Hpos E0) as [He0 Hxp].
    match type of H with bind ?r _ = _ => destruct r as [ [] | ]; [ | discriminate H ] end.
    cbn [bind] in H.
    match type of H with bind ?r _ = _ => destruct r as [ [[e1 missing'] extra_kw] | ] eqn:E1; [ | discriminate H ] end.
    cbn [bind] in H.
    assert (Hnil : Forall P (map snd (@nil (string * A)))) by constructor.
    destruct (cbind_kw_P _ _ _ _ _ _ _ _ _ Hkw He0 Hnil E1) as [He1 Hxk].
    destruct (fill_defaults A lit missing' e1) as [ e2 | ] eqn:E2; [ | discriminate H ].
    cbn [bind] in H.
    pose proof (fill_defaults_P _ _ _ He1 E2) as He2.
    change (store_go e2 extra_pos extra_kw (c_store c) [] [] = Ok (args, kws)) in H.
    eapply store_go_P; [ exact He2 | exact Hxp | exact Hxk | | | exact H ]; constructor.
  Qed.
End CtorArgs.

Lemma build_leaf_P T A (lit : pyval -> A) (P : A -> Prop) cls m pos kw l :
  (forall d, P (lit d)) -> Forall P pos -> Forall P (map snd kw) ->
  build_leaf T lit cls m pos kw = Ok l -> Forall P (leaf_args l).
Proof.
  intros Hlit Hpos Hkw H. unfold build_leaf in H.
  destruct (find_class (t_classes T) cls) as [ k | ]; [ | discriminate ].
  destruct (find_ctor T k m) as [ c | ]; [ | discriminate ].
  destruct (apply_ctor lit c pos kw) as [ [args kws] | ] eqn:E; [ | discriminate ].
  cbn [bind] in H. inversion H; subst. unfold leaf_args. cbn [l_args l_kwargs].
  destruct (apply_ctor_P A lit P Hlit c pos kw args kws Hpos Hkw E) as [Ha Hk].
  apply Forall_app. split; assumption.
Qed.

Lemma mk_bin_P A (P : A -> Prop) o (x y c : cond A) :
  Forall P (cond_args x) -> Forall P (cond_args y) -> mk_bin o x y = Ok c -> Forall P (cond_args c).
Proof.
  intros Hx Hy H. unfold mk_bin in H.
  destruct (is_null y); [ inversion H; subst; exact Hx | ].
  destruct (is_null x); [ inversion H; subst; exact Hy | ].
  match type of H with (if ?b then _ else _) = _ => destruct b end; [ discriminate | ].
  inversion H; subst. cbn [cond_args]. apply Forall_app. split; assumption.
Qed.

Lemma check_args_buildable T : forall pos, check_args T pos = Ok tt -> Forall (arg1_buildable T) pos.
Proof.
  induction pos as [ | a r IH ]; intros H; [ constructor | ].
  cbn [check_args] in H. destruct (check_arg T a) as [ [] | ] eqn:E; [ | discriminate ].
  cbn [bind] in H. constructor; [ | apply IH; exact H ].
  destruct a as [ v | tag p ]; cbn [arg1_buildable]; [ exact I | ].
  cbn [check_arg] in E. unfold id0 in E.
  destruct (mk_path T (fun v : pyval => v) p) as [ x | ]; [ exists x; reflexivity | discriminate ].
Qed.

Lemma check_kw_buildable T : forall kw, check_kw T kw = Ok tt -> Forall (arg1_buildable T) (map snd kw).
Proof.
  induction kw as [ | [k a] r IH ]; intros H; [ constructor | ].
  cbn [check_kw] in H. destruct (check_arg T a) as [ [] | ] eqn:E; [ | discriminate ].
  cbn [bind] in H. cbn [map snd]. constructor; [ | apply IH; exact H ].
  destruct a as [ v | tag p ]; cbn [arg1_buildable]; [ exact I | ].
  cbn [check_arg] in E. unfold id0 in E.
  destruct (mk_path T (fun v : pyval => v) p) as [ x | ]; [ exists x; reflexivity | discriminate ].
Qed.

Theorem build1_buildable T : forall t c, build1 T t = Ok c -> path_args_buildable T c.
Proof.
  assert (G : forall t c, build1 T t = Ok c -> Forall (arg1_buildable T) (cond_args c)).
  { induction t as [ cls m pos kw | | o a IHa b IHb ]; intros c H; cbn [build1] in H.
    - destruct (check_args T pos) as [ [] | ] eqn:E1; [ | discriminate ]. cbn [bind] in H.
      destruct (check_kw T kw) as [ [] | ] eqn:E2; [ | discriminate ]. cbn [bind] in H.
      destruct (build_leaf T (lit1) cls m pos kw) as [ l | ] eqn:E3; [ | discriminate ]. cbn [bind] in H.
      inversion H; subst. cbn [cond_args].
      eapply build_leaf_P; [ | | | exact E3 ].
      + intros d. exact I.
      + apply check_args_buildable. exact E1.
      + apply check_kw_buildable. exact E2.
    - inversion H; subst. constructor.
    - destruct (build1 T a) as [ x | ] eqn:Ea; [ | discriminate ]. cbn [bind] in H.
      destruct (build1 T b) as [ y | ] eqn:Eb; [ | discriminate ]. cbn [bind] in H.
      eapply mk_bin_P; [ | | exact H ]; auto. }
  intros t c H a Ha. specialize (G t c H). rewrite Forall_forall in G. apply G. exact Ha.
Qed.

(* ------------------------------------------------------------------ *)
(* 8. schemas.  Eq.v has no schema equality; Schema.__eq__ compares the (sorted) rule lists
      element-wise with Rule.__eq__ (and rule_tests, which is None until validate is called).
      A rule is paired with the given-ness of its cast, as in rule_eqb. *)

Definition schema_eqb (T : tables) (a b : list (rule * bool)) : bool :=
  list_eqb (fun x y => rule_eqb T (fst x) (fst y) (snd x) (snd y)) a b.

Section SchemaInst.
  Variable D : pyval -> bool.
  Hypothesis D_refl : forall v, D v = true -> py_eq v v = true.
  Hypothesis D_sym : forall a b, D a = true -> D b = true -> py_eq a b = py_eq b a.
  Hypothesis D_trans : forall a b c, D a = true -> D b = true -> D c = true ->
    py_eq a b = true -> py_eq b c = true -> py_eq a c = true.
  Variable T : tables.

  Definition schema_ok (s : list (rule * bool)) : Prop := forall x, In x s -> rule_ok D T (fst x).
  Definition schema_buildable (s : list (rule * bool)) : Prop :=
    forall x, In x s -> path_args_buildable T (r_cond (fst x)).

  Theorem schema_eqb_refl_D s : schema_ok s -> schema_buildable s -> schema_eqb T s s = true.
  Proof.
    intros Hok Hb. apply list_eqb_refl. intros x Hx. apply (rule_eqb_refl_D D D_refl); auto.
  Qed.
  Theorem schema_eqb_sym_D a b : schema_ok a -> schema_ok b -> schema_eqb T a b = schema_eqb T b a.
  Proof.
    intros Ha Hb. apply list_eqb_sym. intros x y Hx Hy. apply (rule_eqb_sym_D D D_sym); auto.
  Qed.
  Theorem schema_eqb_trans_D a b c : schema_ok a -> schema_ok b -> schema_ok c ->
    schema_eqb T a b = true -> schema_eqb T b c = true -> schema_eqb T a c = true.
  Proof.
    intros Ha Hb Hc. apply list_eqb_trans. intros x y z Hx Hy Hz. apply (rule_eqb_trans_D D D_trans); auto.
  Qed.
End SchemaInst.

(* ------------------------------------------------------------------ *)
(* 9. C14 on well-formed Python values (D := wf_val): the literal arguments, labels and source
      documents are arbitrary well-formed values, dicts included *)

Notation WF := wf_val (only parsing).

Theorem C14_cond_refl c : cond0_ok WF c -> cond0_eqb c c = true.
Proof. apply (cond0_eqb_refl_D WF py_eq_refl_wf). Qed.
Theorem C14_cond_sym a b : cond0_ok WF a -> cond0_ok WF b -> cond0_eqb a b = cond0_eqb b a.
Proof. apply (cond0_eqb_sym_D WF py_eq_sym_wf). Qed.
Theorem C14_cond_trans a b c : cond0_ok WF a -> cond0_ok WF b -> cond0_ok WF c ->
  cond0_eqb a b = true -> cond0_eqb b c = true -> cond0_eqb a c = true.
Proof. apply (cond0_eqb_trans_D WF py_eq_trans_wf). Qed.
Theorem C14_cond_commute o a b : cond0_ok WF a -> cond0_ok WF b -> cond0_eqb (CBin o a b) (CBin o b a) = true.
Proof. apply (cond0_eqb_commute_D WF py_eq_refl_wf). Qed.

Theorem C14_part_refl p : part_ok WF p -> part_eqb p p = true.
Proof. apply (part_eqb_refl_D WF py_eq_refl_wf). Qed.
Theorem C14_part_sym p q : part_ok WF p -> part_ok WF q -> part_eqb p q = part_eqb q p.
Proof. apply (part_eqb_sym_D WF py_eq_sym_wf). Qed.
Theorem C14_part_trans p q r : part_ok WF p -> part_ok WF q -> part_ok WF r ->
  part_eqb p q = true -> part_eqb q r = true -> part_eqb p r = true.
Proof. apply (part_eqb_trans_D WF py_eq_trans_wf). Qed.

Theorem C14_path_refl p : path_ok WF p -> path_eqb p p = true.
Proof. apply (path_eqb_refl_D WF py_eq_refl_wf). Qed.
Theorem C14_path_sym p q : path_ok WF p -> path_ok WF q -> path_eqb p q = path_eqb q p.
Proof. apply (path_eqb_sym_D WF py_eq_sym_wf). Qed.
Theorem C14_path_trans p q r : path_ok WF p -> path_ok WF q -> path_ok WF r ->
  path_eqb p q = true -> path_eqb q r = true -> path_eqb p r = true.
Proof. apply (path_eqb_trans_D WF py_eq_trans_wf). Qed.

Theorem C14_cond1_refl T c : cond1_ok WF T c -> path_args_buildable T c -> cond1_eqb T c c = true.
Proof. apply (cond1_eqb_refl_D WF py_eq_refl_wf). Qed.
Theorem C14_cond1_sym T a b : cond1_ok WF T a -> cond1_ok WF T b -> cond1_eqb T a b = cond1_eqb T b a.
Proof. apply (cond1_eqb_sym_D WF py_eq_sym_wf). Qed.
Theorem C14_cond1_trans T a b c : cond1_ok WF T a -> cond1_ok WF T b -> cond1_ok WF T c ->
  cond1_eqb T a b = true -> cond1_eqb T b c = true -> cond1_eqb T a c = true.
Proof. apply (cond1_eqb_trans_D WF py_eq_trans_wf). Qed.
Theorem C14_cond1_commute T o a b : cond1_ok WF T a -> cond1_ok WF T b ->
  path_args_buildable T a -> path_args_buildable T b -> cond1_eqb T (CBin o a b) (CBin o b a) = true.
Proof. apply (cond1_eqb_commute_D WF py_eq_refl_wf). Qed.

Theorem C14_rule_refl T r g : rule_ok WF T r -> path_args_buildable T (r_cond r) -> rule_eqb T r r g g = true.
Proof. apply (rule_eqb_refl_D WF py_eq_refl_wf). Qed.
Theorem C14_rule_sym T a b ga gb : rule_ok WF T a -> rule_ok WF T b -> rule_eqb T a b ga gb = rule_eqb T b a gb ga.
Proof. apply (rule_eqb_sym_D WF py_eq_sym_wf). Qed.
Theorem C14_rule_trans T a b c ga gb gc : rule_ok WF T a -> rule_ok WF T b -> rule_ok WF T c ->
  rule_eqb T a b ga gb = true -> rule_eqb T b c gb gc = true -> rule_eqb T a c ga gc = true.
Proof. apply (rule_eqb_trans_D WF py_eq_trans_wf). Qed.

Theorem C14_schema_refl T s : schema_ok WF T s -> schema_buildable T s -> schema_eqb T s s = true.
Proof. apply (schema_eqb_refl_D WF py_eq_refl_wf). Qed.
Theorem C14_schema_sym T a b : schema_ok WF T a -> schema_ok WF T b -> schema_eqb T a b = schema_eqb T b a.
Proof. apply (schema_eqb_sym_D WF py_eq_sym_wf). Qed.
Theorem C14_schema_trans T a b c : schema_ok WF T a -> schema_ok WF T b -> schema_ok WF T c ->
  schema_eqb T a b = true -> schema_eqb T b c = true -> schema_eqb T a c = true.
Proof. apply (schema_eqb_trans_D WF py_eq_trans_wf). Qed.

(* separately built copies of one definition compare equal (build1 is a function, and the
   data-path arguments of a condition that was built are buildable) *)
Theorem C14_rebuild T t c c' : build1 T t = Ok c -> build1 T t = Ok c' ->
  cond1_ok WF T c -> cond1_eqb T c c' = true.
Proof.
  intros H1 H2 Hok. apply (C14_rebuild_D WF py_eq_refl_wf T t c c' H1 H2 Hok).
  eapply build1_buildable. exact H1.
Qed.

Theorem C14_rebuild_rule T t r r' g : mk_rule T t = Ok r -> mk_rule T t = Ok r' ->
  rule_ok WF T r -> rule_eqb T r r' g g = true.
Proof.
  intros H1 H2 Hok. rewrite H1 in H2. inversion H2; subst r'. apply C14_rule_refl; [ exact Hok | ].
  unfold mk_rule in H1.
  destruct (mk_path T id0 (rt_path_t t)) as [ p | ]; [ | discriminate ]. cbn [bind] in H1.
  destruct (build1 T (rt_cond_t t)) as [ c | ] eqn:E; [ | discriminate ]. cbn [bind] in H1.
  inversion H1; subst. cbn [r_cond]. eapply build1_buildable. exact E.
Qed.

(* ------------------------------------------------------------------ *)
(* 10. the same on dict-free values (D := dict_free), from the elementary proofs of section 4 *)

Lemma py_eq_refl_df v : dict_free v = true -> py_eq v v = true.
Proof. intros H. apply py_eq_refl_wf, dict_free_wf, H. Qed.
Lemma py_eq_sym_df2 a b : dict_free a = true -> dict_free b = true -> py_eq a b = py_eq b a.
Proof. intros Ha _. apply py_eq_sym_df, Ha. Qed.

Theorem C14_cond_refl_df c : cond0_ok dict_free c -> cond0_eqb c c = true.
Proof. apply (cond0_eqb_refl_D dict_free py_eq_refl_df). Qed.
Theorem C14_cond_sym_df a b : cond0_ok dict_free a -> cond0_ok dict_free b -> cond0_eqb a b = cond0_eqb b a.
Proof. apply (cond0_eqb_sym_D dict_free py_eq_sym_df2). Qed.
Theorem C14_cond_trans_df a b c : cond0_ok dict_free a -> cond0_ok dict_free b -> cond0_ok dict_free c ->
  cond0_eqb a b = true -> cond0_eqb b c = true -> cond0_eqb a c = true.
Proof. apply (cond0_eqb_trans_D dict_free py_eq_trans_df). Qed.
Theorem C14_part_sym_df p q : part_ok dict_free p -> part_ok dict_free q -> part_eqb p q = part_eqb q p.
Proof. apply (part_eqb_sym_D dict_free py_eq_sym_df2). Qed.
Theorem C14_part_trans_df p q r : part_ok dict_free p -> part_ok dict_free q -> part_ok dict_free r ->
  part_eqb p q = true -> part_eqb q r = true -> part_eqb p r = true.
Proof. apply (part_eqb_trans_D dict_free py_eq_trans_df). Qed.
Theorem C14_path_sym_df p q : path_ok dict_free p -> path_ok dict_free q -> path_eqb p q = path_eqb q p.
Proof. apply (path_eqb_sym_D dict_free py_eq_sym_df2). Qed.
Theorem C14_path_trans_df p q r : path_ok dict_free p -> path_ok dict_free q -> path_ok dict_free r ->
  path_eqb p q = true -> path_eqb q r = true -> path_eqb p r = true.
Proof. apply (path_eqb_trans_D dict_free py_eq_trans_df). Qed.
Theorem C14_rule_sym_df T a b ga gb : rule_ok dict_free T a -> rule_ok dict_free T b ->
  rule_eqb T a b ga gb = rule_eqb T b a gb ga.
Proof. apply (rule_eqb_sym_D dict_free py_eq_sym_df2). Qed.
Theorem C14_rule_trans_df T a b c ga gb gc : rule_ok dict_free T a -> rule_ok dict_free T b -> rule_ok dict_free T c ->
  rule_eqb T a b ga gb = true -> rule_eqb T b c gb gc = true -> rule_eqb T a c ga gc = true.
Proof. apply (rule_eqb_trans_D dict_free py_eq_trans_df). Qed.

(* ------------------------------------------------------------------ *)
(* 11. why the domains are needed: counterexamples on ill-formed model values *)

(* a "dict" with two == keys is not == to itself *)
Definition bad_dict : pyval := VDict [ (VInt 1, VInt 10); (VBool true, VInt 20) ].
Example py_eq_not_refl : py_eq bad_dict bad_dict = false /\ wf_val bad_dict = false.
Proof. split; vm_compute; reflexivity. Qed.

(* with an ill-formed dict on one side == is not symmetric: the second (shadowed) entry of
   dup_dict is never looked at from the other side *)
Definition dup_dict : pyval := VDict [ (VInt 1, VInt 10); (VBool true, VInt 10) ].
Definition ok_dict : pyval := VDict [ (VInt 1, VInt 10); (VInt 2, VInt 20) ].
Example py_eq_not_sym : py_eq dup_dict ok_dict = true /\ py_eq ok_dict dup_dict = false
  /\ wf_val dup_dict = false /\ wf_val ok_dict = true.
Proof. repeat split; vm_compute; reflexivity. Qed.

(* duplicated keyword names break reflexivity of kw_eqb, hence cond_wf *)
Definition bad_leaf : leaf pyval :=
  {| l_cls := "Value"; l_kind := DValue; l_pre := PNone; l_call := "f"; l_args := [];
     l_kwargs := [ ("x"%string, VInt 1); ("x"%string, VInt 2) ] |}.
Example cond_eqb_not_refl : cond0_eqb (CLeaf bad_leaf) (CLeaf bad_leaf) = false.
Proof. vm_compute. reflexivity. Qed.

Corollary C14_rebuild_refl T t c : build1 T t = Ok c -> cond1_ok wf_val T c -> cond1_eqb T c c = true.
Proof. intros H. apply (C14_rebuild T t c c H H). Qed.

(* ------------------------------------------------------------------ *)
(* Unfinished / not derivable here:
   - [cond_wf c] (keyword names of every leaf pairwise distinct) is kept as a hypothesis on built
     conditions.  Deriving it from [build1 T t = Ok c] needs NoDup of the caller's keyword names
     and facts about the generated constructor table (distinct StKw names, disjoint from **kwargs),
     i.e. unfolding T:
       forall T t c, build1 T t = Ok c -> (kw names of every DLeaf of t NoDup) -> cond_wf c.
   - Eq.v defines no schema equality; [schema_eqb] above is local to this file.              *)

Print Assumptions cond_eqb_refl.
Print Assumptions cond_eqb_commute.
Print Assumptions cond_eqb_commute_l.
Print Assumptions cond_eqb_commute_r.
Print Assumptions cond_eqb_sym.
Print Assumptions cond_eqb_trans.
Print Assumptions py_eq_refl_wf.
Print Assumptions py_eq_sym_df.
Print Assumptions py_eq_trans_mid.
Print Assumptions py_eq_trans_df.
Print Assumptions py_eq_sym_wf.
Print Assumptions py_eq_trans_wf.
Print Assumptions casts_eqb_refl.
Print Assumptions casts_eqb_sym.
Print Assumptions casts_eqb_trans.
Print Assumptions build1_buildable.
Print Assumptions C14_cond_refl.
Print Assumptions C14_cond_sym.
Print Assumptions C14_cond_trans.
Print Assumptions C14_cond_commute.
Print Assumptions C14_part_refl.
Print Assumptions C14_part_sym.
Print Assumptions C14_part_trans.
Print Assumptions C14_path_refl.
Print Assumptions C14_path_sym.
Print Assumptions C14_path_trans.
Print Assumptions C14_cond1_refl.
Print Assumptions C14_cond1_sym.
Print Assumptions C14_cond1_trans.
Print Assumptions C14_cond1_commute.
Print Assumptions C14_rule_refl.
Print Assumptions C14_rule_sym.
Print Assumptions C14_rule_trans.
Print Assumptions C14_schema_refl.
Print Assumptions C14_schema_sym.
Print Assumptions C14_schema_trans.
Print Assumptions C14_rebuild.
Print Assumptions C14_rebuild_refl.
Print Assumptions C14_rebuild_rule.
Print Assumptions C14_cond_refl_df.
Print Assumptions C14_cond_sym_df.
Print Assumptions C14_cond_trans_df.
Print Assumptions C14_part_sym_df.
Print Assumptions C14_part_trans_df.
Print Assumptions C14_path_sym_df.
Print Assumptions C14_path_trans_df.
Print Assumptions C14_rule_sym_df.
Print Assumptions C14_rule_trans_df.
Print Assumptions py_eq_not_refl.
Print Assumptions py_eq_not_sym.
Print Assumptions cond_eqb_not_refl.
