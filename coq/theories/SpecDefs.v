(* Lookup tables of the spec parsers / serialisers (generated from the source by the translator). *)
From Coq Require Import ZArith NArith List Bool String.
From Valida Require Import Py Defs Cast.
Import ListNotations.

Record spec_tables := {
  sx_binops : list (string * bop);                 (* BINARY_OPS *)
  sx_datum_types : list (string * string);         (* CONDITION_DATUM_TYPES: "value" -> "Value" *)
  sx_callable_lookup : list (string * string);     (* CALLABLE_LOOKUP *)
  sx_preproc_lookup : list (string * string);      (* PRE_PROC_LOOKUP *)
  sx_dtype_names : list (string * pytype);         (* DTYPE_LOOKUP, string keys *)
  sx_dtype_types : list (pytype * pytype);         (* DTYPE_LOOKUP, type keys *)
  sx_inv_dtype : list (pytype * string);           (* INV_DTYPE_LOOKUP *)
  sx_part_classes : list (string * string);        (* CLS_LOOKUP of ContainerValue.from_spec *)
  sx_part_default : string;                        (* default of spec.pop("type", ...) *)
  sx_suffix_lookup : list (string * string);       (* DATUM_TYPE_MULTI_TYPE_LOOKUP *)
  sx_allowed_suffixes : list string;               (* ALLOWED_SUFFIXES *)
  sx_cast_dtype : list (string * pytype);          (* CAST_DTYPE_LOOKUP *)
  sx_cast_lookup : list (pytype * pytype * castfn) (* CAST_LOOKUP *)
}.
