(* Rule and schema objects on a heap: the effect of Schema.add_schema(T, root) on object identity
   (C18: "T itself is unchanged, and the same T can be added under several roots or to several
   schemas with each addition behaving independently"). *)
From Coq Require Import ZArith NArith List Bool String Lia.
Import ListNotations.

(* what the translator reads off Schema.add_schema *)
Record as_proto := {
  as_copies : bool      (* true: appends new Rule(path=root / rule.path, ...) objects; false: rebinds rule.path in place *)
}.

(* a path is abstracted to the list of its parts' identities; the rest of a rule (condition, cast, doc) to one identity *)
Inductive sobj :=
| ORule (path : list nat) (body : nat)
| OSchema (rules : list nat).

Definition sheap := list sobj.

Fixpoint set_nth {X} (l : list X) (i : nat) (x : X) : list X :=
  match l, i with
  | [], _ => []
  | _ :: r, O => x :: r
  | y :: r, S j => y :: set_nth r j x
  end.

Definition reroot_obj (root : list nat) (o : sobj) : sobj :=
  match o with ORule p b => ORule (root ++ p) b | other => other end.

Fixpoint insert_len (h : sheap) (r : nat) (l : list nat) : list nat :=
  let len x := match nth_error h x with Some (ORule p _) => List.length p | _ => 0 end in
  match l with
  | [] => [r]
  | x :: xs => if Nat.ltb (len x) (len r) then x :: insert_len h r xs else r :: x :: xs
  end.
Definition sort_locs (h : sheap) (l : list nat) : list nat := fold_right (insert_len h) [] l.

Section AddSchema.
  Variable P : as_proto.

  (* S.add_schema(T, root) where S and T are the schema objects at locations s and t *)
  Definition add_schema_h (s t : nat) (root : list nat) (h : sheap) : option sheap :=
    match nth_error h s, nth_error h t with
    | Some (OSchema srs), Some (OSchema trs) =>
        if as_copies P then
          let fresh := map (fun r => match nth_error h r with Some o => reroot_obj root o | None => ORule root 0 end) trs in
          let h1 := h ++ fresh in
          let locs := seq (List.length h) (List.length trs) in
          Some (set_nth h1 s (OSchema (sort_locs h1 (srs ++ locs))))
        else
          let h1 := fold_left (fun acc r => match nth_error acc r with
                                            | Some o => set_nth acc r (reroot_obj root o)
                                            | None => acc end) trs h in
          Some (set_nth h1 s (OSchema (sort_locs h1 (srs ++ trs))))
    | _, _ => None
    end.

  Fixpoint run_adds (ops : list (nat * nat * list nat)) (h : sheap) : sheap :=
    match ops with
    | [] => h
    | (s, t, root) :: r => match add_schema_h s t root h with Some h' => run_adds r h' | None => run_adds r h end
    end.
End AddSchema.

Definition copying : as_proto := {| as_copies := true |}.
Definition rebinding : as_proto := {| as_copies := false |}.

(* a schema's rule objects, read through the heap: the list of (path, body) it would apply *)
Definition schema_rules (h : sheap) (s : nat) : option (list (list nat * nat)) :=
  match nth_error h s with
  | Some (OSchema rs) =>
      Some (map (fun r => match nth_error h r with Some (ORule p b) => (p, b) | _ => ([], 0) end) rs)
  | _ => None
  end.
