(* DSL terms (what the harness and the theorems quantify over) and their construction
   through the model of the DSL constructors. *)
From Coq Require Import ZArith NArith List Bool String.
From Valida Require Import Py Lang Defs Cond.
Import ListNotations.
Local Open Scope string_scope.
Local Open Scope list_scope.

Section Build.
  Variable T : tables.
  Variable A : Type.
  Variable lit : pyval -> A.
  Fixpoint build (t : dslc A) : res (cond A) :=
    match t with
    | DLeaf cls m pos kw => let* l := build_leaf T lit cls m pos kw in Ok (CLeaf l)
    | DNull => Ok CNull
    | DBin o a b => let* x := build a in let* y := build b in mk_bin o x y
    end.
End Build.
Arguments build T {A}.
