(* SPEC for data paths (C03, C04): the part-by-part walk.  Independent of Gen/*.v. *)
From Coq Require Import ZArith NArith List Bool String Lia.
From Valida Require Import Py Lang Defs DocSem.
Import ListNotations.
Local Open Scope string_scope.
Local Open Scope list_scope.
Local Open Scope Z_scope.

(* a typed path part *)
Inductive spart :=
| SPMap (t : qtree)                 (* map-value part with its (and-combined) condition tree *)
| SPList (t : qtree)
| SPMol (c lc mc : qtree).          (* map-or-list part: value, list and map conditions *)

Inductive sdt := SdNone | SdDtype | SdLength | SdMapKeys | SdMapValues.
Inductive smt := SmNone | SmFirst | SmLast | SmSingle | SmAll | SmAny.

Record spath := {
  sp_parts : list spart;
  sp_concrete : bool;
  sp_dt : sdt;
  sp_mt : smt;
  sp_src : option pyval
}.

(* the (key-or-index, child) pairs of a node that satisfy a condition tree, in document order;
   None when the tree does not apply to the node (wrong container kind, scalar, empty container,
   key conditions mixed with index conditions) *)
Definition tree_children (t : qtree) (node : pyval) : option (list (pyval * pyval)) :=
  let n := qnorm t in
  let applies :=
    match n with
    | QLeaf c _ => doc_ok c node
    | QNull => nonempty_container node
    | QBin _ _ _ => negb (qmixed n) && nonempty_container node
    end in
  if applies then Some (filter (sat_tree n) (doc_items node)) else None.

Definition is_list_node (v : pyval) : bool := match v with VList (_ :: _) => true | _ => false end.
Definition is_map_node (v : pyval) : bool := match v with VDict (_ :: _) => true | _ => false end.

(* children of a node selected by a part; a part that does not apply matches nothing *)
Definition children (p : spart) (node : pyval) : list (pyval * pyval) :=
  match p with
  | SPMap t => if is_map_node node then match tree_children t node with Some l => l | None => [] end else []
  | SPList t => if is_list_node node then match tree_children t node with Some l => l | None => [] end else []
  | SPMol c lc mc =>
      if is_list_node node then match tree_children (QBin BoAnd lc c) node with Some l => l | None => [] end
      else if is_map_node node then match tree_children (QBin BoAnd mc c) node with Some l => l | None => [] end
      else []
  end.

(* the part-by-part walk: (concrete path, node) pairs in document order *)
Fixpoint walk (ps : list spart) (cp : list pyval) (v : pyval) : list (list pyval * pyval) :=
  match ps with
  | [] => [(cp, v)]
  | p :: r => flat_map (fun kv => walk r (cp ++ [fst kv]) (snd kv)) (children p v)
  end.

(* indexing a document along a concrete path *)
Fixpoint index_along (v : pyval) (cp : list pyval) : option pyval :=
  match cp with
  | [] => Some v
  | k :: r =>
      match v with
      | VDict d => match dict_look k d with Some x => index_along x r | None => None end
      | VList l => match int_of k with
                   | Some i => match list_index l i with Some x => index_along x r | None => None end
                   | None => None
                   end
      | _ => None
      end
  end.

Definition spec_dt (dt : sdt) (v : pyval) : res pyval :=
  match dt with
  | SdNone => Ok v
  | SdDtype => Ok (VType (py_type v))
  | SdLength => py_len v
  | SdMapKeys => match v with VDict d => Ok (VList (map fst d)) | _ => Err AttributeError end
  | SdMapValues => match v with VDict d => Ok (VList (map snd d)) | _ => Err AttributeError end
  end.

Definition spec_multi (p : spath) (out : list pyval) : res pyval :=
  match sp_mt p with
  | SmFirst => match out with x :: _ => Ok x | [] => Err IndexError end
  | SmLast => match rev out with x :: _ => Ok x | [] => Err IndexError end
  | SmSingle => match out with [x] => Ok x | [] => Err IndexError | _ => Err ValueError end
  | SmAll | SmAny => Ok (VList out)
  | SmNone => if sp_concrete p then match out with x :: _ => Ok x | [] => Err IndexError end else Ok (VList out)
  end.

Definition spec_get_data (p : spath) (data : option pyval) (return_paths : bool) : res pyval :=
  let src := match sp_src p with Some s => if py_truthy s then Some s else None | None => None end in
  let doc := match src with Some s => Some s
                          | None => match data with Some d => if py_truthy d then Some d else None | None => None end end in
  match doc with
  | None => Err ValueError
  | Some doc =>
      match sp_parts p with
      | [] => let* v := spec_dt (sp_dt p) doc in Ok (if return_paths then VTuple [v; VTuple []] else v)
      | _ :: _ =>
          let sel := walk (sp_parts p) [] doc in
          match sel with
          | [] => Ok (if sp_concrete p then VNone else VList [])
          | _ :: _ =>
              let* vals := mapM (fun pv => spec_dt (sp_dt p) (snd pv)) sel in
              let out := if return_paths
                         then map (fun x => VTuple [fst x; VTuple (snd x)]) (combine vals (map fst sel))
                         else vals in
              spec_multi p out
          end
      end
  end.

(* ------------------------------------------------------------------ *)
(* construction of parts and paths from API terms (typed)              *)

Inductive sarg := SLit (v : pyval) | SCond (t : qtree).

Inductive spterm :=
| SPrim (v : pyval)
| STMap (key value cnd : option sarg) (label : option pyval)
| STList (index value cnd : option sarg) (label : option pyval)
| STMol (key index value lcnd mcnd cnd : option sarg) (label : option pyval).

Definition buildable (t : qtree) : bool := negb (qmixed (qnorm t)).

(* the `condition=` argument *)
Definition cnd_tree (a : option sarg) : res qtree :=
  match a with
  | None | Some (SLit VNone) => Ok QNull
  | Some (SLit _) => Err TypeError
  | Some (SCond t) => if buildable t then Ok t else Err TypeError
  end.

(* a key= / index= / value= argument: a raw value means equality; a condition must be of the right kind *)
Definition datum_tree (cls : scls) (a : option sarg) : res qtree :=
  match a with
  | None | Some (SLit VNone) => Ok QNull
  | Some (SLit v) => Ok (QLeaf cls (Q_equal_to v))
  | Some (SCond t) =>
      if negb (buildable t) then Err TypeError
      else if q_is_null (qnorm t) then Ok QNull
      else if forallb (fun cq => dkind_eqb (scls_kind (fst cq)) (scls_kind cls)) (qleaves t) then Ok t
      else Err TypeError
  end.

Definition and_tree (a b : qtree) : res qtree :=
  let t := QBin BoAnd a b in if buildable t then Ok t else Err TypeError.

Definition spart_of (t : spterm) : res (spart * bool) :=
  match t with
  | SPrim v =>
      match v with
      | VStr _ | VFloat _ _ _ => Ok (SPMap (QLeaf SKey (Q_equal_to v)), false)
      | VInt _ | VBool _ => Ok (SPMol QNull (QLeaf SIndex (Q_equal_to v)) (QLeaf SKey (Q_equal_to v)), false)
      | _ => Err TypeError
      end
  | STMap key value cnd _ =>
      let* c := cnd_tree cnd in
      let* k := datum_tree SKey key in
      let* v := datum_tree SValue value in
      let* ck := and_tree c k in
      let* ckv := and_tree ck v in
      Ok (SPMap ckv, true)
  | STList index value cnd _ =>
      let* c := cnd_tree cnd in
      let* i := datum_tree SIndex index in
      let* v := datum_tree SValue value in
      let* ci := and_tree c i in
      let* civ := and_tree ci v in
      Ok (SPList civ, true)
  | STMol key index value lcnd mcnd cnd _ =>
      let* l := cnd_tree lcnd in
      let* i := datum_tree SIndex index in
      let* li := and_tree l i in
      let* m := cnd_tree mcnd in
      let* k := datum_tree SKey key in
      let* mk := and_tree m k in
      let* c := cnd_tree cnd in
      let* v := datum_tree SValue value in
      let* cv := and_tree c v in
      Ok (SPMol cv li mk, true)
  end.

Fixpoint sparts_of (ts : list spterm) : res (list spart * bool) :=
  match ts with
  | [] => Ok ([], true)
  | t :: r =>
      let* (p, explicit) := spart_of t in
      let* (ps, conc) := sparts_of r in
      Ok (p :: ps, negb explicit && conc)
  end.

Definition sdt_of_name (m : string) : option sdt :=
  if String.eqb m "dtype" then Some SdDtype else if String.eqb m "length" then Some SdLength
  else if String.eqb m "map_keys" then Some SdMapKeys else if String.eqb m "map_values" then Some SdMapValues else None.
Definition smt_of_name (m : string) : option smt :=
  if String.eqb m "first" then Some SmFirst else if String.eqb m "last" then Some SmLast
  else if String.eqb m "single" then Some SmSingle else if String.eqb m "all" then Some SmAll
  else if String.eqb m "any" then Some SmAny else None.

(* a modifier may be set once; multiplicity modifiers are refused on concrete paths *)
Definition spec_mod (p : spath) (m : string) : res spath :=
  match sdt_of_name m with
  | Some dt => match sp_dt p with
               | SdNone => Ok {| sp_parts := sp_parts p; sp_concrete := sp_concrete p; sp_dt := dt; sp_mt := sp_mt p; sp_src := sp_src p |}
               | _ => Err ValueError
               end
  | None =>
      match smt_of_name m with
      | Some mt => match sp_mt p with
                   | SmNone => if sp_concrete p then Err ValueError
                               else Ok {| sp_parts := sp_parts p; sp_concrete := sp_concrete p; sp_dt := sp_dt p; sp_mt := mt; sp_src := sp_src p |}
                   | _ => Err ValueError
                   end
      | None => Err AttributeError
      end
  end.

Fixpoint spec_mods (p : spath) (ms : list string) : res spath :=
  match ms with [] => Ok p | m :: r => let* p' := spec_mod p m in spec_mods p' r end.

Record spathterm := { st_parts : list spterm; st_mods : list string; st_src : option pyval }.

Definition spath_of (t : spathterm) : res spath :=
  let* (ps, conc) := sparts_of (st_parts t) in
  spec_mods {| sp_parts := ps; sp_concrete := conc; sp_dt := SdNone; sp_mt := SmNone; sp_src := st_src t |} (st_mods t).

(* path.get_data(data, return_paths) for an API-built path *)
Definition spec_path_get (t : spathterm) (data : option pyval) (return_paths : bool) : res pyval :=
  let* p := spath_of t in spec_get_data p data return_paths.

(* ---- untyped terms (as generated by the harness) to typed terms ---- *)

Definition parse_carg (a : option (carg pyval)) : option (option sarg) :=
  match a with
  | None => Some None
  | Some (KLit v) => Some (Some (SLit v))
  | Some (KCond c) => match parse_tree c with Some t => if qtree_ok t then Some (Some (SCond t)) else None | None => None end
  end.

Definition parse_pterm (t : pterm pyval) : option spterm :=
  match t with
  | PtPrim v => Some (SPrim v)
  | PtMap k v c l =>
      match parse_carg k, parse_carg v, parse_carg c with
      | Some k', Some v', Some c' => Some (STMap k' v' c' l) | _, _, _ => None end
  | PtList i v c l =>
      match parse_carg i, parse_carg v, parse_carg c with
      | Some i', Some v', Some c' => Some (STList i' v' c' l) | _, _, _ => None end
  | PtMol k i v lc mc c l =>
      match parse_carg k, parse_carg i, parse_carg v, parse_carg lc, parse_carg mc, parse_carg c with
      | Some k', Some i', Some v', Some lc', Some mc', Some c' => Some (STMol k' i' v' lc' mc' c' l)
      | _, _, _, _, _, _ => None end
  end.

Fixpoint parse_pterms (ts : list (pterm pyval)) : option (list spterm) :=
  match ts with
  | [] => Some []
  | t :: r => match parse_pterm t, parse_pterms r with Some x, Some xs => Some (x :: xs) | _, _ => None end
  end.

Definition parse_pathterm (t : pathterm pyval) : option spathterm :=
  match parse_pterms (pt_parts t) with
  | Some ps => Some {| st_parts := ps; st_mods := pt_mods t; st_src := pt_src t |}
  | None => None
  end.

(* oracle entry point *)
Definition spec_get_term (t : pathterm pyval) (data : option pyval) (return_paths : bool) : option (res pyval) :=
  match parse_pathterm t with
  | Some st => Some (spec_path_get st data return_paths)
  | None => None
  end.

(* ---- typed terms back to API terms (what the theorems quantify over) ---- *)

Definition sarg_term (a : sarg) : carg pyval :=
  match a with SLit v => KLit v | SCond t => KCond (qterm t) end.
Definition osarg_term (a : option sarg) : option (carg pyval) := option_map sarg_term a.

Definition spterm_term (t : spterm) : pterm pyval :=
  match t with
  | SPrim v => PtPrim v
  | STMap k v c l => PtMap (osarg_term k) (osarg_term v) (osarg_term c) l
  | STList i v c l => PtList (osarg_term i) (osarg_term v) (osarg_term c) l
  | STMol k i v lc mc c l => PtMol (osarg_term k) (osarg_term i) (osarg_term v) (osarg_term lc) (osarg_term mc) (osarg_term c) l
  end.

Definition spathterm_term (t : spathterm) : pathterm pyval :=
  {| pt_parts := map spterm_term (st_parts t); pt_mods := st_mods t; pt_src := st_src t |}.

Definition osarg_ok (a : option sarg) : bool :=
  match a with Some (SCond t) => qtree_ok t | _ => true end.
Definition spterm_ok (t : spterm) : bool :=
  match t with
  | SPrim _ => true
  | STMap k v c _ | STList k v c _ => osarg_ok k && osarg_ok v && osarg_ok c
  | STMol k i v lc mc c _ => osarg_ok k && osarg_ok i && osarg_ok v && osarg_ok lc && osarg_ok mc && osarg_ok c
  end.
Definition spathterm_ok (t : spathterm) : bool := forallb spterm_ok (st_parts t).
