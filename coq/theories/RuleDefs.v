(* Term types for rules (shared by model and specification). *)
From Coq Require Import ZArith NArith List Bool String.
From Valida Require Import Py Lang Defs Cast.
Import ListNotations.

(* callable arguments of a rule's condition: a literal or a data path (resolved per evaluation) *)
Inductive arg1 :=
| ALit (v : pyval)
| APath (tag : N) (p : pathterm pyval).     (* tag: identity of the path object when it is not resolved *)


Record ruleterm := {
  rt_path_t : pathterm pyval;
  rt_cond_t : dslc arg1;
  rt_cast_t : list (pytype * castfn)
}.
