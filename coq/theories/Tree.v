(* Model of Schema.to_tree: the ASSEMBLY of the documentation tree.
   What each rule contributes (the strings of its path parts, its simplified path, its always-applicable key
   conditions, its type-like conditions and their formatted text, the implicit container type of its last part) is
   computed by the library's own helper functions and handed to the model as facts [rfacts]; the model is the
   dictionary bookkeeping of to_tree itself: merging entries under string-tuple keys, required flags, implicit parent
   types, type information moved into the parent, sorting, parent references, the sub-tree root and nesting. *)
From Coq Require Import ZArith NArith List Bool String Ascii.
From Valida Require Import Py.
Import ListNotations.
Local Open Scope string_scope.
Local Open Scope list_scope.

(* a Python dict with string keys, in insertion order *)
Definition pdict := list (string * pyval).
Fixpoint dget (k : string) (d : pdict) : option pyval :=
  match d with [] => None | (k', v) :: r => if String.eqb k k' then Some v else dget k r end.
Fixpoint dset (k : string) (v : pyval) (d : pdict) : pdict :=
  match d with
  | [] => [(k, v)]
  | (k', v') :: r => if String.eqb k k' then (k', v) :: r else (k', v') :: dset k v r
  end.
Definition dhas (k : string) (d : pdict) : bool := match dget k d with Some _ => true | None => false end.

(* keys of the items dictionary: tuples of strings *)
Definition skey := list string.
Fixpoint skey_eqb (a b : skey) : bool :=
  match a, b with
  | [], [] => true
  | x :: a', y :: b' => String.eqb x y && skey_eqb a' b'
  | _, _ => false
  end.
(* Python's ordering of tuples of str *)
Fixpoint skey_ltb (a b : skey) : bool :=
  match a, b with
  | [], [] => false
  | [], _ :: _ => true
  | _ :: _, [] => false
  | x :: a', y :: b' =>
      match String.compare x y with
      | Lt => true
      | Gt => false
      | Eq => skey_ltb a' b'
      end
  end.

Definition items := list (skey * pdict).
Fixpoint iget (k : skey) (m : items) : option pdict :=
  match m with [] => None | (k', d) :: r => if skey_eqb k k' then Some d else iget k r end.
Fixpoint iset (k : skey) (d : pdict) (m : items) : items :=
  match m with
  | [] => [(k, d)]
  | (k', d') :: r => if skey_eqb k k' then (k', d) :: r else (k', d') :: iset k d r
  end.
Definition iget0 (k : skey) (m : items) : pdict := match iget k m with Some d => d | None => [] end.
(* items[k][f] = v, creating items[k] if needed *)
Definition iput (k : skey) (f : string) (v : pyval) (m : items) : items := iset k (dset f v (iget0 k m)) m.

(* what one rule contributes *)
Record rfacts := {
  rf_path_str : skey;                    (* str(i) for i in rule.path.parts *)
  rf_path_simple : list pyval;           (* rule.path.simplify() *)
  rf_cond : pyval;
  rf_doc : pyval;
  rf_keys : list (pyval * option string * bool);   (* every argument of every always-applicable allowed_keys / required_keys
                                                      condition, in order: the key, str(part of DataPath(key)) or None when
                                                      DataPath(key) raises TypeError, and whether the condition is required_keys *)
  rf_key_type : option (pyval * pyval);  (* key data type conditions (a non-empty list) and their formatted text *)
  rf_type : option (pyval * pyval);      (* value data type conditions and their formatted text *)
  rf_imp : option (option string);       (* None: the path has no parts.  Some None: the container type of the last part is not
                                            in IMP_TYPE_LOOKUP.  Some (Some n): n = "dict" / "list" *)
  rf_last_list : bool;                   (* rule.path.parts[-1] == ListValue() *)
  rf_last_map : bool                     (* rule.path.parts[-1] == MapValue() *)
}.

Fixpoint is_prefix (p k : skey) : bool :=
  match p, k with
  | [], _ => true
  | x :: p', y :: k' => String.eqb x y && is_prefix p' k'
  | _ :: _, [] => false
  end.

Definition truthy_opt (o : option pyval) : bool := match o with Some v => py_truthy v | None => false end.

Section ToTree.
  Variable from_str : skey.              (* str(i) for i in from_path *)
  Variable from_simple : list pyval.     (* DataPath( *from_path ).simplify() *)

  Definition n_from : nat := List.length from_str.

  Fixpoint add_keys (ps : skey) (simple : list pyval) (ks : list (pyval * option string * bool)) (m : items) : res items :=
    match ks with
    | [] => Ok m
    | (key, kstr, isreq) :: r =>
        match kstr with
        | None => Err TypeError              (* DataPath(key): a part of an unsupported type *)
        | Some s =>
            let k_i := ps ++ [s] in
            let m1 := match iget k_i m with
                      | Some _ => m
                      | None => iset k_i [("path", VTuple (simple ++ [key]))] m
                      end in
            let old := match dget "required" (iget0 k_i m1) with Some v => py_truthy v | None => false end in
            add_keys ps simple r (iput k_i "required" (VBool (old || isreq)) m1)
        end
    end.

  Definition step (m : items) (rf : rfacts) : res items :=
    if negb (is_prefix from_str (rf_path_str rf)) then Ok m else
    let ps := skipn n_from (rf_path_str rf) in
    let simple := skipn n_from (rf_path_simple rf) in
    let m := match iget ps m with Some _ => m | None => iset ps [] m end in
    let m := iput ps "condition" (rf_cond rf) m in
    let m := iput ps "path" (VTuple simple) m in
    let m := iput ps "doc" (rf_doc rf) m in
    let* m := add_keys ps simple (rf_keys rf) m in
    let m := match rf_key_type rf with
             | Some (kt, fmt) => iput ps "key_type_fmt" fmt (iput ps "key_type" kt m)
             | None => m
             end in
    let m := match rf_type rf with
             | Some (t, fmt) => iput ps "type_fmt" fmt (iput ps "type" t m)
             | None => m
             end in
    match rf_imp rf with
    | None => Ok m
    | Some imp =>
        (* parent_path = DataPath() if the path has one part, else rule.path[len(from_path_str):-1] *)
        let parent := if Nat.eqb (List.length (rf_path_str rf)) 1 then [] else removelast ps in
        let m := match iget parent m with Some _ => m | None => iset parent [] m end in
        let m := match imp with
                 | Some name =>
                     if truthy_opt (dget "type" (iget0 parent m)) then m
                     else iput parent "type_fmt" (VStr name) (iput parent "type" (VStr name) m)
                 | None => m
                 end in
        let mine := iget0 ps m in
        let m := match dget "type" mine, rf_last_list rf with
                 | Some t, true =>
                     match dget "type_fmt" mine with
                     | Some f =>
                         iput ps "type_info_in_parent" (VBool true)
                           (iput parent "list_value_type_fmt" f (iput parent "list_value_type" t m))
                     | None => m          (* unreachable: type and type_fmt are set together *)
                     end
                 | _, _ => m
                 end in
        let mine := iget0 ps m in
        let m := match dget "type" mine, rf_last_map rf with
                 | Some t, true =>
                     match dget "type_fmt" mine with
                     | Some f =>
                         iput ps "type_info_in_parent" (VBool true)
                           (iput parent "map_value_type_fmt" f (iput parent "map_value_type" t m))
                     | None => m
                     end
                 | _, _ => m
                 end in
        Ok m
    end.

  Fixpoint steps (m : items) (rs : list rfacts) : res items :=
    match rs with [] => Ok m | rf :: r => let* m1 := step m rf in steps m1 r end.

  (* sorted(items.items()): keys are distinct, so only keys are compared *)
  Fixpoint insert_sorted (x : skey * pdict) (l : items) : items :=
    match l with
    | [] => [x]
    | y :: r => if skey_ltb (fst x) (fst y) then x :: y :: r else y :: insert_sorted x r
    end.
  Definition sort_items (m : items) : items := fold_right insert_sorted [] m.

  (* parent references *)
  Fixpoint refs_get (k : skey) (refs : list (skey * Z)) : option Z :=
    match refs with [] => None | (k', i) :: r => if skey_eqb k k' then Some i else refs_get k r end.
  Fixpoint refs_set (k : skey) (i : Z) (refs : list (skey * Z)) : list (skey * Z) :=
    match refs with
    | [] => [(k, i)]
    | (k', j) :: r => if skey_eqb k k' then (k', i) :: r else (k', j) :: refs_set k i r
    end.

  Fixpoint with_parents (l : items) (refs : list (skey * Z)) (idx : Z) : res (list pdict) :=
    match l with
    | [] => Ok []
    | (k, d) :: r =>
        match refs_get (removelast k) refs with
        | None => Err KeyError
        | Some p =>
            let d1 := dset "path_str" (VTuple (map VStr k)) (dset "parent" (VInt p) d) in
            let* rest := with_parents r (refs_set k idx refs) (idx + 1)%Z in
            Ok (d1 :: rest)
        end
    end.

  (* add the final component of from_path back on to all paths *)
  Definition readd (d : pdict) : res pdict :=
    match from_simple with
    | [] => Ok d
    | _ =>
        match dget "path" d, dget "path_str" d with
        | Some (VTuple p), Some (VTuple ps) =>
            Ok (dset "path_str" (VTuple (VStr (last from_str "") :: ps)) (dset "path" (VTuple (last from_simple VNone :: p)) d))
        | None, _ => Err KeyError
        | _, _ => Err TypeError
        end
    end.

  Definition flat_tree (rs : list rfacts) : res (list pdict) :=
    let* m := steps [] rs in
    let* l := with_parents (sort_items m) [([], (-1)%Z)] 0%Z in
    mapM readd l.

  (* nesting: from the last item to the first, every item with a parent is popped and appended to its parent's children *)
  Fixpoint set_nth_d (l : list pdict) (i : nat) (d : pdict) : list pdict :=
    match l, i with [], _ => [] | _ :: r, O => d :: r | x :: r, S j => x :: set_nth_d r j d end.
  Fixpoint remove_nth (l : list pdict) (i : nat) : list pdict :=
    match l, i with [], _ => [] | _ :: r, O => r | x :: r, S j => x :: remove_nth r j end.

  Definition children_of (d : pdict) : list pyval := match dget "children" d with Some (VList c) => c | _ => [] end.
  (* canonical form for comparison: fields sorted by name (a dict has no order that matters here) *)
  Fixpoint insert_field (x : string * pyval) (l : pdict) : pdict :=
    match l with
    | [] => [x]
    | y :: r => match String.compare (fst x) (fst y) with Gt => y :: insert_field x r | _ => x :: y :: r end
    end.
  Definition pdict_val (d : pdict) : pyval := VDict (map (fun kv => (VStr (fst kv), snd kv)) (fold_right insert_field [] d)).

  Fixpoint nest_from (i : nat) (l : list pdict) : list pdict :=
    (* items i, i-1, ..., 0 are still to be processed; indices below i are unaffected by popping above them *)
    let l' :=
      match nth_error l i with
      | Some d =>
          match dget "parent" d with
          | Some (VInt p) =>
              if (p <? 0)%Z then l
              else
                let pi := Z.to_nat p in
                match nth_error l pi with
                | Some pd => remove_nth (set_nth_d l pi (dset "children" (VList (children_of pd ++ [pdict_val d])) pd)) i
                | None => l
                end
          | _ => l
          end
      | None => l
      end in
    match i with O => l' | S j => nest_from j l' end.

  Definition nested_tree (rs : list rfacts) : res (list pdict) :=
    let* l := flat_tree rs in
    match l with [] => Ok [] | _ => Ok (nest_from (List.length l - 1) l) end.

  Definition run_tree (nested : bool) (rs : list rfacts) : res pyval :=
    let* l := if nested then nested_tree rs else flat_tree rs in
    Ok (VList (map pdict_val l)).
End ToTree.
