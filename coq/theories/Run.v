(* Entry points evaluated by the correspondence check (paths, rules, schemas). *)
From Coq Require Import ZArith NArith List Bool String.
From Valida Require Import Py Lang Defs Cond Dsl Check Path Inst.
Import ListNotations.
Local Open Scope string_scope.
Local Open Scope list_scope.

(* DataPath(parts..., source_data=src).mods().get_data(data, return_paths) *)
Definition run_get (t : pathterm pyval) (data : option pyval) (rp : bool) : res pyval :=
  let* p := mk_path T idlit t in get_data T res0 p data rp.
