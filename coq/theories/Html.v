(* Model of schema.write_tree_html: the writer produces a token stream (open tag / close tag /
   text), rendered to the string the implementation returns.  html.escape and the back-tick
   substitution re.sub(r"`(.*?)`", r"<code>\1</code>", s) are modelled exactly. *)
From Coq Require Import ZArith NArith List Bool String Ascii Lia.
Import ListNotations.
Local Open Scope string_scope.
Local Open Scope list_scope.
Local Notation "a +++ b" := (String.append a b) (right associativity, at level 60).

(* ---- html.escape(s, quote=True) ---- *)
Fixpoint html_escape (s : string) : string :=
  match s with
  | EmptyString => EmptyString
  | String c r =>
      let e := html_escape r in
      if Ascii.eqb c "&" then "&amp;" +++ e
      else if Ascii.eqb c "<" then "&lt;" +++ e
      else if Ascii.eqb c ">" then "&gt;" +++ e
      else if Ascii.eqb c """" then "&quot;" +++ e
      else if Ascii.eqb c "'" then "&#x27;" +++ e
      else String c e
  end.

(* ---- tokens ---- *)
Inductive tok :=
| TOpen (name : string) (attrs : string)    (* <name attrs> ; attrs is already-rendered attribute text *)
| TClose (name : string)
| TText (s : string).                        (* text that is emitted as it is (already escaped) *)

Definition render_tok (t : tok) : string :=
  match t with
  | TOpen n a => ("<" +++ n +++ a +++ ">")
  | TClose n => ("</" +++ n +++ ">")
  | TText s => s
  end.
Definition render (l : list tok) : string := String.concat "" (map render_tok l).

(* ---- re.sub(r"`(.*?)`", r"<code>\1</code>", s) on escaped text ---- *)
Definition backtick : ascii := "`"%char.
Definition newline : ascii := "010"%char.

(* the text up to the next back-tick, if one comes before any newline *)
Fixpoint until_tick (s : string) : option (string * string) :=
  match s with
  | EmptyString => None
  | String c r =>
      if Ascii.eqb c backtick then Some (EmptyString, r)
      else if Ascii.eqb c newline then None
      else match until_tick r with Some (a, b) => Some (String c a, b) | None => None end
  end.

Fixpoint code_toks_aux (fuel : nat) (s : string) (cur : string) : list tok :=
  match fuel with
  | O => [TText (cur +++ s)]
  | S f =>
      match s with
      | EmptyString => match cur with EmptyString => [] | _ => [TText cur] end
      | String c r =>
          if Ascii.eqb c backtick then
            match until_tick r with
            | Some (inner, rest) =>
                (match cur with EmptyString => [] | _ => [TText cur] end)
                ++ [TOpen "code" ""; TText inner; TClose "code"] ++ code_toks_aux f rest EmptyString
            | None => code_toks_aux f r (cur +++ String c EmptyString)
            end
          else code_toks_aux f r (cur +++ String c EmptyString)
      end
  end.
Definition code_toks (s : string) : list tok := code_toks_aux (S (String.length s)) s EmptyString.

(* ---- the documentation tree as handed to the writer ---- *)
Inductive pelem := PEMap | PEList | PEStr (s : string).      (* MapValue(), ListValue(), or str(part) *)

Inductive tnode := TNode
  (path : list pelem)
  (path_repr : string)                (* str(child["path"]): used as data-node-path of the children block *)
  (type_info_in_parent : bool)
  (type_fmt key_type_fmt map_value_type_fmt list_value_type_fmt : string)   (* "" when absent / falsy *)
  (cond : string)                     (* str(child.get("condition")) *)
  (required : bool)
  (doc : option (list string * list string))
  (children : option (list tnode)).

Fixpoint nat_digits (fuel n : nat) (acc : string) : string :=
  match fuel with
  | O => acc
  | S f => let d := String (ascii_of_nat (48 + n mod 10)) acc in
           if Nat.ltb n 10 then d else nat_digits f (n / 10) d
  end.
Definition nat_to_str (n : nat) : string := nat_digits (S n) n EmptyString.

Definition span (cls : string) (inner : list tok) : list tok :=
  [TOpen "span" (" class=""" +++ cls +++ """")] ++ inner ++ [TClose "span"].
Definition divc (cls : string) (inner : list tok) : list tok :=
  [TOpen "div" (" class=""" +++ cls +++ """")] ++ inner ++ [TClose "div"].

Definition empty_map_str := "[map-value]".
Definition empty_lst_str := "[list-value]".
Definition pct (s : string) : string :=   (* "[" -> "%5B", "]" -> "%5D" on the two fixed strings *)
  if String.eqb s empty_map_str then "%5Bmap-value%5D" else "%5Blist-value%5D".

(* the three renderings of one path element: in the heading, in the section id, in the title *)
Definition pe_heading (e : pelem) : list tok :=
  match e with
  | PEMap => span "valida-tree null-condition-path-elem" [TText empty_map_str]
  | PEList => span "valida-tree null-condition-path-elem" [TText empty_lst_str]
  | PEStr s => [TText (html_escape s)]
  end.
Definition pe_id (e : pelem) : string :=
  match e with PEMap => pct empty_map_str | PEList => pct empty_lst_str | PEStr s => html_escape s end.
Definition pe_title (e : pelem) : string :=
  match e with PEMap => empty_map_str | PEList => empty_lst_str | PEStr s => html_escape s end.

Definition arrow : string := " " +++ String (ascii_of_nat 226) (String (ascii_of_nat 134) (String (ascii_of_nat 146) " ")).

Section Writer.
  Variable anchor : option string.          (* anchor_root *)
  Variable heading_start : nat.

  Definition with_anchor (l : list string) : list string :=
    match anchor with Some a => if String.eqb a "" then l else a :: l | None => l end.

  Definition type_line (type_fmt key_fmt val_fmt list_fmt : string) : list (list tok) :=
    if String.eqb type_fmt "" then []
    else
      [ span "valida-tree type-name" [TText ("type: " +++ html_escape type_fmt)]
        ++ (if String.eqb key_fmt "" then [] else TText " " :: span "valida-tree key-type-name" [TText ("(key: " +++ html_escape key_fmt +++ ")")])
        ++ (if String.eqb val_fmt "" then [] else TText " " :: span "valida-tree map-val-type-name" [TText ("(value: " +++ html_escape val_fmt +++ ")")])
        ++ (if String.eqb list_fmt "" then [] else TText " " :: span "valida-tree list-type-name" [TText ("(of: " +++ html_escape list_fmt +++ ")")]) ].

  Fixpoint join_toks (sep : string) (l : list (list tok)) : list tok :=
    match l with
    | [] => []
    | [x] => x
    | x :: r => x ++ [TText sep] ++ join_toks sep r
    end.

  Definition doc_toks (doc : option (list string * list string)) : list tok :=
    match doc with
    | None => []
    | Some (descr, examples) =>
        flat_map (fun p => [TOpen "p" " class=""valida-tree doc"""] ++ code_toks (html_escape p) ++ [TClose "p"]) descr
        ++ flat_map (fun e => [TOpen "p" " class=""valida-tree doc-example"""]
                              ++ span "valida-tree doc-example-name" [TText "Example: "]
                              ++ code_toks (html_escape e) ++ [TClose "p"]) examples
    end.

  (* write_tree_html(nested_tree, _path=path_repr or None, _depth) *)
  Fixpoint node_toks (top : bool) (show_root : bool) (depth : nat) (n : tnode) : list tok :=
    match n with
    | TNode path path_repr tip type_fmt key_fmt val_fmt list_fmt cond required doc children =>
        let has_children := match children with Some (_ :: _) => true | _ => false end in
        if tip && negb has_children then []
        else
          let ids := with_anchor (map pe_id path) in
          let titles := with_anchor (map pe_title path) in
          let sec_id := "vld-" +++ String.concat "-" ids in
          let last_heading : option (list tok) :=
            match rev path with
            | e :: _ => Some (pe_heading e)
            | [] => match anchor with Some a => if String.eqb a "" then None else Some [TText a] | None => None end
            end in
          let heading :=
            match last_heading with
            | Some h =>
                if (Nat.ltb 0 depth) || show_root then
                  let lev := "h" +++ nat_to_str (heading_start + depth) in
                  divc "valida-tree path-name"
                    ([TOpen lev (" title=""" +++ String.concat arrow titles +++ """")] ++ h
                     ++ [TOpen "a" (" class=""headerlink"" href=""#" +++ sec_id +++ """"); TText "#"; TClose "a"; TClose lev])
                else []
            | None => []
            end in
          let lines := type_line type_fmt key_fmt val_fmt list_fmt
                       ++ (if top then [] else [span "valida-tree required-name" [TText (if required then "required" else "optional")]]) in
          [TOpen "div" " class=""valida-tree node-child"""; TOpen "section" (" class=""valida-tree-section"" id=""" +++ sec_id +++ """")]
          ++ heading
          ++ [TOpen "div" " class=""valida-tree node-info"""]
          ++ divc "valida-tree node-metadata"
               (join_toks ", " lines
                ++ divc "valida-tree condition" ([TText "Condition: "; TOpen "code" ""; TText (html_escape cond); TClose "code"]))
          ++ doc_toks doc
          ++ [TClose "div"]
          ++ (match children with
              | Some cs =>
                  let inner := (fix go (l : list tnode) : list tok := match l with
                                  | [] => [] | c :: r => node_toks false true (S depth) c ++ go r end) cs in
                  match inner with
                  | [] => []
                  | _ => [TOpen "div" (" class=""valida-tree node"" data-node-path=""" +++ html_escape (match path with [] => "" | _ => path_repr end) +++ """")] ++ inner ++ [TClose "div"]
                  end
              | None => []
              end)
          ++ [TClose "section"; TClose "div"]
    end.

  Definition tree_toks (show_root : bool) (nodes : list tnode) : list tok :=
    let inner := flat_map (node_toks true show_root 0) nodes in
    match inner with
    | [] => []
    | _ => [TOpen "div" " class=""valida-tree node top-level-node"" data-node-path="""""] ++ inner ++ [TClose "div"]
    end.

  Definition write_tree_html (show_root : bool) (nodes : list tnode) : string := render (tree_toks show_root nodes).
End Writer.

(* ---- well-formedness of a token stream ---- *)
Fixpoint balanced_aux (stack : list string) (l : list tok) : bool :=
  match l with
  | [] => match stack with [] => true | _ => false end
  | TOpen n _ :: r => balanced_aux (n :: stack) r
  | TClose n :: r => match stack with m :: s => String.eqb n m && balanced_aux s r | [] => false end
  | TText _ :: r => balanced_aux stack r
  end.
Definition balanced (l : list tok) : bool := balanced_aux [] l.

(* characters that must never reach the output unescaped from schema-supplied text *)
Fixpoint no_raw_meta (s : string) : bool :=
  match s with
  | EmptyString => true
  | String c r => negb (Ascii.eqb c "<") && negb (Ascii.eqb c ">") && negb (Ascii.eqb c """") && no_raw_meta r
  end.
