(* The model instantiated with the tables generated from /repo's current source,
   and the entry points evaluated by the correspondence check. *)
From Coq Require Import ZArith NArith List Bool String.
From Valida Require Import Py Lang Defs Cond Dsl Check.
From Valida.Gen Require Import TablesGen.
Import ListNotations.
Local Open Scope string_scope.
Local Open Scope list_scope.

Definition T := gen_tables.

Definition idlit (v : pyval) : pyval := v.
Definition res0 (v : pyval) : res pyval := Ok v.

(* cond.filter(doc) -> (result, data, keys, failure_indices) *)
Definition run_filter_cond (c : cond pyval) (doc : pyval) : res pyval :=
  let* _ := entry_check c doc in
  let* d := mk_data doc in
  let* f := filter_tree T res0 c d in
  Ok (obs_filter d f).

Definition run_filter (t : dslc pyval) (doc : pyval) : res pyval :=
  let* c := build T idlit t in run_filter_cond c doc.

Definition first_result (o : pyval) : res pyval :=
  match o with VTuple (VList (b :: _) :: _) => Ok b | _ => Err IndexError end.
Definition all_result (o : pyval) : pyval :=
  match o with
  | VTuple (VList r :: _) => VBool (forallb (fun b => match b with VBool true => true | _ => false end) r)
  | _ => VNone
  end.

(* cond.test(datum) *)
Definition run_test (t : dslc pyval) (datum : pyval) : res pyval :=
  let* c := build T idlit t in
  let kind := match c with CLeaf l => l_kind l | _ => DValue end in
  match kind with
  | DIndex => Err NotImplementedError
  | DKey =>
      let* n := py_len datum in
      if py_eq n (VInt 1) then let* o := run_filter t datum in first_result o else Err TypeError
  | DValue => let* o := run_filter t (VList [datum]) in first_result o
  end.

(* cond.test_all(doc) *)
Definition run_test_all (t : dslc pyval) (doc : pyval) : res pyval :=
  let* o := run_filter t doc in Ok (all_result o).
