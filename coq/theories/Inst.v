(* The model instantiated with the tables generated from /repo's current source,
   and the entry points evaluated by the correspondence check. *)
From Coq Require Import ZArith NArith List Bool String.
From Valida Require Import Py Lang Defs Cond Dsl Check.
From Valida.Gen Require Import TablesGen.
Import ListNotations.
Local Open Scope string_scope.
Local Open Scope list_scope.

Definition T := gen_tables.

Definition idlit (v : pyval) : pyval := v.
Definition res0 (v : pyval) : res pyval := Ok v.

(* cond.filter(doc) -> (result, data, keys, failure_indices) *)
Definition run_filter (t : dslc pyval) (doc : pyval) : res pyval :=
  let* c := build T idlit t in
  let* _ := entry_check c doc in
  let* d := mk_data doc in
  let* f := filter_tree T res0 c d in
  Ok (obs_filter d f).
