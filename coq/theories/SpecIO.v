(* Model of the serialisers (to_json_like / to_part_specs / to_spec / simplify) and of
   Rule.from_spec / Schema.from_json_like; json_norm = what json.loads(json.dumps(x)) does to a value. *)
From Coq Require Import ZArith NArith List Bool String Ascii Lia.
From Valida Require Import Py Lang Defs Cond Dsl Path Cast Str SpecDefs RuleDefs Spec.
Import ListNotations.
Local Open Scope string_scope.
Local Open Scope list_scope.

(* ---- JSON ---- *)

(* str(key) for the key types json.dumps accepts *)
Definition json_key (k : pyval) : option pyval :=
  match k with
  | VStr _ => Some k
  | _ => None            (* int / float / bool / None keys become strings: not a fixed point of the round trip *)
  end.

(* Some v' = json.loads(json.dumps(v)) up to the stringification of non-str keys; None = dumps raises *)
Fixpoint json_norm (v : pyval) : option pyval :=
  match v with
  | VNone | VBool _ | VInt _ | VFloat _ _ _ | VStr _ => Some v
  | VList l | VTuple l =>
      option_map VList
        ((fix go (l : list pyval) : option (list pyval) := match l with
            | [] => Some []
            | x :: r => match json_norm x, go r with Some x', Some r' => Some (x' :: r') | _, _ => None end end) l)
  | VDict d =>
      option_map VDict
        ((fix go (d : list (pyval * pyval)) : option (list (pyval * pyval)) := match d with
            | [] => Some []
            | (k, x) :: r =>
                match k with
                | VStr _ | VInt _ | VFloat _ _ _ | VBool _ | VNone =>
                    match json_norm x, go r with Some x', Some r' => Some ((k, x') :: r') | _, _ => None end
                | _ => None
                end end) d)
  | VType _ | VObj _ => None
  end.

(* pure JSON data that survives the text round trip unchanged: str keys only, no tuples *)
Fixpoint json_pure (v : pyval) : bool :=
  match v with
  | VNone | VBool _ | VInt _ | VFloat _ _ _ | VStr _ => true
  | VList l => forallb json_pure l
  | VDict d => (fix go (d : list (pyval * pyval)) : bool := match d with [] => true
                  | (VStr _, x) :: r => json_pure x && go r | _ => false end) d
  | _ => false
  end.

Record rule_extra := { rx_doc : pyval; rx_cast_given : bool }.

Section IO.
  Variable T : tables.
  Variable X : spec_tables.

  (* ---- conditions ---- *)

  Fixpoint has_path_key (d : list (pyval * pyval)) : bool :=
    match d with [] => false | (VStr k, _) :: r => str_contains "path" k || has_path_key r | _ :: r => has_path_key r end.

  (* _arg_to_json_like on a literal: mappings are escaped at exactly the places from_spec inspects
     (the argument itself, items of a list argument, values of a mapping argument) *)
  Definition escape_map (d : list (pyval * pyval)) : pyval :=
    if has_path_key d then
      VDict (map (fun kv => match fst kv with VStr k => (VStr (str_replace "path" "\path" k), snd kv) | _ => kv end) d)
    else VDict d.

  (* deeper than from_spec looks, only plain data can be written: no type objects, no data paths / other objects *)
  Fixpoint deep_plain (v : pyval) : bool :=
    match v with
    | VType _ | VObj _ => false
    | VList l | VTuple l => forallb deep_plain l
    | VDict d => forallb (fun kv => deep_plain (snd kv)) d
    | _ => true
    end.

  Definition item_to_json (cast_types : bool) (v : pyval) : res pyval :=
    match v with
    | VType t =>   (* a type without a spec name, or where names are not read back, is refused *)
        if cast_types then match assoc_ty t (sx_inv_dtype X) with Some n => Ok (VStr n) | None => Err TypeError end
        else Err TypeError
    | VStr _ => if cast_types then Err TypeError else Ok v   (* from_spec reads every string there as a type name *)
    | VDict d => if forallb (fun kv => deep_plain (snd kv)) d then Ok (escape_map d) else Err TypeError
    | VList l | VTuple l => if forallb deep_plain l then Ok v else Err TypeError
    | VObj _ => Err OtherExc          (* an object inside a literal: not modelled *)
    | _ => Ok v
    end.

  Definition val_to_json (cast_types : bool) (v : pyval) : res pyval :=
    match v with
    | VList l | VTuple l => let* l' := mapM (item_to_json cast_types) l in Ok (VList l')
    | VDict d =>
        if has_path_key d then (if forallb (fun kv => deep_plain (snd kv)) d then Ok (escape_map d) else Err TypeError)
        else let* d' := mapM (fun kv => let* x := item_to_json cast_types (snd kv) in Ok (fst kv, x)) d in Ok (VDict d')
    | _ => item_to_json cast_types v
    end.

  Section CondIO.
    Variable A : Type.
    Variable arg_to_json : bool -> A -> res pyval.
    Variable arg_raw : A -> res pyval.          (* the argument as it is (deep-copied) *)

    (* an argument written as an item: a literal at item level, a data path as its spec *)
    Definition arg_item (cast_types : bool) (a : A) : res pyval :=
      match arg_raw a with
      | Ok v => item_to_json cast_types v
      | Err _ => arg_to_json cast_types a
      end.

    Definition leaf_to_json (l : leaf A) : res pyval :=
      if is_null_leaf l then Ok (VDict []) else
      match find_class (t_classes T) (l_cls l), find_def (t_defs T) (l_call l) with
      | Some k, Some fd =>
          let key := (k_label k ++ "." ++ l_call l)%string in
          let cast_types := str_contains "dtype" key || str_contains "is_instance" key in
          let npk := Nat.pred (List.length (s_params (f_sig fd))) in
          let va := match s_vararg (f_sig fd) with Some _ => true | None => false end in
          let kw := match s_kwarg (f_sig fd) with Some _ => true | None => false end in
          let* v :=
            if (npk =? 0)%nat && negb va && negb kw then Ok VNone
            else if (npk =? 1)%nat && negb va && negb kw then
              match l_args l ++ map snd (l_kwargs l) with
              | a :: _ => arg_to_json cast_types a
              | [] => Err IndexError
              end
            else if (1 <? npk)%nat && negb va && negb kw then
              (* several parameters: each argument is a VALUE of the mapping from_spec receives: written at item level *)
              let* items := (fix go (kws : list (string * A)) : res (list (pyval * pyval)) := match kws with
                               | [] => Ok []
                               | (k', a) :: r => let* x := arg_item cast_types a in let* r' := go r in Ok ((VStr k', x) :: r') end)
                              (l_kwargs l) in
              Ok (VDict items)
            else if kw && negb va then
              (* the keyword mapping is serialised like any mapping argument: escaped if a name contains "path" *)
              if existsb (fun ka => str_contains "path" (fst ka)) (l_kwargs l) then
                let* items := (fix go (kws : list (string * A)) : res (list (pyval * pyval)) := match kws with
                                 | [] => Ok []
                                 | (k', a) :: r => let* x := arg_raw a in let* r' := go r in Ok ((VStr k', x) :: r') end)
                                (l_kwargs l) in
                Ok (escape_map items)
              else
                (* each value of the keyword mapping is an ITEM of a mapping argument: a literal list is copied as it is,
                   a literal mapping is escaped, a data path written as its spec *)
                let* items := (fix go (kws : list (string * A)) : res (list (pyval * pyval)) := match kws with
                                 | [] => Ok []
                                 | (k', a) :: r => let* x := arg_item cast_types a in let* r' := go r in Ok ((VStr k', x) :: r') end)
                                (l_kwargs l) in
                Ok (VDict items)
            else if va && (npk =? 0)%nat && negb kw then
              (* *args: each argument is an ITEM of the list from_spec receives *)
              let* items := mapM (arg_item cast_types) (l_args l) in Ok (VList items)
            else Err NotImplementedError in
          Ok (VDict [(VStr key, v)])
      | _, _ => Err AttributeError
      end.

    Definition bop_symbol (o : bop) : string :=
      match o with BoAnd => "and" | BoOr => "or" | BoXor => "xor" end.

    Fixpoint cond_to_json (c : cond A) : res pyval :=
      match c with
      | CLeaf l => leaf_to_json l
      | CBin o a b =>
          let* x := cond_to_json a in
          let* y := cond_to_json b in
          Ok (VDict [(VStr (bop_symbol o), VList [x; y])])
      end.
  End CondIO.

  Definition arg0_to_json (cast_types : bool) (v : pyval) : res pyval := val_to_json cast_types v.
  Definition cond0_to_json := cond_to_json pyval arg0_to_json (fun v => Ok v).

  (* ---- parts and paths (built objects) ---- *)

  Definition single_leaf (c : cond pyval) : option (leaf pyval) :=
    match c with CLeaf l => Some l | _ => None end.

  Definition kw_value (l : leaf pyval) : option pyval :=
    (fix go (kws : list (string * pyval)) := match kws with [] => None
       | (k, v) :: r => if String.eqb k "value" then Some v else go r end) (l_kwargs l).

  (* simplify(): the primitive a part stands for, if any *)
  Definition simple_of (p : part pyval) : res (option pyval) :=
    match p with
    | PMap c None =>
        match single_leaf c with
        | Some l => if String.eqb (l_cls l) "Key" && String.eqb (l_call l) "equal_to"
                    then match kw_value l with
                         | Some (VStr _ as v) | Some (VFloat _ _ _ as v) => Ok (Some v)
                         | Some _ => Ok None
                         | None => Err KeyError
                         end
                    else Ok None
        | None => Ok None
        end
    | PMol c lc mc None =>
        if is_null c then
          match single_leaf lc, single_leaf mc with
          | Some ll, Some ml =>
              if String.eqb (l_cls ll) "Index" && String.eqb (l_call ll) "equal_to"
                 && String.eqb (l_cls ml) "Key" && String.eqb (l_call ml) "equal_to"
              then match kw_value ll with
                   | Some lv =>
                       (* only an int (or bool) is read back as a map-or-list part by the DataPath constructor *)
                       match lv with
                       | VInt _ | VBool _ =>
                           match kw_value ml with
                           | Some mv => if pytype_eqb (py_type lv) (py_type mv) && py_eq lv mv then Ok (Some lv) else Ok None
                           | None => Err KeyError
                           end
                       | _ => Ok None
                       end
                   | None => Err KeyError
                   end
              else Ok None
          | _, _ => Ok None
          end
        else Ok None
    | _ => Ok None
    end.

  Definition opt_cond_entry (name : string) (c : cond pyval) : res (list (pyval * pyval)) :=
    if is_null c then Ok [] else let* j := cond0_to_json c in Ok [(VStr name, j)].
  Definition label_entry (l : option pyval) : list (pyval * pyval) :=
    match l with Some v => [(VStr "label", v)] | None => [] end.

  (* ContainerValue.to_spec() *)
  Definition part_to_spec (p : part pyval) : res pyval :=
    match p with
    | PMap c l => let* e := opt_cond_entry "condition" c in
                  Ok (VDict ((VStr "type", VStr "map_value") :: e ++ label_entry l))
    | PList c l => let* e := opt_cond_entry "condition" c in
                   Ok (VDict ((VStr "type", VStr "list_value") :: e ++ label_entry l))
    | PMol c lc mc l =>
        let* e1 := opt_cond_entry "condition" c in
        let* e2 := opt_cond_entry "list_condition" lc in
        let* e3 := opt_cond_entry "map_condition" mc in
        Ok (VDict ((VStr "type", VStr "map_or_list_value") :: e1 ++ e2 ++ e3 ++ label_entry l))
    end.

  (* DataPath.to_part_specs(): simplify() is evaluated for all parts first *)
  Definition path_part_specs_core (p : dpath pyval) : res pyval :=
    let* simples := mapM simple_of (p_parts p) in
    let* specs := mapM (fun ps => match snd ps with
                                  | Some v => Ok v
                                  | None => part_to_spec (fst ps)
                                  end) (combine (p_parts p) simples) in
    (* a non-concrete path keeps at least one part written in full *)
    if negb (p_concrete p) && forallb (fun s => match s with VDict _ => false | _ => true end) specs then
      match p_parts p, specs with
      | p0 :: _, _ :: rest => let* s0 := part_to_spec p0 in Ok (VList (s0 :: rest))
      | _, _ => Err IndexError
      end
    else Ok (VList specs).

  (* DataPath._to_part_specs(): source data cannot be written in specs *)
  Definition path_part_specs_inner (p : dpath pyval) : res pyval :=
    match p_src p with Some _ => Err ValueError | None => path_part_specs_core p end.
  (* DataPath.to_part_specs() / to_json_like(): nor can part specs carry the datum type / multiplicity *)
  Definition path_to_part_specs (p : dpath pyval) : res pyval :=
    match p_dt p, p_mt p with
    | DtNone, MtNone => path_part_specs_inner p
    | _, _ => Err ValueError
    end.

  Definition mt_name (m : multi_type) : option string :=
    match m with MtNone => None | MtFirst => Some "first" | MtLast => Some "last" | MtSingle => Some "single"
               | MtAll => Some "all" | MtAny => Some "any" end.
  Definition dt_name (d : datum_type) : option string :=
    match d with DtNone => None | DtDtype => Some "dtype" | DtLength => Some "length"
               | DtMapKeys => Some "map_keys" | DtMapValues => Some "map_values" end.

  (* DataPath.to_spec() *)
  Definition path_to_spec (p : dpath pyval) : res pyval :=
    let key := str_join "." ("path" :: (match mt_name (p_mt p) with Some m => [m] | None => [] end)
                                    ++ (match dt_name (p_dt p) with Some d => [d] | None => [] end)) in
    let* parts := path_part_specs_inner p in
    Ok (VDict [(VStr key, parts)]).

  (* arguments of rule conditions: literals and data paths *)
  Definition arg1_to_json (cast_types : bool) (a : arg1) : res pyval :=
    match a with
    | ALit v => val_to_json cast_types v
    | APath _ pt => let* p := mk_path T id0 pt in path_to_spec p
    end.
  Definition arg1_raw (a : arg1) : res pyval := match a with ALit v => Ok v | APath _ _ => Err TypeError end.
  Definition cond1_to_json := cond_to_json arg1 arg1_to_json arg1_raw.

  (* ---- rules ---- *)

  Definition cast_to_json (casts : list (pytype * castfn)) (given : bool) : res pyval :=
    if negb given then Ok VNone else
    let* items := mapM (fun c =>
        match assoc_ty (fst c) (map (fun x => (snd x, fst x)) (sx_cast_dtype X)) with
        | None => Err KeyError
        | Some from_name =>
            match filter (fun e => match e with (_, _, f) => match f, snd c with
                                     | CastStrBool, CastStrBool | CastStrInt, CastStrInt => true | _, _ => false end end) (sx_cast_lookup X) with
            | (_, to_t, _) :: _ =>
                match assoc_ty to_t (map (fun x => (snd x, fst x)) (sx_cast_dtype X)) with
                | Some to_name => Ok (VStr from_name, VStr to_name)
                | None => Err KeyError
                end
            | [] => Err KeyError
            end
        end) casts in
    Ok (VDict items).

  (* Rule.to_json_like() for a rule given as (built path, built condition, casts) *)
  Definition rule_to_json (p : dpath pyval) (c : cond arg1) (casts : list (pytype * castfn)) (cast_given : bool) : res pyval :=
    let* cj := cond1_to_json c in
    let* kj := cast_to_json casts cast_given in
    let* pj := path_to_part_specs p in
    Ok (VDict [(VStr "condition", cj); (VStr "cast", kj); (VStr "path", pj)]).

  (* Rule.from_spec(spec) -> rule term, whether a cast block was given, and the normalised doc *)
  Definition get_item (spec : pyval) (k : string) : res pyval :=
    match spec with
    | VDict d => match dict_look (VStr k) d with Some v => Ok v | None => Err KeyError end
    | _ => Err TypeError
    end.
  Definition get_opt (spec : pyval) (k : string) : option pyval :=
    match spec with VDict d => dict_look (VStr k) d | _ => None end.

  Definition strip_all (l : pyval) : res pyval :=
    match l with
    | VList items =>
        let* r := mapM (fun x => match x with VStr s => Ok (VStr (str_strip s)) | _ => Err MalformedRule end) items in Ok (VList r)
    | _ => Err MalformedRule          (* description / examples must be lists *)
    end.

  Definition norm_doc (doc : option pyval) : res pyval :=
    match doc with
    | None => Ok VNone
    | Some d =>
        if negb (py_truthy d) then Ok d else
        let* d1 :=
          match d with
          | VDict items =>
              match dict_look (VStr "description") items with
              | Some (VStr s) => Ok (VDict (map (fun kv => if py_eq (fst kv) (VStr "description") then (fst kv, VList [VStr s]) else kv) items))
              | _ => Ok d
              end
          | VStr s => Ok (VDict [(VStr "description", VList [VStr s]); (VStr "examples", VList [])])
          | VList l => Ok (VDict [(VStr "description", d); (VStr "examples", VList [])])
          | _ => Ok d
          end in
        match d1 with
        | VDict items =>
            let items1 := match dict_look (VStr "description") items with Some _ => items | None => items ++ [(VStr "description", VList [])] end in
            let items2 := match dict_look (VStr "examples") items1 with Some _ => items1 | None => items1 ++ [(VStr "examples", VList [])] end in
            let* desc := match dict_look (VStr "description") items2 with Some v => strip_all v | None => Err KeyError end in
            let* ex := match dict_look (VStr "examples") items2 with Some v => strip_all v | None => Err KeyError end in
            Ok (VDict (map (fun kv => if py_eq (fst kv) (VStr "description") then (fst kv, desc)
                                      else if py_eq (fst kv) (VStr "examples") then (fst kv, ex) else kv) items2))
        | _ => Err TypeError           (* `"description" in doc` on something that is not a container of str *)
        end
    end.

  Definition parse_casts (cast : option pyval) : res (list (pytype * castfn) * bool) :=
    match cast with
    | None | Some VNone => Ok ([], false)
    | Some (VDict d) =>
        let* l := mapM (fun kv =>
            let* from_t := match fst kv with
                           | VStr s => match assoc_str s (sx_cast_dtype X) with Some t => Ok t | None => Err MalformedRule end
                           | _ => Err MalformedRule
                           end in
            let* to_t := match snd kv with
                         | VStr s => match assoc_str s (sx_cast_dtype X) with Some t => Ok t | None => Err MalformedRule end
                         | v => if py_hashable v then Err MalformedRule else Err TypeError
                         end in
            match filter (fun e => match e with (a, b, _) => pytype_eqb a from_t && pytype_eqb b to_t end) (sx_cast_lookup X) with
            | (_, _, f) :: _ => Ok (from_t, f)
            | [] => Err MalformedRule
            end) d in
        Ok (l, true)
    | Some v => Err MalformedRule
    end.

  Definition rule_from_spec (spec : pyval) : res (ruleterm * rule_extra) :=
    let* pv := get_item spec "path" in
    let* parts := py_iter pv in
    let* pt := from_part_specs T X parts in
    let* cv := get_item spec "condition" in
    let* (ct, _) := cond1_from_spec T X cv in
    let* doc := norm_doc (get_opt spec "doc") in
    let* (casts, given) := parse_casts (get_opt spec "cast") in
    Ok ({| rt_path_t := pt; rt_cond_t := ct; rt_cast_t := casts |}, {| rx_doc := doc; rx_cast_given := given |}).

End IO.
