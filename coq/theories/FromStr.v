(* Model of DataPath.from_str(path_str, delimiter): int(str) is modelled (Cast.v); float(str) is an
   oracle supplied per case by the harness (CPython's own outcome for each token). *)
From Coq Require Import ZArith NArith List Bool String Ascii.
From Valida Require Import Py Lang Defs Cond Dsl Path Cast Str.
Import ListNotations.
Local Open Scope string_scope.
Local Open Scope list_scope.

Section FS.
  Variable float_of : string -> option pyval.     (* float(token): Some (VFloat ...) or None for ValueError *)

  Definition str_part (tok : string) : pterm pyval :=
    match int_of_str tok with
    | Some z =>
        PtMol (Some (KCond (DLeaf "Key" "in_" [VTuple [VStr tok; VInt z]] []))) (Some (KLit (VInt z))) None None None None None
    | None =>
        match float_of tok with
        | Some f => PtMap (Some (KCond (DLeaf "Key" "in_" [VTuple [VStr tok; f]] []))) None None None
        | None => PtPrim (VStr tok)
        end
    end.

  Definition path_from_str (s : string) (delim : ascii) : pathterm pyval :=
    let toks := match s with EmptyString => [] | _ => str_split delim s end in
    {| pt_parts := map str_part toks; pt_mods := []; pt_src := None |}.
End FS.
