(* The textual failure report: RuleTest.get_failures_string (rules.py) and ValidatedData.get_failures_string (schema.py).

   What the report is assembled FROM is an input of this model: for every failure the text repr() gives for its concrete path and
   for its value (repr of Python values is outside the model) and its reason lines (f-strings over the names in the truth table).
   What is modelled is the assembly: which rule tests are reported, under which number, in which order, with which head line. *)
From Coq Require Import List Bool String Ascii Arith DecimalString.
Import ListNotations.
Local Open Scope list_scope.
Local Open Scope string_scope.

Record ftext := { ft_path : string; ft_value : string; ft_reasons : list string }.
(* one rule test: is_valid, tested, its failures *)
Record rtext := { rx_valid : bool; rx_tested : bool; rx_fails : list ftext }.

Definition nl : string := String "010" "".
Definition dec (n : nat) : string := NilEmpty.string_of_uint (Nat.to_uint n).
Fixpoint cat (l : list string) : string := match l with [] => "" | x :: r => x ++ cat r end.
Fixpoint dashes (n : nat) : string := match n with O => "" | S m => "-" ++ dashes m end.

(* f"Path: {fail.path!r}\nValue: {fail.value!r}\nReasons:\n" + "".join(" " + reason + "\n") *)
Definition failure_text (f : ftext) : string :=
  "Path: " ++ ft_path f ++ nl ++ "Value: " ++ ft_value f ++ nl ++ "Reasons:" ++ nl
  ++ cat (map (fun r => " " ++ r ++ nl) (ft_reasons f)).

(* RuleTest.get_failures_string *)
Definition rule_report (r : rtext) : string :=
  match rx_fails r with
  | [] => "Rule test is valid." ++ nl
  | fs => cat (map failure_text fs)
  end.

Definition count_tested (rs : list rtext) : nat := List.length (filter rx_tested rs).
Definition count_failures (rs : list rtext) : nat := fold_right (fun r n => List.length (rx_fails r) + n) 0 rs.

(* the block of rule number idx (1-based), empty for a valid rule *)
Definition rule_block (idx : nat) (r : rtext) : string :=
  if rx_valid r then ""
  else let m := "Rule #" ++ dec idx in m ++ nl ++ dashes (String.length m) ++ nl ++ rule_report r ++ nl.

Fixpoint blocks (idx : nat) (rs : list rtext) : string :=
  match rs with [] => "" | r :: rest => rule_block idx r ++ blocks (S idx) rest end.

(* ValidatedData.get_failures_string *)
Definition schema_report (rs : list rtext) : string :=
  let msg := dec (count_tested rs) ++ "/" ++ dec (List.length rs) ++ " rules were tested." in
  if forallb rx_valid rs then "Data is valid. " ++ msg ++ nl
  else
    let nf := count_failures rs in
    dec nf ++ " rule" ++ (if Nat.ltb 1 nf then "s" else "") ++ " failed validation. " ++ msg ++ nl ++ nl ++ blocks 1 rs.
