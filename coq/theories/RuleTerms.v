(* Typed rules back to API terms (what the rule / schema theorems quantify over). *)
From Coq Require Import ZArith NArith List Bool String.
From Valida Require Import Py Lang Defs DocSem PathSpec Cast RuleDefs RuleSpec.
Import ListNotations.

Fixpoint dslc_map {A B} (f : A -> B) (t : dslc A) : dslc B :=
  match t with
  | DLeaf cls m pos kw => DLeaf cls m (map f pos) (map (fun ka => (fst ka, f (snd ka))) kw)
  | DNull => DNull
  | DBin o a b => DBin o (dslc_map f a) (dslc_map f b)
  end.

Definition srule_term (r : srule) : ruleterm :=
  {| rt_path_t := spathterm_term (sr_path r);
     rt_cond_t := dslc_map ALit (qterm (sr_cond r));
     rt_cast_t := sr_cast r |}.

Definition srule_ok (r : srule) : bool := spathterm_ok (sr_path r) && qtree_ok (sr_cond r).
