(* SPEC for rules and schemas (C05, C06, C15, C17).  Independent of Gen/*.v. *)
From Coq Require Import ZArith NArith List Bool String Lia.
From Valida Require Import Py Lang Defs DocSem PathSpec Cast.
Import ListNotations.
Local Open Scope string_scope.
Local Open Scope list_scope.
Local Open Scope Z_scope.

Record srule := {
  sr_path : spathterm;
  sr_cond : qtree;                        (* value-kind tree, arguments already literal *)
  sr_cast : list (pytype * castfn)
}.

Fixpoint spec_first_cast (casts : list (pytype * castfn)) (v : pyval) : option pyval :=
  match casts with
  | [] => None
  | (t, f) :: r =>
      if inst_of v t then match apply_cast f v with Ok v' => Some v' | Err _ => spec_first_cast r v end
      else spec_first_cast r v
  end.

(* the document with every castable selected node replaced by its cast value *)
Definition cast_doc (casts : list (pytype * castfn)) (sel : list (list pyval * pyval)) (doc : pyval) : pyval :=
  fold_left (fun acc pv =>
               match spec_first_cast casts (snd pv) with
               | Some v' => match fst pv with
                            | [] => acc
                            | cp => match set_at acc cp v' with Some d => d | None => acc end
                            end
               | None => acc
               end) sel doc.

Definition value_only (t : qtree) : bool :=
  forallb (fun cq => dkind_eqb (scls_kind (fst cq)) DValue) (qleaves t).

(* (is_valid, tested, num_failures, [(index, value, path, has-a-reason)]) *)
Definition spec_verdict (sel : list (list pyval * pyval)) (t : qtree) : pyval :=
  match sel with
  | [] => VTuple [VBool true; VBool false; VInt 0; VList []]
  | _ =>
      let n := qnorm t in
      let items := combine (zidx 0 (List.length sel)) (map snd sel) in
      let result := map (sat_tree n) items in
      let fails :=
        (fix go (i : Z) (sel : list (list pyval * pyval)) (r : list bool) : list pyval :=
           match sel, r with
           | (cp, v) :: s', b :: r' =>
               if b then go (i + 1) s' r'
               else VTuple [VInt i; v; VTuple cp; VBool true] :: go (i + 1) s' r'
           | _, _ => []
           end) 0 sel result in
      VTuple [VBool (forallb (fun b => b) result); VBool true; VInt (Z.of_nat (List.length fails)); VList fails]
  end.

(* the document a rule is judged on: the input, or its private copy with the rule's casts applied *)
Definition judged_doc (sp : spath) (r : srule) (doc : pyval) : pyval :=
  match sr_cast r with
  | [] => doc
  | casts => cast_doc casts (walk (sp_parts sp) [] doc) doc
  end.

(* Rule.test(doc): None = outside the rule domain (modifiers on the rule path, non-value conditions) *)
Definition spec_rule_test (r : srule) (doc : pyval) : option (res pyval) :=
  if negb (nonempty_container doc) then Some (Err TypeError) else
  match spath_of (sr_path r) with
  | Err e => Some (Err e)
  | Ok sp =>
      match sp_dt sp, sp_mt sp, sp_src sp with
      | SdNone, SmNone, None =>
          if negb (buildable (sr_cond r)) then Some (Err TypeError)
          else if negb (value_only (sr_cond r)) then None
          else
            let jd := judged_doc sp r doc in
            Some (Ok (VTuple [spec_verdict (walk (sp_parts sp) [] jd) (sr_cond r); jd]))
      | _, _, _ => None
      end
  end.

(* ---- schemas ---- *)

Fixpoint sinsert (r : srule * nat) (l : list (srule * nat)) : list (srule * nat) :=
  match l with
  | [] => [r]
  | x :: xs => if (snd x <? snd r)%nat then x :: sinsert r xs else r :: x :: xs
  end.
(* shortest path first, ties in the given order *)
Definition ssort (rs : list (srule * nat)) : list (srule * nat) := fold_right sinsert [] rs.

(* ---- API terms to typed rules; data-path arguments are replaced by what they select (C17) ---- *)
From Valida Require Import RuleDefs.

(* a comparison that no datum satisfies and that is defined everywhere *)
Definition never_leaf : dslc pyval := DLeaf "Value" "is_instance" [] [].

Section Subst.
  Variable doc : pyval.

  (* None: outside the typed fragment (no verdict); Err: the path object cannot even be built
     (that fails the construction of the rule); Ok (Err _): built but unresolvable on this document *)
  Definition subst_arg (a : arg1) : option (res (res pyval)) :=
    match a with
    | ALit v => Some (Ok (Ok v))
    | APath _ pt =>
        match parse_pathterm pt with
        | None => None
        | Some st => match spath_of st with
                     | Err e => Some (Err e)
                     | Ok sp => Some (Ok (spec_get_data sp (Some doc) false))
                     end
        end
    end.

  (* all arguments of one leaf, in evaluation order: (construction outcome of (all resolved?)) *)
  Fixpoint subst_args (l : list arg1) : option (res (option (list pyval))) :=
    match l with
    | [] => Some (Ok (Some []))
    | a :: r =>
        match subst_arg a with
        | None => None
        | Some (Err e) => Some (Err e)
        | Some (Ok v) =>
            match subst_args r with
            | None => None
            | Some (Err e) => Some (Err e)
            | Some (Ok vs) =>
                Some (Ok (match v, vs with Ok x, Some xs => Some (x :: xs) | _, _ => None end))
            end
        end
    end.

  Fixpoint subst_kw (l : list (string * arg1)) : option (res (option (list (string * pyval)))) :=
    match l with
    | [] => Some (Ok (Some []))
    | (k, a) :: r =>
        match subst_arg a with
        | None => None
        | Some (Err e) => Some (Err e)
        | Some (Ok v) =>
            match subst_kw r with
            | None => None
            | Some (Err e) => Some (Err e)
            | Some (Ok vs) =>
                Some (Ok (match v, vs with Ok x, Some xs => Some ((k, x) :: xs) | _, _ => None end))
            end
        end
    end.

  (* an argument that cannot be resolved makes the comparison undefined: no datum satisfies it.
     Construction errors of the leaf itself (arity) are left to the parse of the substituted term. *)
  Fixpoint subst_cond (t : dslc arg1) : option (res (dslc pyval)) :=
    match t with
    | DNull => Some (Ok DNull)
    | DBin o a b =>
        match subst_cond a with
        | None => None
        | Some (Err e) => Some (Err e)
        | Some (Ok x) => match subst_cond b with
                         | None => None
                         | Some (Err e) => Some (Err e)
                         | Some (Ok y) => Some (Ok (DBin o x y))
                         end
        end
    | DLeaf cls m pos kw =>
        match subst_args pos with
        | None => None
        | Some (Err e) => Some (Err e)
        | Some (Ok p) =>
            match subst_kw kw with
            | None => None
            | Some (Err e) => Some (Err e)
            | Some (Ok k) =>
                match p, k with
                | Some p', Some k' => Some (Ok (DLeaf cls m p' k'))
                | _, _ => Some (Ok never_leaf)
                end
            end
        end
    end.
End Subst.

Definition spec_rule_term (rt : ruleterm) (doc : pyval) : option (res pyval) :=
  match parse_pathterm (rt_path_t rt), subst_cond doc (rt_cond_t rt) with
  | Some sp, Some (Err e) => match spath_of sp with Err e' => Some (Err e') | Ok _ => Some (Err e) end
  | Some sp, Some (Ok c) =>
      match parse_tree c with
      | Some t => if qtree_ok t
                  then spec_rule_test {| sr_path := sp; sr_cond := t; sr_cast := rt_cast_t rt |} doc
                  else None
      | None => None
      end
  | _, _ => None
  end.

(* ---- schema validation (C06, C15) ---- *)

(* one rule inside a schema: selection on the original document, casts written to the shared copy,
   the rule judged on the copy when it declares casts and on the original otherwise *)
Definition spec_rule_in_schema (sp : spath) (r : srule) (doc copy : pyval) : pyval * pyval :=
  match sr_cast r with
  | [] => (spec_verdict (walk (sp_parts sp) [] doc) (sr_cond r), copy)
  | casts =>
      let copy' := cast_doc casts (walk (sp_parts sp) [] doc) copy in
      (spec_verdict (walk (sp_parts sp) [] copy') (sr_cond r), copy')
  end.

Fixpoint spec_run_rules (rs : list (spath * srule)) (doc copy : pyval) : list pyval * pyval :=
  match rs with
  | [] => ([], copy)
  | (sp, r) :: rest =>
      let '(v, copy') := spec_rule_in_schema sp r doc copy in
      let '(vs, copy'') := spec_run_rules rest doc copy' in
      (v :: vs, copy'')
  end.

Fixpoint sinsert_rule (x : spath * srule) (l : list (spath * srule)) : list (spath * srule) :=
  match l with
  | [] => [x]
  | y :: ys => if (List.length (sp_parts (fst y)) <? List.length (sp_parts (fst x)))%nat
               then y :: sinsert_rule x ys else x :: y :: ys
  end.
Definition ssort_rules (rs : list (spath * srule)) : list (spath * srule) := fold_right sinsert_rule [] rs.

(* failure values of rules judged on the shared copy are live references into it: a container
   value shows the final state of the copy *)
Definition spec_refresh_failure (final : pyval) (f : pyval) : pyval :=
  match f with
  | VTuple [i; v; VTuple cp; b] => VTuple [i; refreshed_value final v cp; VTuple cp; b]
  | _ => f
  end.
Definition spec_refresh_verdict (final : pyval) (r : srule) (v : pyval) : pyval :=
  match sr_cast r, v with
  | _ :: _, VTuple [a; b; c; VList fs] => VTuple [a; b; c; VList (map (spec_refresh_failure final) fs)]
  | _, _ => v
  end.
Fixpoint spec_refresh (final : pyval) (rs : list (spath * srule)) (vs : list pyval) : list pyval :=
  match rs, vs with
  | (_, r) :: rs', v :: vs' => spec_refresh_verdict final r v :: spec_refresh final rs' vs'
  | _, _ => []
  end.

Definition verdict_valid (v : pyval) : bool := match v with VTuple (VBool b :: _) => b | _ => false end.
Definition verdict_tested (v : pyval) : bool := match v with VTuple (_ :: VBool b :: _) => b | _ => false end.
Definition verdict_nfail (v : pyval) : Z := match v with VTuple (_ :: _ :: VInt n :: _) => n | _ => 0 end.

(* rules in the rule domain: buildable value-kind condition, plain path *)
Definition rule_in_domain (sp : spath) (r : srule) : bool :=
  match sp_dt sp, sp_mt sp, sp_src sp with
  | SdNone, SmNone, None => value_only (sr_cond r)
  | _, _, _ => false
  end.

Fixpoint spaths_of (rs : list srule) : res (list (spath * srule)) :=
  match rs with
  | [] => Ok []
  | r :: rest =>
      let* sp := spath_of (sr_path r) in
      let* _ := if buildable (sr_cond r) then Ok tt else Err TypeError in
      let* xs := spaths_of rest in Ok ((sp, r) :: xs)
  end.

(* Schema(rules).validate(doc) ->
   (is_valid, num_failures, num_rules_tested, per-rule verdicts in application order, cast_data) *)
Definition spec_validate (rs : list srule) (doc : pyval) : option (res pyval) :=
  match spaths_of rs with
  | Err e => Some (Err e)
  | Ok prs =>
      if negb (forallb (fun pr => rule_in_domain (fst pr) (snd pr)) prs) then None
      else if negb (nonempty_container doc) then Some (Err TypeError)
      else
        let '(vs0, copy) := spec_run_rules (ssort_rules prs) doc doc in
        let vs := spec_refresh copy (ssort_rules prs) vs0 in
        Some (Ok (VTuple [VBool (forallb verdict_valid vs);
                          VInt (fold_right (fun v n => verdict_nfail v + n) 0 vs);
                          VInt (Z.of_nat (List.length (filter verdict_tested vs)));
                          VList vs; copy]))
  end.

Fixpoint parse_rules (rts : list ruleterm) (doc : pyval) : option (list srule) :=
  match rts with
  | [] => Some []
  | rt :: rest =>
      match parse_pathterm (rt_path_t rt), subst_cond doc (rt_cond_t rt), parse_rules rest doc with
      | Some sp, Some (Ok c), Some xs =>
          match parse_tree c with
          | Some t => if qtree_ok t then Some ({| sr_path := sp; sr_cond := t; sr_cast := rt_cast_t rt |} :: xs) else None
          | None => None
          end
      | _, _, _ => None
      end
  end.

Definition spec_validate_terms (rts : list ruleterm) (doc : pyval) : option (res pyval) :=
  match parse_rules rts doc with
  | Some rs => spec_validate rs doc
  | None => None
  end.
