(* Layer P: a model of the CPython values and operators valida is built on.
   MODELLED, not verified: validated against CPython by the `pysem` correspondence run. *)
From Coq Require Import ZArith NArith List Bool String Ascii Lia.
Import ListNotations.
Local Open Scope Z_scope.

(* ------------------------------------------------------------------ *)
(* types, values, exceptions                                           *)

Inductive pytype := TInt | TFloat | TStr | TList | TDict | TBool | TNone | TTuple | TPath | TType | TObj.

Definition pytype_eqb (a b : pytype) : bool :=
  match a, b with
  | TInt, TInt | TFloat, TFloat | TStr, TStr | TList, TList | TDict, TDict | TBool, TBool
  | TNone, TNone | TTuple, TTuple | TPath, TPath | TType, TType | TObj, TObj => true
  | _, _ => false
  end.

Lemma pytype_eqb_eq a b : pytype_eqb a b = true <-> a = b.
Proof. destruct a, b; cbn; split; congruence. Qed.

Inductive pyval :=
| VNone
| VBool (b : bool)
| VInt (z : Z)
| VFloat (neg : bool) (m : N) (e : Z)   (* (-1)^neg * m * 2^e, a finite binary64; canonical: m odd, or m = 0 /\ e = 0 *)
| VStr (s : string)                     (* UTF-8 bytes *)
| VList (l : list pyval)
| VTuple (l : list pyval)
| VDict (d : list (pyval * pyval))      (* insertion order *)
| VType (t : pytype)
| VObj (tag : N).                       (* inert unhashable object (DataPath, condition), equal iff same tag *)

Inductive exc :=
| TypeError | AttributeError | KeyError | IndexError | ValueError | ZeroDivisionError | OverflowError
| StrFormat          (* the outcome of `str % v`: a str, or TypeError/ValueError/OverflowError/KeyError *)
| StopIteration | RecursionError | RuntimeError | NotImplementedError
| InvalidCallable | MalformedCond | MalformedPath | MalformedRule | OtherExc.

Definition exc_eqb (a b : exc) : bool :=
  match a, b with
  | TypeError, TypeError | AttributeError, AttributeError | KeyError, KeyError | IndexError, IndexError
  | ValueError, ValueError | ZeroDivisionError, ZeroDivisionError | OverflowError, OverflowError
  | StrFormat, StrFormat | StopIteration, StopIteration | RecursionError, RecursionError
  | RuntimeError, RuntimeError | NotImplementedError, NotImplementedError
  | InvalidCallable, InvalidCallable | MalformedCond, MalformedCond | MalformedPath, MalformedPath
  | MalformedRule, MalformedRule | OtherExc, OtherExc => true
  | _, _ => false
  end.

Lemma exc_eqb_eq a b : exc_eqb a b = true <-> a = b.
Proof. destruct a, b; cbn; split; congruence. Qed.

Inductive res (A : Type) := Ok (a : A) | Err (e : exc).
Arguments Ok {A} a.
Arguments Err {A} e.

Definition bind {A B} (r : res A) (f : A -> res B) : res B :=
  match r with Ok a => f a | Err e => Err e end.
Notation "'let*' x ':=' r 'in' k" := (bind r (fun x => k)) (at level 200, x pattern, r at level 100, k at level 200).

Fixpoint mapM {A B} (f : A -> res B) (l : list A) : res (list B) :=
  match l with
  | [] => Ok []
  | x :: r => let* y := f x in let* ys := mapM f r in Ok (y :: ys)
  end.

(* ------------------------------------------------------------------ *)
(* custom induction principle for the nested value type                 *)

Section Ind.
  Variable P : pyval -> Prop.
  Hypothesis HNone : P VNone.
  Hypothesis HBool : forall b, P (VBool b).
  Hypothesis HInt : forall z, P (VInt z).
  Hypothesis HFloat : forall n m e, P (VFloat n m e).
  Hypothesis HStr : forall s, P (VStr s).
  Hypothesis HList : forall l, Forall P l -> P (VList l).
  Hypothesis HTuple : forall l, Forall P l -> P (VTuple l).
  Hypothesis HDict : forall d, Forall (fun kv => P (fst kv) /\ P (snd kv)) d -> P (VDict d).
  Hypothesis HType : forall t, P (VType t).
  Hypothesis HObj : forall t, P (VObj t).
  Fixpoint pyval_ind' (v : pyval) : P v :=
    match v with
    | VNone => HNone | VBool b => HBool b | VInt z => HInt z | VFloat n m e => HFloat n m e | VStr s => HStr s
    | VList l => HList l ((fix go l := match l return Forall P l with [] => Forall_nil _ | x :: r => Forall_cons _ (pyval_ind' x) (go r) end) l)
    | VTuple l => HTuple l ((fix go l := match l return Forall P l with [] => Forall_nil _ | x :: r => Forall_cons _ (pyval_ind' x) (go r) end) l)
    | VDict d => HDict d ((fix go d := match d return Forall (fun kv => P (fst kv) /\ P (snd kv)) d with [] => Forall_nil _ | kv :: r => Forall_cons kv (conj (pyval_ind' (fst kv)) (pyval_ind' (snd kv))) (go r) end) d)
    | VType t => HType t
    | VObj t => HObj t
    end.
End Ind.

(* ------------------------------------------------------------------ *)
(* strict structural equality (type-exact; used to compare observables) *)

Fixpoint pyval_eqb (a b : pyval) {struct a} : bool :=
  match a, b with
  | VNone, VNone => true
  | VBool x, VBool y => Bool.eqb x y
  | VInt x, VInt y => Z.eqb x y
  | VFloat n m e, VFloat n' m' e' => Bool.eqb n n' && N.eqb m m' && Z.eqb e e'
  | VStr s, VStr t => String.eqb s t
  | VList l, VList r =>
      (fix go (l r : list pyval) {struct l} := match l, r with [], [] => true | x :: xs, y :: ys => pyval_eqb x y && go xs ys | _, _ => false end) l r
  | VTuple l, VTuple r =>
      (fix go (l r : list pyval) {struct l} := match l, r with [], [] => true | x :: xs, y :: ys => pyval_eqb x y && go xs ys | _, _ => false end) l r
  | VDict d1, VDict d2 =>
      (fix go (l r : list (pyval * pyval)) {struct l} := match l, r with [], [] => true
         | (k, v) :: xs, (k', v') :: ys => pyval_eqb k k' && pyval_eqb v v' && go xs ys | _, _ => false end) d1 d2
  | VType s, VType t => pytype_eqb s t
  | VObj s, VObj t => N.eqb s t
  | _, _ => false
  end.

Lemma pyval_eqb_eq : forall a b, pyval_eqb a b = true <-> a = b.
Proof.
  induction a using pyval_ind'; intros b'; destruct b'; cbn; try (split; congruence).
  - rewrite Bool.eqb_true_iff. split; congruence.
  - rewrite Z.eqb_eq. split; congruence.
  - rewrite !andb_true_iff, Bool.eqb_true_iff, N.eqb_eq, Z.eqb_eq. split; [intros [[-> ->] ->]; reflexivity | inversion 1; auto].
  - rewrite String.eqb_eq. split; congruence.
  - revert l0. induction H as [|x r Hx Hr IH]; intros [|y ys]; try (split; congruence).
    rewrite andb_true_iff, Hx, IH. split; [intros [-> Hl]; inversion Hl; reflexivity | inversion 1; auto].
  - revert l0. induction H as [|x r Hx Hr IH]; intros [|y ys]; try (split; congruence).
    rewrite andb_true_iff, Hx, IH. split; [intros [-> Hl]; inversion Hl; reflexivity | inversion 1; auto].
  - revert d0. induction H as [|[k v] r [Hk Hv] Hr IH]; intros [|[k' v'] ys]; try (split; congruence).
    cbn in Hk, Hv. rewrite !andb_true_iff, Hk, Hv, IH. split; [intros [[-> ->] Hl]; inversion Hl; reflexivity | inversion 1; auto].
  - rewrite pytype_eqb_eq. split; congruence.
  - rewrite N.eqb_eq. split; congruence.
Qed.

(* ------------------------------------------------------------------ *)
(* numbers: bool, int and float share one exact representation          *)

Definition num := (Z * Z)%type.     (* m * 2^e; canonical: m odd, or (0, 0) *)

Fixpoint strip2 (fuel : nat) (m e : Z) : num :=
  match fuel with
  | O => (m, e)
  | S f => if m =? 0 then (0, 0) else if Z.even m then strip2 f (m / 2) (e + 1) else (m, e)
  end.
Definition canon (m e : Z) : num := strip2 (S (Z.to_nat (Z.log2 (Z.abs m)))) m e.

Definition num_of (v : pyval) : option num :=
  match v with
  | VBool b => Some (canon (Z.b2z b) 0)
  | VInt z => Some (canon z 0)
  | VFloat n m e => Some (canon (if n then - Z.of_N m else Z.of_N m) e)
  | _ => None
  end.

Definition num_eqb (a b : num) : bool := (fst a =? fst b) && (snd a =? snd b).
Lemma num_eqb_eq a b : num_eqb a b = true <-> a = b.
Proof. destruct a, b; unfold num_eqb; cbn; rewrite andb_true_iff, !Z.eqb_eq; split; [intros [-> ->]; auto | inversion 1; auto]. Qed.

Definition num_cmp (a b : num) : comparison :=
  let e := Z.min (snd a) (snd b) in
  Z.compare (Z.shiftl (fst a) (snd a - e)) (Z.shiftl (fst b) (snd b - e)).

Definition is_float (v : pyval) : bool := match v with VFloat _ _ _ => true | _ => false end.
Definition int_of (v : pyval) : option Z :=
  match v with VBool b => Some (Z.b2z b) | VInt z => Some z | _ => None end.

(* value of a canonical num as an integer, when it is one *)
Definition num_int (a : num) : option Z :=
  if 0 <=? snd a then Some (Z.shiftl (fst a) (snd a)) else if fst a =? 0 then Some 0 else None.

(* round m * 2^e to the nearest binary64 (ties to even, subnormals); OverflowError beyond the range *)
Definition fl_round (m e : Z) : res num :=
  let a := Z.abs m in
  if a =? 0 then Ok (0, 0) else
  let bl := Z.log2 a + 1 in
  let s := Z.max (bl - 53) (-1074 - e) in
  if s <=? 0 then Ok (canon m e) else
  let q := Z.shiftr a s in
  let r := a - Z.shiftl q s in
  let half := Z.shiftl 1 (s - 1) in
  let q' := if (half <? r) || ((half =? r) && Z.odd q) then q + 1 else q in
  let e' := e + s in
  if 1024 <? (if q' =? 0 then 0 else Z.log2 q' + 1) + e' then Err OverflowError
  else Ok (canon (if m <? 0 then - q' else q') e').

Definition vfloat_of_num (a : num) : pyval :=
  VFloat (fst a <? 0) (Z.to_N (Z.abs (fst a))) (snd a).

(* the float an operand denotes in mixed arithmetic: ints are rounded *)
Definition to_float (v : pyval) : res num :=
  match v with
  | VFloat _ _ _ => match num_of v with Some a => Ok a | None => Err TypeError end
  | VBool b => Ok (canon (Z.b2z b) 0)
  | VInt z => fl_round z 0
  | _ => Err TypeError
  end.

(* ------------------------------------------------------------------ *)
(* strings (UTF-8 bytes)                                               *)

Definition is_cont (c : ascii) : bool :=
  let n := N_of_ascii c in (128 <=? n)%N && (n <? 192)%N.

Fixpoint str_len (s : string) : nat :=
  match s with
  | EmptyString => O
  | String c r => if is_cont c then str_len r else S (str_len r)
  end.

(* code points of a string, each as a string *)
Fixpoint str_chars_aux (cur : string) (s : string) : list string :=
  match s with
  | EmptyString => match cur with EmptyString => [] | _ => [cur] end
  | String c r =>
      if is_cont c then str_chars_aux (cur ++ String c EmptyString)%string r
      else match cur with
           | EmptyString => str_chars_aux (String c EmptyString) r
           | _ => cur :: str_chars_aux (String c EmptyString) r
           end
  end.
Definition str_chars (s : string) : list string := str_chars_aux EmptyString s.

Fixpoint str_contains (needle hay : string) : bool :=
  String.prefix needle hay ||
  match hay with
  | EmptyString => false
  | String _ r => str_contains needle r
  end.

Definition lower_ascii (c : ascii) : ascii :=
  let n := N_of_ascii c in
  if (65 <=? n)%N && (n <=? 90)%N then ascii_of_N (n + 32) else c.
Fixpoint str_lower (s : string) : string :=
  match s with EmptyString => EmptyString | String c r => String (lower_ascii c) (str_lower r) end.

(* ------------------------------------------------------------------ *)
(* == : never raises on the modelled values                            *)

Fixpoint py_eq (a b : pyval) {struct a} : bool :=
  match num_of a, num_of b with
  | Some ka, Some kb => num_eqb ka kb
  | Some _, None | None, Some _ => false
  | None, None =>
    match a, b with
    | VNone, VNone => true
    | VStr s, VStr t => String.eqb s t
    | VList l, VList r =>
        (fix go (l r : list pyval) {struct l} := match l, r with [], [] => true | x :: xs, y :: ys => py_eq x y && go xs ys | _, _ => false end) l r
    | VTuple l, VTuple r =>
        (fix go (l r : list pyval) {struct l} := match l, r with [], [] => true | x :: xs, y :: ys => py_eq x y && go xs ys | _, _ => false end) l r
    | VDict d1, VDict d2 =>
        Nat.eqb (List.length d1) (List.length d2) &&
        (fix go (d : list (pyval * pyval)) {struct d} := match d with [] => true
           | (k, v) :: r =>
               (fix look (d2 : list (pyval * pyval)) := match d2 with [] => false
                  | (k2, v2) :: r2 => if py_eq k k2 then py_eq v v2 else look r2 end) d2
               && go r end) d1
    | VType s, VType t => pytype_eqb s t
    | VObj s, VObj t => N.eqb s t
    | _, _ => false
    end
  end.

Definition py_eq_list := fix go (l r : list pyval) {struct l} : bool :=
  match l, r with [], [] => true | x :: xs, y :: ys => py_eq x y && go xs ys | _, _ => false end.
Definition dict_look (k : pyval) := fix look (d2 : list (pyval * pyval)) : option pyval :=
  match d2 with [] => None | (k2, v2) :: r2 => if py_eq k k2 then Some v2 else look r2 end.

Fixpoint py_hashable (v : pyval) : bool :=
  match v with
  | VList _ | VDict _ | VObj _ => false
  | VTuple l => forallb py_hashable l
  | _ => true
  end.

(* ------------------------------------------------------------------ *)
(* < <= > >=                                                           *)

Inductive ordop := OLt | OLe | OGt | OGe.
Definition ord_holds (o : ordop) (c : comparison) : bool :=
  match o, c with
  | OLt, Lt => true | OLe, Lt => true | OLe, Eq => true
  | OGt, Gt => true | OGe, Gt => true | OGe, Eq => true
  | _, _ => false
  end.

Definition nat_cmp (a b : nat) : comparison := Nat.compare a b.

Fixpoint py_ord (o : ordop) (a b : pyval) {struct a} : res bool :=
  match num_of a, num_of b with
  | Some x, Some y => Ok (ord_holds o (num_cmp x y))
  | _, _ =>
    match a, b with
    | VStr s, VStr t => Ok (ord_holds o (String.compare s t))
    | VList l, VList r =>
        (fix go (l r : list pyval) {struct l} : res bool := match l, r with
           | [], [] => Ok (ord_holds o Eq)
           | [], _ :: _ => Ok (ord_holds o Lt)
           | _ :: _, [] => Ok (ord_holds o Gt)
           | x :: xs, y :: ys => if py_eq x y then go xs ys else py_ord o x y end) l r
    | VTuple l, VTuple r =>
        (fix go (l r : list pyval) {struct l} : res bool := match l, r with
           | [], [] => Ok (ord_holds o Eq)
           | [], _ :: _ => Ok (ord_holds o Lt)
           | _ :: _, [] => Ok (ord_holds o Gt)
           | x :: xs, y :: ys => if py_eq x y then go xs ys else py_ord o x y end) l r
    | _, _ => Err TypeError
    end
  end.

(* ------------------------------------------------------------------ *)
(* len, type, truthiness, isinstance                                   *)

Definition py_type (v : pyval) : pytype :=
  match v with
  | VNone => TNone | VBool _ => TBool | VInt _ => TInt | VFloat _ _ _ => TFloat | VStr _ => TStr
  | VList _ => TList | VTuple _ => TTuple | VDict _ => TDict | VType _ => TType | VObj _ => TObj
  end.

Definition py_len (v : pyval) : res pyval :=
  match v with
  | VStr s => Ok (VInt (Z.of_nat (str_len s)))
  | VList l | VTuple l => Ok (VInt (Z.of_nat (List.length l)))
  | VDict d => Ok (VInt (Z.of_nat (List.length d)))
  | _ => Err TypeError
  end.

Definition py_truthy (v : pyval) : bool :=
  match v with
  | VNone => false
  | VBool b => b
  | VInt z => negb (z =? 0)
  | VFloat _ m _ => negb (m =? 0)%N
  | VStr s => match s with EmptyString => false | _ => true end
  | VList l | VTuple l => match l with [] => false | _ => true end
  | VDict d => match d with [] => false | _ => true end
  | VType _ | VObj _ => true
  end.

Definition inst_of (v : pyval) (t : pytype) : bool :=
  pytype_eqb (py_type v) t || (pytype_eqb t TInt && pytype_eqb (py_type v) TBool).

(* isinstance(v, classes): members are tested left to right, the first match wins,
   a member that is not a type (or a tuple of such) raises when it is reached *)
Fixpoint py_isinstance (v : pyval) (classes : pyval) {struct classes} : res bool :=
  match classes with
  | VType t => Ok (inst_of v t)
  | VTuple l =>
      (fix go (l : list pyval) : res bool := match l with
         | [] => Ok false
         | c :: r => let* b := py_isinstance v c in if b then Ok true else go r end) l
  | _ => Err TypeError
  end.

(* ------------------------------------------------------------------ *)
(* in (on plain values; ranges and key views are handled by the evaluator) *)

Definition py_in (x c : pyval) : res bool :=
  match c with
  | VList l | VTuple l => Ok (existsb (py_eq x) l)
  | VDict d => if py_hashable x then Ok (existsb (fun kv => py_eq x (fst kv)) d) else Err TypeError
  | VStr s => match x with VStr n => Ok (str_contains n s) | _ => Err TypeError end
  | _ => Err TypeError
  end.

Definition keys_in (x : pyval) (ks : list pyval) : res bool :=
  if py_hashable x then Ok (existsb (py_eq x) ks) else Err TypeError.

(* x in range(lo, hi): exact ints arithmetically, anything else by ==-scan *)
Definition range_in (x : pyval) (lo hi : Z) : bool :=
  match x with
  | VInt z => (lo <=? z) && (z <? hi)
  | _ => match num_of x with
         | Some a => match num_int a with Some z => (lo <=? z) && (z <? hi) | None => false end
         | None => false
         end
  end.

(* ------------------------------------------------------------------ *)
(* arithmetic: %, -, abs                                               *)

Definition float_mod (a b : pyval) : res pyval :=
  let* x := to_float a in
  let* y := to_float b in
  if fst y =? 0 then Err ZeroDivisionError else
  let e := Z.min (snd x) (snd y) in
  let X := Z.shiftl (fst x) (snd x - e) in
  let Y := Z.shiftl (fst y) (snd y - e) in
  let* r := fl_round (X mod Y) e in
  Ok (vfloat_of_num r).

Definition float_sub (a b : pyval) : res pyval :=
  let* x := to_float a in
  let* y := to_float b in
  let e := Z.min (snd x) (snd y) in
  let X := Z.shiftl (fst x) (snd x - e) in
  let Y := Z.shiftl (fst y) (snd y - e) in
  let* r := fl_round (X - Y) e in
  Ok (vfloat_of_num r).

Definition is_num (v : pyval) : bool := match num_of v with Some _ => true | None => false end.

Definition py_mod (a b : pyval) : res pyval :=
  match a with
  | VStr _ => Err StrFormat
  | _ =>
    match int_of a, int_of b with
    | Some x, Some y => if y =? 0 then Err ZeroDivisionError else Ok (VInt (x mod y))
    | _, _ => if is_num a && is_num b then float_mod a b else Err TypeError
    end
  end.

Definition py_sub (a b : pyval) : res pyval :=
  match int_of a, int_of b with
  | Some x, Some y => Ok (VInt (x - y))
  | _, _ => if is_num a && is_num b then float_sub a b else Err TypeError
  end.

Definition py_abs (a : pyval) : res pyval :=
  match a with
  | VBool b => Ok (VInt (Z.b2z b))
  | VInt z => Ok (VInt (Z.abs z))
  | VFloat _ m e => Ok (VFloat false m e)
  | _ => Err TypeError
  end.

(* ------------------------------------------------------------------ *)
(* subscripting, iteration, sets                                       *)

Definition list_index {A} (l : list A) (i : Z) : option A :=
  let n := Z.of_nat (List.length l) in
  let j := if i <? 0 then i + n else i in
  if (j <? 0) || (n <=? j) then None else nth_error l (Z.to_nat j).

Definition py_getitem (c k : pyval) : res pyval :=
  match c with
  | VDict d => if py_hashable k then match dict_look k d with Some v => Ok v | None => Err KeyError end else Err TypeError
  | VList l | VTuple l =>
      match int_of k with
      | Some i => match list_index l i with Some v => Ok v | None => Err IndexError end
      | None => Err TypeError
      end
  | VStr s =>
      match int_of k with
      | Some i => match list_index (str_chars s) i with Some v => Ok (VStr v) | None => Err IndexError end
      | None => Err TypeError
      end
  | _ => Err TypeError
  end.

Definition py_iter (v : pyval) : res (list pyval) :=
  match v with
  | VList l | VTuple l => Ok l
  | VDict d => Ok (map fst d)
  | VStr s => Ok (map VStr (str_chars s))
  | _ => Err TypeError
  end.

Fixpoint dedup (l : list pyval) (acc : list pyval) : list pyval :=
  match l with
  | [] => rev acc
  | x :: r => if existsb (py_eq x) acc then dedup r acc else dedup r (x :: acc)
  end.

Definition mk_set (l : list pyval) : res (list pyval) :=
  if forallb py_hashable l then Ok (dedup l []) else Err TypeError.

Definition set_mem (x : pyval) (s : list pyval) : bool := existsb (py_eq x) s.
Definition set_diff (a b : list pyval) : list pyval := filter (fun x => negb (set_mem x b)) a.
Definition set_inter (a b : list pyval) : list pyval := filter (fun x => set_mem x b) a.
Definition set_eq (a b : list pyval) : bool :=
  Nat.eqb (List.length a) (List.length b) && forallb (fun x => set_mem x b) a.

(* well-formedness of documents: dict keys hashable and pairwise distinct under == *)
Fixpoint keys_distinct (ks : list pyval) : bool :=
  match ks with
  | [] => true
  | k :: r => negb (existsb (py_eq k) r) && negb (existsb (fun k2 => py_eq k2 k) r) && keys_distinct r
  end.

Fixpoint wf_val (v : pyval) : bool :=
  match v with
  | VList l | VTuple l => forallb wf_val l
  | VDict d =>
      (fix go (d : list (pyval * pyval)) : bool := match d with [] => true
         | (k, x) :: r => wf_val k && py_hashable k && wf_val x && go r end) d
      && keys_distinct (map fst d)
  | _ => true
  end.

(* JSON/YAML-like documents: no tuples, types or objects; canonical floats *)
Definition float_canon (n : bool) (m : N) (e : Z) : bool :=
  if (m =? 0)%N then (e =? 0) else N.odd m.

Fixpoint json_like (v : pyval) : bool :=
  match v with
  | VNone | VBool _ | VInt _ | VStr _ => true
  | VFloat n m e => float_canon n m e
  | VList l => forallb json_like l
  | VDict d =>
      (fix go (d : list (pyval * pyval)) : bool := match d with [] => true
         | (k, x) :: r => json_like k && json_like x && go r end) d
  | VTuple _ | VType _ | VObj _ => false
  end.
