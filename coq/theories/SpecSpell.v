(* The canonical spec spelling of typed DSL leaves and trees (what C09 quantifies over). *)
From Coq Require Import ZArith NArith List Bool String.
From Valida Require Import Py Lang Defs DocSem.
Import ListNotations.
Local Open Scope string_scope.
Local Open Scope list_scope.

Definition scls_label (c : scls) : string :=
  match c with
  | SValue => "value" | SValueLength => "value.length" | SValueDataType => "value.dtype"
  | SKey => "key" | SKeyLength => "key.length" | SKeyDataType => "key.dtype" | SIndex => "index"
  end.

Definition q_method (q : dsl) : string := fst (fst (q_call q)).

Definition kwd (l : list (string * pyval)) : pyval := VDict (map (fun kv => (VStr (fst kv), snd kv)) l).

(* the argument value of the spec, in the shape the constructor's signature admits *)
Definition q_spec_val (q : dsl) : pyval :=
  match q with
  | Q_equal_to v | Q_not_equal_to v | Q_less_than v | Q_greater_than v | Q_less_than_or_equal_to v
  | Q_greater_than_or_equal_to v | Q_in v | Q_not_in v | Q_factor_of v | Q_has_factor v | Q_keys_contain v
  | Q_keys_contain_at_least_one_of v | Q_keys_contain_at_most_one_of v => v
  | Q_in_range lo hi | Q_not_in_range lo hi => kwd [("lower", lo); ("upper", hi)]
  | Q_equal_to_approx v tol => kwd [("value", v); ("tolerance", tol)]
  | Q_truthy | Q_falsy | Q_null => VNone
  | Q_is_instance l | Q_keys_contain_any_of l | Q_keys_contain_all_of l | Q_keys_contain_one_of l | Q_keys_equal_to l
  | Q_keys_is_instance l | Q_allowed_keys l | Q_required_keys l | Q_forbidden_keys l => VList l
  | Q_keys_contain_N_of n ks | Q_keys_contain_at_least_N_of n ks | Q_keys_contain_at_most_N_of n ks =>
      kwd [("N", n); ("keys", ks)]
  | Q_items_contain items => kwd items
  end.

Definition leaf_spec (c : scls) (q : dsl) : pyval :=
  VDict [(VStr (scls_label c ++ "." ++ q_method q), q_spec_val q)].

Definition bop_name (o : bop) : string := match o with BoAnd => "and" | BoOr => "or" | BoXor => "xor" end.

Fixpoint tree_spec (t : qtree) : pyval :=
  match t with
  | QLeaf c q => leaf_spec c q
  | QNull => VDict []
  | QBin o a b => VDict [(VStr (bop_name o), VList [tree_spec a; tree_spec b])]
  end.

Fixpoint tree_depth (t : qtree) : nat :=
  match t with QBin _ a b => S (Nat.max (tree_depth a) (tree_depth b)) | _ => 1 end.

(* arguments that from_spec takes literally: no mapping (it could be a path spec), no list containing one *)
Definition plain_item (v : pyval) : bool := match v with VDict _ => false | _ => true end.
Definition plain (v : pyval) : bool :=
  match v with VDict _ => false | VList l | VTuple l => forallb plain_item l | _ => true end.

Definition q_args (q : dsl) : list pyval :=
  let '(_, pos, kw) := q_call q in pos ++ map snd kw.

Definition q_plain (q : dsl) : bool := forallb plain (q_args q).

(* under a `dtype` class, and for is_instance / keys_is_instance, arguments are written as types *)
Definition is_known_type (v : pyval) : bool :=
  match v with VType (TInt | TFloat | TStr | TList | TDict | TBool | TPath) => true | _ => false end.
Definition types_only (v : pyval) : bool :=
  match v with VList l => forallb is_known_type l | _ => is_known_type v end.
Definition q_types_ok (c : scls) (q : dsl) : bool :=
  let typed := match scls_pre c with PType => true | _ => false end in
  match q with
  | Q_is_instance l | Q_keys_is_instance l => forallb is_known_type l
  | Q_equal_to v | Q_not_equal_to v | Q_in v | Q_not_in v => if typed then types_only v else true
  | _ => negb typed
  end.

Definition leaf_in_c09 (c : scls) (q : dsl) : bool :=
  (negb (q_is_map q) || scls_has_map c) && q_plain q && q_types_ok c q
  && match q with
     | Q_items_contain items => negb (existsb (fun kv => String.eqb (fst kv) "trial_dict") items)
     | _ => true
     end.

Definition tree_in_c09 (t : qtree) : bool := forallb (fun cq => leaf_in_c09 (fst cq) (snd cq)) (qleaves t).
