(* A deep embedding of the fragment of Python that valida/callables.py is written in,
   with an evaluator over Layer P.  The translator (harness/translate.py) emits terms of
   these types from the source on every run; it refuses anything outside the fragment. *)
From Coq Require Import ZArith NArith List Bool String Lia.
From Valida Require Import Py.
Import ListNotations.
Local Open Scope string_scope.
Local Open Scope Z_scope.

Inductive cmpop := CEq | CNe | CLt | CLe | CGt | CGe | CIn | CNotIn.
Inductive binop := BSub | BMod | BAnd.

Inductive expr :=
| EVar (x : string)
| EInt (z : Z)
| EBool (b : bool)
| ECmp (c : cmpop) (a b : expr)
| EBin (o : binop) (a b : expr)
| ENot (e : expr)
| ECall (f : string) (args : list expr)
| EGen (elt : expr) (x : string) (iter : expr)
| EMeth (obj : expr) (m : string)
| ESubscr (a i : expr).

Inductive stmt :=
| SReturn (e : expr)
| SFor2 (k v : string) (iter : expr) (body : list stmt)
| STry (body : list stmt) (exn : string) (handler : list stmt)
| SIf (c : expr) (body : list stmt).

Record sig := { s_params : list string; s_vararg : option string; s_kwarg : option string }.
Record fdef := { f_name : string; f_sig : sig; f_body : list stmt }.

(* intermediate values that never occur inside documents *)
Inductive xval :=
| XV (v : pyval)
| XSet (l : list pyval)
| XRange (lo hi : Z)
| XKeys (l : list pyval)
| XItems (l : list (pyval * pyval)).

Definition env := list (string * pyval).
Fixpoint env_get (x : string) (e : env) : option pyval :=
  match e with [] => None | (y, v) :: r => if String.eqb x y then Some v else env_get x r end.

(* ------------------------------------------------------------------ *)
(* exception classes named in `except` clauses                          *)

Definition exc_name (e : exc) : string :=
  match e with
  | TypeError => "TypeError" | AttributeError => "AttributeError" | KeyError => "KeyError"
  | IndexError => "IndexError" | ValueError => "ValueError" | ZeroDivisionError => "ZeroDivisionError"
  | OverflowError => "OverflowError" | StrFormat => "<str-format>" | StopIteration => "StopIteration"
  | RecursionError => "RecursionError" | RuntimeError => "RuntimeError"
  | NotImplementedError => "NotImplementedError" | InvalidCallable => "InvalidCallable"
  | MalformedCond => "MalformedConditionLikeSpec" | MalformedPath => "MalformedDataPathSpec"
  | MalformedRule => "MalformedRuleSpec" | OtherExc => "<other>"
  end.

(* does `except cls` catch e? (the part of the built-in hierarchy that matters here) *)
Definition catches1 (cls : string) (e : exc) : bool :=
  if String.eqb cls "Exception" || String.eqb cls "BaseException" then
    match e with StrFormat | OtherExc => false | _ => true end
  else if String.eqb cls "ArithmeticError" then
    match e with ZeroDivisionError | OverflowError => true | _ => false end
  else if String.eqb cls "LookupError" then
    match e with KeyError | IndexError => true | _ => false end
  else if String.eqb cls "RuntimeError" then
    match e with RuntimeError | RecursionError | NotImplementedError => true | _ => false end
  else String.eqb cls (exc_name e).

Definition catches_plain (tuple : list string) (e : exc) : bool := existsb (fun c => catches1 c e) tuple.

(* StrFormat is caught only by a clause that catches every outcome `str % v` can have *)
Definition catches (tuple : list string) (e : exc) : bool :=
  match e with
  | StrFormat => forallb (catches_plain tuple) [TypeError; ValueError; OverflowError; KeyError]
  | OtherExc => false
  | _ => catches_plain tuple e
  end.

(* ------------------------------------------------------------------ *)
(* Python call binding of positional and keyword arguments against a signature without defaults *)

Fixpoint bind_pos (params : list string) (pos : list pyval) : env * list string * list pyval :=
  match params with
  | [] => ([], [], pos)
  | p :: ps =>
      match pos with
      | [] => ([], params, [])
      | v :: vs => let '(e, rest, extra) := bind_pos ps vs in ((p, v) :: e, rest, extra)
      end
  end.

Fixpoint bind_kw (params missing : list string) (has_kwarg : bool) (kw : list (string * pyval))
  (e : env) (extra : list (pyval * pyval)) : res (env * list string * list (pyval * pyval)) :=
  match kw with
  | [] => Ok (e, missing, extra)
  | (k, v) :: r =>
      if existsb (String.eqb k) missing then
        bind_kw params (filter (fun m => negb (String.eqb k m)) missing) has_kwarg r ((k, v) :: e) extra
      else if existsb (String.eqb k) params then Err TypeError       (* multiple values for the parameter *)
      else if has_kwarg then bind_kw params missing has_kwarg r e (extra ++ [(VStr k, v)])
      else Err TypeError                                            (* unexpected keyword *)
  end.

Definition bind_args (s : sig) (pos : list pyval) (kw : list (string * pyval)) : res env :=
  let '(e0, missing, extra_pos) := bind_pos (s_params s) pos in
  let* e1 :=
    match s_vararg s, extra_pos with
    | Some va, _ => Ok ((va, VTuple extra_pos) :: e0)
    | None, [] => Ok e0
    | None, _ :: _ => Err TypeError
    end in
  let* (e2, missing', extra_kw) :=
    bind_kw (s_params s) missing (match s_kwarg s with Some _ => true | None => false end) kw e1 [] in
  match missing' with
  | _ :: _ => Err TypeError
  | [] => match s_kwarg s with
          | Some ka => Ok ((ka, VDict extra_kw) :: e2)
          | None => Ok e2
          end
  end.

(* ------------------------------------------------------------------ *)
(* evaluation                                                          *)

Definition x_truthy (x : xval) : bool :=
  match x with
  | XV v => py_truthy v
  | XSet l | XKeys l => match l with [] => false | _ => true end
  | XRange lo hi => lo <? hi
  | XItems l => match l with [] => false | _ => true end
  end.

Definition x_iter (x : xval) : res (list pyval) :=
  match x with
  | XV v => py_iter v
  | XSet l | XKeys l => Ok l
  | XRange _ _ | XItems _ => Err OtherExc
  end.

Definition x_eq (a b : xval) : res bool :=
  match a, b with
  | XV x, XV y => Ok (py_eq x y)
  | XSet x, XSet y => Ok (set_eq x y)
  | XV _, XSet _ | XSet _, XV _ => Ok false
  | _, _ => Err OtherExc
  end.

Definition x_in (a c : xval) : res bool :=
  match a with
  | XV x =>
      match c with
      | XV cv => py_in x cv
      | XKeys ks => keys_in x ks
      | XSet s => keys_in x s
      | XRange lo hi => Ok (range_in x lo hi)
      | XItems _ => Err OtherExc
      end
  | _ => Err OtherExc
  end.

Definition x_cmp (c : cmpop) (a b : xval) : res bool :=
  match c with
  | CEq => x_eq a b
  | CNe => let* r := x_eq a b in Ok (negb r)
  | CIn => x_in a b
  | CNotIn => let* r := x_in a b in Ok (negb r)
  | CLt | CLe | CGt | CGe =>
      let o := match c with CLt => OLt | CLe => OLe | CGt => OGt | _ => OGe end in
      match a, b with
      | XV x, XV y => py_ord o x y
      | _, _ => Err TypeError
      end
  end.

Definition x_bin (o : binop) (a b : xval) : res xval :=
  match o, a, b with
  | BSub, XV x, XV y => let* r := py_sub x y in Ok (XV r)
  | BSub, XSet x, XSet y => Ok (XSet (set_diff x y))
  | BMod, XV x, XV y => let* r := py_mod x y in Ok (XV r)
  | BAnd, XSet x, XSet y => Ok (XSet (set_inter x y))
  | BAnd, _, _ => Err OtherExc
  | _, _, _ => Err TypeError
  end.

Definition range_bounds (lo hi : pyval) : res (Z * Z) :=
  match lo, hi with
  | VFloat _ _ _, _ | _, VFloat _ _ _ => Err TypeError
  | _, _ => match int_of lo, int_of hi with
            | Some l, Some h => Ok (l, h)
            | _, _ => Err TypeError
            end
  end.
Definition mk_range (lo hi : pyval) : res xval :=
  let* b := range_bounds lo hi in Ok (XRange (fst b) (snd b)).

(* lazy any / all / sum over a generator *)
Fixpoint any_res {X} (f : X -> res bool) (l : list X) : res bool :=
  match l with [] => Ok false | x :: r => let* b := f x in if b then Ok true else any_res f r end.
Fixpoint all_res {X} (f : X -> res bool) (l : list X) : res bool :=
  match l with [] => Ok true | x :: r => let* b := f x in if b then all_res f r else Ok false end.
Fixpoint sum_res {X} (f : X -> res Z) (l : list X) (acc : Z) : res Z :=
  match l with [] => Ok acc | x :: r => let* n := f x in sum_res f r (acc + n) end.
Definition x_int (t : xval) : res Z :=
  match t with XV tv => match int_of tv with Some n => Ok n | None => Err OtherExc end | _ => Err OtherExc end.

Definition as_val (x : xval) : res pyval := match x with XV v => Ok v | _ => Err OtherExc end.

Section Eval.
  (* calls of one callable from another: f(positional arguments) *)
  Variable call : string -> list pyval -> res pyval.

  Fixpoint ev (en : env) (e : expr) {struct e} : res xval :=
    match e with
    | EVar x => match env_get x en with Some v => Ok (XV v) | None => Err OtherExc end
    | EInt z => Ok (XV (VInt z))
    | EBool b => Ok (XV (VBool b))
    | ECmp c a b =>
        let* x := ev en a in
        let* y := ev en b in
        let* r := x_cmp c x y in Ok (XV (VBool r))
    | EBin o a b =>
        let* x := ev en a in
        let* y := ev en b in
        x_bin o x y
    | ENot a => let* x := ev en a in Ok (XV (VBool (negb (x_truthy x))))
    | EMeth o m =>
        let* x := ev en o in
        match x with
        | XV (VDict d) =>
            if String.eqb m "keys" then Ok (XKeys (map fst d))
            else if String.eqb m "items" then Ok (XItems d)
            else Err OtherExc
        | XV _ => if String.eqb m "keys" || String.eqb m "items" then Err AttributeError else Err OtherExc
        | _ => Err OtherExc
        end
    | ESubscr a i =>
        let* x := ev en a in
        let* y := ev en i in
        let* xv := as_val x in
        let* yv := as_val y in
        let* r := py_getitem xv yv in Ok (XV r)
    | EGen _ _ _ => Err OtherExc
    | ECall f args =>
        match args with
        | [EGen elt x it] =>
            let* src := ev en it in
            let* items := x_iter src in
            if String.eqb f "any" then
              let* b := any_res (fun v => let* t := ev ((x, v) :: en) elt in Ok (x_truthy t)) items in Ok (XV (VBool b))
            else if String.eqb f "all" then
              let* b := all_res (fun v => let* t := ev ((x, v) :: en) elt in Ok (x_truthy t)) items in Ok (XV (VBool b))
            else if String.eqb f "sum" then
              let* n := sum_res (fun v => let* t := ev ((x, v) :: en) elt in x_int t) items 0 in Ok (XV (VInt n))
            else Err OtherExc
        | _ =>
            let* vals :=
              (fix go (l : list expr) : res (list xval) := match l with
                 | [] => Ok []
                 | a :: r => let* x := ev en a in let* xs := go r in Ok (x :: xs) end) args in
            if String.eqb f "set" then
              match vals with
              | [x] => let* l := x_iter x in let* s := mk_set l in Ok (XSet s)
              | _ => Err OtherExc
              end
            else if String.eqb f "isinstance" then
              match vals with
              | [XV a; XV c] => let* r := py_isinstance a c in Ok (XV (VBool r))
              | _ => Err OtherExc
              end
            else if String.eqb f "range" then
              match vals with
              | [XV lo; XV hi] => mk_range lo hi
              | _ => Err OtherExc
              end
            else if String.eqb f "abs" then
              match vals with
              | [XV a] => let* r := py_abs a in Ok (XV r)
              | _ => Err OtherExc
              end
            else
              let* pv := mapM as_val vals in
              let* r := call f pv in Ok (XV r)
        end
    end.

  Fixpoint exec (en : env) (s : stmt) {struct s} : res (option pyval) :=
    let exec_list := fix go (en : env) (l : list stmt) {struct l} : res (option pyval) :=
      match l with
      | [] => Ok None
      | s :: r => let* o := exec en s in match o with Some v => Ok (Some v) | None => go en r end
      end in
    match s with
    | SReturn e => let* x := ev en e in let* v := as_val x in Ok (Some v)
    | SIf c body => let* x := ev en c in if x_truthy x then exec_list en body else Ok None
    | STry body exn handler =>
        match exec_list en body with
        | Err e => if catches [exn] e then exec_list en handler else Err e
        | r => r
        end
    | SFor2 k v it body =>
        let* x := ev en it in
        match x with
        | XItems l =>
            (fix loop (l : list (pyval * pyval)) : res (option pyval) := match l with
               | [] => Ok None
               | (a, b) :: r =>
                   let* o := exec_list ((k, a) :: (v, b) :: en) body in
                   match o with Some w => Ok (Some w) | None => loop r end
               end) l
        | _ => Err OtherExc
        end
    end.

  Fixpoint exec_list (en : env) (l : list stmt) {struct l} : res (option pyval) :=
    match l with
    | [] => Ok None
    | s :: r => let* o := exec en s in match o with Some v => Ok (Some v) | None => exec_list en r end
    end.
End Eval.

Fixpoint find_def (defs : list fdef) (name : string) : option fdef :=
  match defs with [] => None | d :: r => if String.eqb (f_name d) name then Some d else find_def r name end.

(* call a callable by name; fuel bounds the nesting of callable-to-callable calls *)
Fixpoint call_def (fuel : nat) (defs : list fdef) (name : string)
  (pos : list pyval) (kw : list (string * pyval)) : res pyval :=
  match fuel with
  | O => Err RecursionError
  | S f =>
      match find_def defs name with
      | None => Err OtherExc
      | Some d =>
          let* en := bind_args (f_sig d) pos kw in
          let* o := exec_list (fun g a => call_def f defs g a []) en (f_body d) in
          Ok (match o with Some v => v | None => VNone end)
      end
  end.

Definition call_fuel : nat := 4.
