(* Canonical descriptions (as values) of condition / part / path / rule objects: the observable
   the correspondence check compares for parsed objects. *)
From Coq Require Import ZArith NArith List Bool String.
From Valida Require Import Py Lang Defs Cond Dsl Path Cast RuleDefs.
Import ListNotations.
Local Open Scope string_scope.
Local Open Scope list_scope.

Section D.
  Variable T : tables.

  Section Cnd.
    Variable A : Type.
    Variable darg : A -> res pyval.
    Definition describe_leaf (l : leaf A) : res pyval :=
      if is_null_leaf l then Ok (VTuple [VStr "null"]) else
      let* args := mapM darg (l_args l) in
      let* kws := mapM (fun ka => let* v := darg (snd ka) in Ok (VStr (fst ka), v)) (l_kwargs l) in
      Ok (VTuple [VStr "leaf"; VStr (l_cls l); VStr (l_call l); VList args; VDict kws]).
    Fixpoint describe_cond (c : cond A) : res pyval :=
      match c with
      | CLeaf l => describe_leaf l
      | CBin o a b =>
          let* x := describe_cond a in
          let* y := describe_cond b in
          Ok (VTuple [VStr (match o with BoAnd => "and" | BoOr => "or" | BoXor => "xor" end); x; y])
      end.
  End Cnd.

  Definition describe_cond0 := describe_cond pyval (fun v => Ok v).

  Definition olabel (l : option pyval) : pyval := match l with Some v => v | None => VNone end.

  Definition describe_part (p : part pyval) : res pyval :=
    match p with
    | PMap c l => let* d := describe_cond0 c in Ok (VTuple [VStr "MapValue"; d; olabel l])
    | PList c l => let* d := describe_cond0 c in Ok (VTuple [VStr "ListValue"; d; olabel l])
    | PMol c lc mc l =>
        let* d := describe_cond0 c in
        let* dl := describe_cond0 lc in
        let* dm := describe_cond0 mc in
        Ok (VTuple [VStr "MapOrListValue"; d; dl; dm; olabel l])
    end.

  Definition dt_str (d : datum_type) : string :=
    match d with DtNone => "NONE" | DtDtype => "DTYPE" | DtLength => "LENGTH" | DtMapKeys => "MAP_KEYS" | DtMapValues => "MAP_VALUES" end.
  Definition mt_str (m : multi_type) : string :=
    match m with MtNone => "NONE" | MtFirst => "FIRST" | MtLast => "LAST" | MtSingle => "SINGLE" | MtAll => "ALL" | MtAny => "ANY" end.

  Definition describe_path (p : dpath pyval) : res pyval :=
    let* parts := mapM describe_part (p_parts p) in
    Ok (VTuple [VList parts; VBool (p_concrete p); VStr (dt_str (p_dt p)); VStr (mt_str (p_mt p))]).

  Definition describe_pathterm (pt : pathterm pyval) : res pyval :=
    let* p := mk_path T (fun v => v) pt in describe_path p.

  Definition darg1 (a : arg1) : res pyval :=
    match a with
    | ALit v => Ok v
    | APath _ pt => let* d := describe_pathterm pt in Ok (VTuple [VStr "path"; d])
    end.
  Definition describe_cond1 := describe_cond arg1 darg1.
End D.
