(* Model of the spec parsers: ConditionLike.from_spec, DataPath.from_spec / from_part_specs,
   ContainerValue.from_spec.  Total functions from ARBITRARY values; they fail the way the
   Python operations fail.  Mutually recursive through fuel (a spec is a finite tree). *)
From Coq Require Import ZArith NArith List Bool String Ascii Lia.
From Valida Require Import Py Lang Defs Cond Dsl Path Cast Str SpecDefs RuleDefs.
Import ListNotations.
Local Open Scope string_scope.
Local Open Scope list_scope.

Fixpoint assoc_str {X} (k : string) (l : list (string * X)) : option X :=
  match l with [] => None | (a, x) :: r => if String.eqb a k then Some x else assoc_str k r end.
Fixpoint assoc_ty {X} (k : pytype) (l : list (pytype * X)) : option X :=
  match l with [] => None | (a, x) :: r => if pytype_eqb a k then Some x else assoc_ty k r end.

(* d.pop(key, None) on a mapping with a string key *)
Fixpoint dict_pop (k : string) (d : list (pyval * pyval)) : option pyval * list (pyval * pyval) :=
  match d with
  | [] => (None, [])
  | (k2, v) :: r => if py_eq (VStr k) k2 then (Some v, r)
                    else let '(x, r') := dict_pop k r in (x, (k2, v) :: r')
  end.

Definition lower_tokens (key : string) : list string := map str_lower (str_split "."%char key).

Section Parsers.
  Variable T : tables.
  Variable X : spec_tables.

  (* DSL_CALLABLE_NAMES: lower-cased constructor name -> constructor name *)
  Definition dsl_names : list (string * string) :=
    map (fun c => (str_lower (c_name c), c_name c)) (t_general T)
    ++ map (fun a => (str_lower (fst a), fst a)) (t_aliases T)
    ++ map (fun c => (str_lower (c_name c), c_name c)) (t_map T).

  (* type names / types to types (for `dtype` and `is_instance`) *)
  Definition to_type (v : pyval) : res pyval :=
    match v with
    | VStr s => match assoc_str (str_lower s) (sx_dtype_names X) with Some t => Ok (VType t) | None => Err MalformedCond end
    | VType t => match assoc_ty t (sx_dtype_types X) with Some t' => Ok (VType t') | None => Err MalformedCond end
    | _ => if py_hashable v then Err MalformedCond else Err TypeError
    end.
  Definition convert_types (v : pyval) : res pyval :=
    match v with
    | VList l => let* l' := mapM to_type l in Ok (VList l')
    | _ => to_type v
    end.

  Section WithArgs.
    Variable A : Type.
    Variable lit : pyval -> A.
    Variable mkpath : pathterm pyval -> A.      (* a DataPath object as an argument *)
    Variable inert : pathterm pyval -> pyval.   (* ... and inside a list / mapping literal *)
    (* DataPath.from_spec on an arbitrary value: a path, or the un-escaped literal mapping *)
    Variable path_from_spec : pyval -> res (pathterm pyval + pyval).

    (* coercion of the argument value to DataPaths where specified as such *)
    Inductive coerced :=
    | CPath (p : pathterm pyval)
    | CVal (v : pyval)
    | CDict (items : list (pyval * (pathterm pyval + pyval)))
    | CSeq (is_tuple : bool) (items : list (pathterm pyval + pyval)).

    Definition try_path (v : pyval) : res (pathterm pyval + pyval) :=
      match path_from_spec v with
      | Ok (inl p) => Ok (inl p)
      | Ok (inr d) => Ok (inr d)
      | Err MalformedPath => Ok (inr v)
      | Err e => Err e
      end.

    Fixpoint coerce_items (l : list pyval) : res (list (pathterm pyval + pyval)) :=
      match l with [] => Ok [] | v :: r => let* x := try_path v in let* xs := coerce_items r in Ok (x :: xs) end.
    Fixpoint coerce_kvs (l : list (pyval * pyval)) : res (list (pyval * (pathterm pyval + pyval))) :=
      match l with [] => Ok [] | (k, v) :: r => let* x := try_path v in let* xs := coerce_kvs r in Ok ((k, x) :: xs) end.

    Fixpoint coerce_tuple (l : list pyval) : res unit :=
      match l with
      | [] => Ok tt
      | v :: r => match path_from_spec v with
                  | Ok _ => Err TypeError
                  | Err MalformedPath => coerce_tuple r
                  | Err e => Err e
                  end
      end.

    Definition coerce (v : pyval) : res coerced :=
      match v with
      | VDict d =>
          match path_from_spec v with
          | Ok (inl p) => Ok (CPath p)
          | Ok (inr (VDict d')) => Ok (CDict (map (fun kv => (fst kv, inr (snd kv))) d'))   (* un-escaped literal mapping *)
          | Ok (inr d') => Ok (CVal d')
          | Err MalformedPath => let* items := coerce_kvs d in Ok (CDict items)
          | Err e => Err e
          end
      | VList l => let* items := coerce_items l in Ok (CSeq false items)
      | VTuple l =>
          (* item assignment on a tuple: the first item that is read as a path spec (or un-escaped) raises TypeError *)
          let* _ := coerce_tuple l in Ok (CSeq true (map inr l))
      | _ => Ok (CVal v)
      end.

    Definition item_val (x : pathterm pyval + pyval) : pyval := match x with inl p => inert p | inr v => v end.
    Definition item_arg (x : pathterm pyval + pyval) : A := match x with inl p => mkpath p | inr v => lit v end.

    Definition coerced_val (c : coerced) : A :=
      match c with
      | CPath p => mkpath p
      | CVal v => lit v
      | CDict items => lit (VDict (map (fun kv => (fst kv, item_val (snd kv))) items))
      | CSeq tup items => lit ((if tup then VTuple else VList) (map item_val items))
      end.

    Fixpoint kw_of (items : list (pyval * (pathterm pyval + pyval))) : res (list (string * A)) :=
      match items with
      | [] => Ok []
      | (VStr k, x) :: r => let* rest := kw_of r in Ok ((k, item_arg x) :: rest)
      | _ => Err TypeError                       (* keywords must be strings *)
      end.

    (* which of the five argument shapes a DSL constructor has, and the call it receives *)
    Definition dispatch (c : ctor) (v : coerced) (raw_is_none : bool) : res (list A * list (string * A)) :=
      let npk := List.length (c_params c) in
      let va := match c_vararg c with Some _ => true | None => false end in
      let kw := match c_kwarg c with Some _ => true | None => false end in
      if (npk =? 0)%nat && negb va && negb kw then Ok ([], [])
      else if (npk =? 1)%nat && negb va && negb kw then Ok ([coerced_val v], [])
      else if (1 <? npk)%nat && negb va && negb kw then
        match v with
        | CDict items => let* k := kw_of items in Ok ([], k)
        | CSeq _ items => Ok (map item_arg items, [])
        | _ => Err MalformedCond
        end
      else if va && (npk =? 0)%nat && negb kw then
        match v with
        | CSeq false items => Ok (map item_arg items, [])
        | _ => Err MalformedCond
        end
      else if kw && negb va then
        match v with
        | CDict items => let* k := kw_of items in Ok ([], k)
        | _ => Err MalformedCond
        end
      else Err MalformedCond.

    (* getattr(cls, pre_proc_str) for the class table; anything that is not a pre-processor is
       either missing (AttributeError -> malformed) or some other attribute on which the callable
       lookup then fails (malformed as well) *)
    Definition class_pre (k : cclass) (pre : string) : res cclass :=
      let target := if String.eqb pre "length" then k_length k else if String.eqb pre "dtype" then k_dtype k else None in
      match target with
      | Some name => match find_class (t_classes T) name with Some k' => Ok k' | None => Err MalformedCond end
      | None => Err MalformedCond
      end.

    Section Rec.
      Variable self : pyval -> res (dslc A * cond A).    (* recursive call on a sub-spec *)

      Definition parse_leaf (key : string) (spec_val : pyval) : res (dslc A * cond A) :=
        let toks := lower_tokens key in
        let n := List.length toks in
        let t0 := hd "" toks in
        let tl := last toks "" in
        match assoc_str t0 (sx_datum_types X) with
        | None => Err MalformedCond
        | Some cls_name =>
            if negb ((n =? 2)%nat || (n =? 3)%nat)
               || ((n =? 2)%nat && existsb (fun p => String.eqb (fst p) tl) (sx_preproc_lookup X))
            then Err MalformedCond
            else
              match find_class (t_classes T) cls_name with
              | None => Err MalformedCond
              | Some k0 =>
                  let* (k, v1) :=
                    if (n =? 3)%nat then
                      let p0 := nth 1 toks "" in
                      let pre := match assoc_str p0 (sx_preproc_lookup X) with Some p => p | None => p0 end in
                      let* v' := if String.eqb pre "dtype" then convert_types spec_val else Ok spec_val in
                      let* k' := class_pre k0 pre in Ok (k', v')
                    else Ok (k0, spec_val) in
                  let call0 := match assoc_str tl (sx_callable_lookup X) with Some c => c | None => tl end in
                  let call := match assoc_str call0 dsl_names with Some c => c | None => "" end in
                  let* v2 := if String.eqb call "is_instance" || String.eqb call "keys_is_instance"
                             then convert_types v1 else Ok v1 in
                  match find_ctor T k call with
                  | None => Err MalformedCond
                  | Some c =>
                      let* cv := coerce v2 in
                      let* (pos, kw) := dispatch c cv (match v2 with VNone => true | _ => false end) in
                      let* l := build_leaf T lit (k_name k) call pos kw in
                      Ok (DLeaf (k_name k) call pos kw, CLeaf l)
                  end
              end
        end.

      Definition cond_from_spec_step (spec : pyval) : res (dslc A * cond A) :=
        if negb (py_truthy spec) then Ok (DNull, CNull)
        else
          match spec with
          | VDict d =>
              match d with
              | [(VStr key, spec_val)] =>
                  match assoc_str key (sx_binops X) with
                  | Some o =>
                      match spec_val with
                      | VList items | VTuple items =>
                          (fix fold (items : list pyval) (acc : dslc A * cond A) : res (dslc A * cond A) :=
                             match items with
                             | [] => Ok acc
                             | i :: r =>
                                 let* (ti, ci) := self i in
                                 let* c := mk_bin o (snd acc) ci in
                                 fold r (DBin o (fst acc) ti, c)
                             end) items (DNull, CNull)
                      | _ => Err MalformedCond
                      end
                  | None => parse_leaf key spec_val
                  end
              | [(_, _)] => Err MalformedCond          (* a key that is not a string *)
              | _ => Err MalformedCond                 (* more than one key *)
              end
          | _ => Err TypeError
          end.
    End Rec.

    Fixpoint cond_from_spec (fuel : nat) (spec : pyval) : res (dslc A * cond A) :=
      match fuel with
      | O => Err RecursionError
      | S f => cond_from_spec_step (cond_from_spec f) spec
      end.
  End WithArgs.

  (* ---- parts and paths (their conditions have literal arguments only: stratum 0) ---- *)

  Definition inert0 (p : pathterm pyval) : pyval := VObj 0%N.
  Definition id0 (v : pyval) : pyval := v.

  Definition is_like_strict {A} (k : dkind) (c : cond A) : bool :=
    forallb (fun l => negb (is_null_leaf l) && dkind_eqb (l_kind l) k) (leaves c).

  Section PartRec.
    Variable cond0 : pyval -> res (dslc pyval * cond pyval).

    (* a sub-spec that must parse to a condition of the given kind, and-ed onto acc *)
    Definition and_on (acc : dslc pyval * cond pyval) (sub : dslc pyval * cond pyval) : res (dslc pyval * cond pyval) :=
      let* c := mk_bin BoAnd (snd acc) (snd sub) in Ok (DBin BoAnd (fst acc) (fst sub), c).

    Definition pop_cond (k : string) (d : list (pyval * pyval)) : res ((dslc pyval * cond pyval) * list (pyval * pyval)) :=
      let '(x, d') := dict_pop k d in
      match x with
      | Some VNone | None => Ok ((DNull, CNull), d')
      | Some s => let* c := cond0 s in Ok (c, d')
      end.

    (* `key` / `index` / `value` long forms *)
    Definition pop_kind (k : string) (kind : dkind) (acc : dslc pyval * cond pyval) (d : list (pyval * pyval))
      : res ((dslc pyval * cond pyval) * list (pyval * pyval)) :=
      let '(x, d') := dict_pop k d in
      match x with
      | Some VNone | None => Ok (acc, d')
      | Some s =>
          let* c := cond0 s in
          if is_like_strict kind (snd c) then let* r := and_on acc c in Ok (r, d') else Err ValueError
      end.

    (* dotted shorthands `value.xxx`, `key.xxx`, `index.xxx`: every key must be a str *)
    Fixpoint split_short (pre : string) (d : list (pyval * pyval)) : res (list (pyval * pyval) * list (pyval * pyval)) :=
      match d with
      | [] => Ok ([], [])
      | (VStr k, v) :: r =>
          let* (s, o) := split_short pre r in
          if String.prefix pre k then Ok ((VStr k, v) :: s, o) else Ok (s, (VStr k, v) :: o)
      | kv :: r => let* (s, o) := split_short pre r in Ok (s, kv :: o)   (* keys that are not strings are never shorthands *)
      end.

    Fixpoint fold_short (shorts : list (pyval * pyval)) (acc : dslc pyval * cond pyval) : res (dslc pyval * cond pyval) :=
      match shorts with
      | [] => Ok acc
      | (k, v) :: r => let* c := cond0 (VDict [(k, v)]) in let* acc' := and_on acc c in fold_short r acc'
      end.

    Definition shorthands (pre : string) (acc : dslc pyval * cond pyval) (d : list (pyval * pyval))
      : res ((dslc pyval * cond pyval) * list (pyval * pyval)) :=
      let* (s, o) := split_short pre d in
      let* acc' := fold_short s acc in Ok (acc', o).

    Definition to_carg (c : dslc pyval * cond pyval) : option (carg pyval) := Some (KCond (fst c)).

    (* dict(spec): the caller's mapping is copied; anything else must be a sequence of pairs *)
    Definition pair_of (v : pyval) : res (pyval * pyval) :=
      match v with
      | VList [k; x] | VTuple [k; x] => if py_hashable k then Ok (k, x) else Err TypeError
      | VDict [(k, _); (x, _)] => Ok (k, x)
      | VList _ | VTuple _ | VDict _ => Err ValueError
      | VStr s => match str_chars s with [a; b] => Ok (VStr a, VStr b) | _ => Err ValueError end
      | _ => Err TypeError
      end.
    Fixpoint dict_put (k v : pyval) (d : list (pyval * pyval)) : list (pyval * pyval) :=
      match d with
      | [] => [(k, v)]
      | (k2, v2) :: r => if py_eq k k2 then (k2, v) :: r else (k2, v2) :: dict_put k v r
      end.
    Definition dict_of_val (v : pyval) : res (list (pyval * pyval)) :=
      match v with
      | VDict d => Ok d
      | VList l | VTuple l => let* ps := mapM pair_of l in Ok (fold_left (fun d kv => dict_put (fst kv) (snd kv) d) ps [])
      | VStr s => let* ps := mapM pair_of (map VStr (str_chars s)) in Ok (fold_left (fun d kv => dict_put (fst kv) (snd kv) d) ps [])
      | _ => Err TypeError
      end.

    (* ContainerValue.from_spec(dict) -> the part term (with its built conditions checked) *)
    Definition part_from_spec (d0 : list (pyval * pyval)) : res (pterm pyval) :=
      let '(ty, d1) := dict_pop "type" d0 in
      let* cls :=
        match ty with
        | None => match assoc_str (sx_part_default X) (sx_part_classes X) with Some c => Ok c | None => Err TypeError end
        | Some (VStr s) => match assoc_str s (sx_part_classes X) with Some c => Ok c | None => Err TypeError end
        | Some _ => Err TypeError
        end in
      let* (cnd, d2) := pop_cond "condition" d1 in
      let* (lcnd, d3) := pop_cond "list_condition" d2 in
      let* (mcnd, d4) := pop_cond "map_condition" d3 in
      let* (cnd1, d5) := pop_kind "value" DValue cnd d4 in
      let* (cnd2, d6) := shorthands "value." cnd1 d5 in
      if String.eqb cls "MapValue" then
        let* (c3, d7) := shorthands "key." cnd2 d6 in
        let* (c4, d8) := pop_kind "key" DKey c3 d7 in
        let '(label, d9) := dict_pop "label" d8 in
        match d9 with
        | [] => let* _ := mk_part T id0 (PtMap None None (to_carg c4) label) in Ok (PtMap None None (to_carg c4) label)
        | _ => Err ValueError
        end
      else if String.eqb cls "ListValue" then
        let* (c3, d7) := shorthands "index." cnd2 d6 in
        let* (c4, d8) := pop_kind "index" DIndex c3 d7 in
        let '(label, d9) := dict_pop "label" d8 in
        match d9 with
        | [] => let* _ := mk_part T id0 (PtList None None (to_carg c4) label) in Ok (PtList None None (to_carg c4) label)
        | _ => Err ValueError
        end
      else
        let* (l1, d7) := shorthands "index." lcnd d6 in
        let* (m1, d8) := shorthands "key." mcnd d7 in
        let* (l2, d9) := pop_kind "index" DIndex l1 d8 in
        let* (m2, d10) := pop_kind "key" DKey m1 d9 in
        let '(label, d11) := dict_pop "label" d10 in
        match d11 with
        | [] =>
            let t := PtMol None None None (to_carg l2) (to_carg m2) (to_carg cnd2) label in
            let* _ := mk_part T id0 t in Ok t
        | _ => Err ValueError
        end.

    (* DataPath.from_part_specs( parts... ) *)
    Fixpoint parts_from_specs (l : list pyval) : res (list (pterm pyval)) :=
      match l with
      | [] => Ok []
      | VDict d :: r => let* p := part_from_spec d in let* ps := parts_from_specs r in Ok (p :: ps)
      | v :: r => let* ps := parts_from_specs r in Ok (PtPrim v :: ps)
      end.

    Definition path_from_part_specs (l : list pyval) : res (pathterm pyval) :=
      let* ps := parts_from_specs l in
      let t := {| pt_parts := ps; pt_mods := []; pt_src := None |} in
      let* _ := mk_path T id0 t in Ok t.

    (* DataPath.from_spec(spec): a path, or the un-escaped literal mapping *)
    Definition esc_code : string := "\path".
    Fixpoint unescape_keys (d : list (pyval * pyval)) (keep moved : list (pyval * pyval)) (found : bool)
      : res (list (pyval * pyval) * bool) :=
      match d with
      | [] => Ok (keep ++ moved, found)
      | (VStr k, v) :: r =>
          (* un-escaped in place (a new mapping in the same order): escaping is injective, so no two keys collide *)
          if str_contains esc_code k then unescape_keys r (keep ++ [(VStr (str_replace esc_code "path" k), v)]) moved true
          else unescape_keys r (keep ++ [(VStr k, v)]) moved found
      | kv :: r => unescape_keys r (keep ++ [kv]) moved found      (* keys that are not strings are left alone *)
      end.

    Definition path_from_spec0 (spec : pyval) : res (pathterm pyval + pyval) :=
      match spec with
      | VDict ((k0, v0) :: rest) =>
          let d := (k0, v0) :: rest in
          let* (d', escaped) := unescape_keys d [] [] false in
          (* the un-escaped mapping is built as a new dict: a key that an un-escaped key collides with keeps its place and
             takes the later value (only possible for hand-written specs holding both "\path" and "path") *)
          if escaped then Ok (inr (VDict (fold_left (fun acc kv => dict_put (fst kv) (snd kv) acc) d' [])))
          else
            match rest with
            | _ :: _ => Err MalformedPath
            | [] =>
                match k0 with
                | VStr key =>
                    let toks := lower_tokens key in
                    let n := List.length toks in
                    if negb (String.eqb (hd "" toks) "path") || negb ((1 <=? n)%nat && (n <=? 3)%nat) then Err MalformedPath
                    else
                      let* parts := py_iter v0 in
                      let* t := path_from_part_specs parts in
                      let mods := map (fun m => match assoc_str m (sx_suffix_lookup X) with Some m' => m' | None => m end) (tl toks) in
                      (fix go (ms done : list string) : res (pathterm pyval + pyval) :=
                         match ms with
                         | [] => Ok (inl {| pt_parts := pt_parts t; pt_mods := done; pt_src := None |})
                         | m :: r =>
                             if negb (existsb (String.eqb m) (sx_allowed_suffixes X)) then Err MalformedPath
                             else
                               let t' := {| pt_parts := pt_parts t; pt_mods := done ++ [m]; pt_src := None |} in
                               let* _ := mk_path T id0 t' in go r (done ++ [m])
                         end) mods []
                | _ => Err MalformedPath
                end
            end
      | _ => Err MalformedPath
      end.
  End PartRec.

  (* tie the knot: conditions inside paths (stratum 0) may again contain path specs *)
  Fixpoint cond0_from_spec (fuel : nat) (spec : pyval) : res (dslc pyval * cond pyval) :=
    match fuel with
    | O => Err RecursionError
    | S f =>
        cond_from_spec_step pyval id0 inert0 inert0 (path_from_spec0 (cond0_from_spec f)) (cond0_from_spec f) spec
    end.

  Definition spec_fuel : nat := 40.

  Definition path_from_spec (spec : pyval) : res (pathterm pyval + pyval) :=
    path_from_spec0 (cond0_from_spec spec_fuel) spec.
  Definition part_spec_parse (d : list (pyval * pyval)) : res (pterm pyval) :=
    part_from_spec (cond0_from_spec spec_fuel) d.
  Definition from_part_specs (l : list pyval) : res (pathterm pyval) :=
    path_from_part_specs (cond0_from_spec spec_fuel) l.

  (* conditions of rules (stratum 1): path arguments are kept as paths *)
  Definition cond1_from_spec (spec : pyval) : res (dslc arg1 * cond arg1) :=
    cond_from_spec arg1 ALit (APath 0%N) inert0 path_from_spec spec_fuel spec.

End Parsers.
