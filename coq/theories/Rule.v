(* Model of valida/rules.py, the cast write-back of valida/data.py and Schema.validate. *)
From Coq Require Import ZArith NArith List Bool String Ascii Lia.
From Valida Require Import Py Lang Defs Cond Dsl Path Cast RuleDefs.
Import ListNotations.
Local Open Scope string_scope.
Local Open Scope list_scope.
Local Open Scope Z_scope.

Section RuleModel.
  Variable T : tables.

  Definition lit1 (v : pyval) : arg1 := ALit v.
  Definition res0' (v : pyval) : res pyval := Ok v.
  Definition id0 (v : pyval) : pyval := v.

  (* an argument is resolved against the source document when there is one *)
  Definition resolve1 (src : option pyval) (a : arg1) : res pyval :=
    match a with
    | ALit v => Ok v
    | APath tag pt =>
        match src with
        | None => Ok (VObj tag)
        | Some doc => let* p := mk_path T id0 pt in get_data T res0' p (Some doc) false
        end
    end.

  Record rule := {
    r_path : dpath pyval;
    r_cond : cond arg1;
    r_cast : list (pytype * castfn)
  }.

  Record failure := { f_index : Z; f_value : pyval; f_path : pyval; f_reasons : nat }.

  Record rtest := {
    rt_valid : bool;
    rt_tested : bool;
    rt_failures : list failure;
    rt_data : pyval          (* the document the rule was judged on *)
  }.

  (* sub_data = path.get_data(data, return_paths=True), normalised to a list of (value, path) *)
  Definition selection (p : dpath pyval) (doc : pyval) : res (list (pyval * pyval)) :=
    let* sub := get_data T res0' p (Some doc) true in
    let as_pair (x : pyval) : res (pyval * pyval) :=
      match x with VTuple [v; cp] => Ok (v, cp) | _ => Err TypeError end in
    if p_concrete p then
      match sub with
      | VNone => Ok []
      | x => let* pr := as_pair x in Ok [pr]
      end
    else
      match sub with
      | VList l => mapM as_pair l
      | _ => Err TypeError
      end.

  Fixpoint first_cast (casts : list (pytype * castfn)) (v : pyval) : option pyval :=
    match casts with
    | [] => None
    | (t, f) :: r =>
        if inst_of v t then
          match apply_cast f v with
          | Ok v' => Some v'
          | Err _ => first_cast r v     (* only TypeError / ValueError occur; checked by the cast-error lemma *)
          end
        else first_cast r v
    end.

  Definition path_keys (cp : pyval) : list pyval := match cp with VTuple l => l | _ => [] end.

  (* the cast loop: selection on the original, writes into the copy *)
  Fixpoint cast_loop (casts : list (pytype * castfn)) (sel : list (pyval * pyval)) (copy : pyval) : res pyval :=
    match sel with
    | [] => Ok copy
    | (v, cp) :: r =>
        match first_cast casts v with
        | Some v' =>
            match path_keys cp with
            | [] => cast_loop casts r copy
            | ks => match set_at copy ks v' with
                    | Some copy' => cast_loop casts r copy'
                    | None => Err KeyError
                    end
            end
        | None => cast_loop casts r copy
        end
    end.

  Fixpoint has_non_value_leaf {A} (c : cond A) : bool :=
    match c with
    | CLeaf l => negb (dkind_eqb (l_kind l) DValue)
    | CBin _ a b => has_non_value_leaf a || has_non_value_leaf b
    end.

  Fixpoint failures_of (i : nat) (f : fres) (sel : list (pyval * pyval)) (res : list bool) : list failure :=
    match sel, res with
    | (v, cp) :: r, b :: bs =>
        if b then failures_of (S i) f r bs
        else {| f_index := Z.of_nat i; f_value := v; f_path := cp; f_reasons := num_reasons f i |} :: failures_of (S i) f r bs
    | _, _ => []
    end.

  (* RuleTest._test on the document the rule is judged on *)
  Definition judge (r : rule) (doc : pyval) : res rtest :=
    let* sel := selection (r_path r) doc in
    match sel with
    | [] => Ok {| rt_valid := true; rt_tested := false; rt_failures := []; rt_data := doc |}
    | _ :: _ =>
        let c := r_cond r in
        let* _ := match c with
                  | CLeaf l => match l_kind l with DKey => Err TypeError | _ => Ok tt end
                  | _ => Ok tt
                  end in
        let* _ := if has_non_value_leaf c then Err TypeError else Ok tt in
        let d := {| d_is_list := true; d_keys := zrange_from 0 (List.length sel); d_vals := map fst sel |} in
        let* f := filter_tree T (resolve1 (Some doc)) c d in
        Ok {| rt_valid := forallb (fun b => b) (fr_result f); rt_tested := true;
              rt_failures := failures_of 0 f sel (fr_result f); rt_data := doc |}
    end.

  (* Rule.test(data, _data_copy): data must be a non-empty container *)
  Definition rule_test (r : rule) (doc : pyval) (copy : option pyval) : res (rtest * pyval) :=
    let* _ := mk_data doc in
    match r_cast r with
    | [] => let* t := judge r doc in Ok (t, match copy with Some c => c | None => doc end)
    | casts =>
        let cp0 := match copy with Some c => c | None => doc end in
        let* sel := selection (r_path r) doc in
        let* cp1 := cast_loop casts sel cp0 in
        let* t := judge r cp1 in Ok (t, cp1)
    end.

  (* ---- schemas ---- *)

  Fixpoint insert_by_len (r : rule) (l : list rule) : list rule :=
    match l with
    | [] => [r]
    | x :: xs => if (List.length (p_parts (r_path x)) <? List.length (p_parts (r_path r)))%nat
                 then x :: insert_by_len r xs else r :: x :: xs
    end.
  (* sorted(rules, key=len(path)): stable *)
  Definition sort_rules (rs : list rule) : list rule := fold_right insert_by_len [] rs.

  Record vresult := {
    v_valid : bool; v_num_failures : nat; v_num_tested : nat;
    v_tests : list rtest; v_cast_data : pyval
  }.

  Fixpoint run_rules (rs : list rule) (doc copy : pyval) : res (list rtest * pyval) :=
    match rs with
    | [] => Ok ([], copy)
    | r :: rest =>
        let* (t, copy') := rule_test r doc (Some copy) in
        let* (ts, copy'') := run_rules rest doc copy' in
        Ok (t :: ts, copy'')
    end.

  (* A failure's value is a reference into the document the rule was judged on.  For a rule with
     casts that is the shared copy, which later rules keep writing to: a container value therefore
     shows the final state of the copy (scalars are immutable and stay as judged). *)
  Definition refresh_failure (final : pyval) (f : failure) : failure :=
    {| f_index := f_index f; f_value := refreshed_value final (f_value f) (path_keys (f_path f));
       f_path := f_path f; f_reasons := f_reasons f |}.
  Definition refresh_test (final : pyval) (r : rule) (t : rtest) : rtest :=
    match r_cast r with
    | [] => t
    | _ => {| rt_valid := rt_valid t; rt_tested := rt_tested t;
              rt_failures := map (refresh_failure final) (rt_failures t); rt_data := rt_data t |}
    end.
  Fixpoint refresh_tests (final : pyval) (rs : list rule) (ts : list rtest) : list rtest :=
    match rs, ts with r :: rs', t :: ts' => refresh_test final r t :: refresh_tests final rs' ts' | _, _ => [] end.

  Definition validate (rules : list rule) (doc : pyval) : res vresult :=
    let* _ := mk_data doc in
    let* (ts0, copy) := run_rules (sort_rules rules) doc doc in
    let ts := refresh_tests copy (sort_rules rules) ts0 in
    Ok {| v_valid := forallb rt_valid ts;
          v_num_failures := fold_right (fun t n => (List.length (rt_failures t) + n)%nat) O ts;
          v_num_tested := List.length (filter rt_tested ts);
          v_tests := ts; v_cast_data := copy |}.

  (* data-path arguments are objects built before the constructor that receives them is called *)
  Definition check_arg (a : arg1) : res unit :=
    match a with ALit _ => Ok tt | APath _ pt => let* _ := mk_path T id0 pt in Ok tt end.
  Fixpoint check_args (l : list arg1) : res unit :=
    match l with [] => Ok tt | a :: r => let* _ := check_arg a in check_args r end.
  Fixpoint check_kw (l : list (string * arg1)) : res unit :=
    match l with [] => Ok tt | (_, a) :: r => let* _ := check_arg a in check_kw r end.

  Fixpoint build1 (t : dslc arg1) : res (cond arg1) :=
    match t with
    | DLeaf cls m pos kw =>
        let* _ := check_args pos in
        let* _ := check_kw kw in
        let* l := build_leaf T lit1 cls m pos kw in Ok (CLeaf l)
    | DNull => Ok CNull
    | DBin o a b => let* x := build1 a in let* y := build1 b in mk_bin o x y
    end.

  Definition mk_rule (t : ruleterm) : res rule :=
    let* p := mk_path T id0 (rt_path_t t) in
    let* c := build1 (rt_cond_t t) in
    Ok {| r_path := p; r_cond := c; r_cast := rt_cast_t t |}.

  Fixpoint mk_rules (ts : list ruleterm) : res (list rule) :=
    match ts with [] => Ok [] | t :: r => let* x := mk_rule t in let* xs := mk_rules r in Ok (x :: xs) end.

End RuleModel.
