(* JSON-like round trip of RULES whose condition has data paths nested one level inside a list / tuple / mapping
   argument of a callable (NestedArgs.rule_n: the condition is a [cond narg]).

   Mirrors valida/rules.py:
     Rule.to_json_like   {"condition": self.condition.to_json_like(), "cast": self._cast_to_json_like(),
                          "path": self.path.to_json_like()}
     Rule.from_spec      path = DataPath.from_part_specs( *spec["path"] ); cond = ConditionLike.from_spec(spec["condition"]);
                         doc; cast
     Rule.__eq__         path, condition, cast
   These are SpecIO.rule_to_json / SpecIO.rule_from_spec / Eq.rule_eqb with the condition serialiser, parser and equality
   of NestedIO.v (condn_to_json / condn_from_spec / condn_eqb) in place of cond1_to_json / cond1_from_spec / cond1_eqb.
   SpecIO.rule_to_json is not parametric in the condition serialiser, so its few lines are copied.

   No proofs here; the theorems are in Proofs/C13NestedProof.v. *)
From Coq Require Import ZArith NArith List Bool String Ascii.
From Valida Require Import Py Lang Defs Cond Dsl Path Cast Str SpecDefs RuleDefs Rule Spec SpecIO Eq Inst RunSpec
  NestedArgs NestedIO.
Import ListNotations.
Local Open Scope string_scope.
Local Open Scope list_scope.

(* ------------------------------------------------------------------ *)
(* 1. Rule.to_json_like                                                  *)

(* copy of SpecIO.rule_to_json (same order of evaluation: condition, cast, path) on a built rule_n;
   [cast_given]: the `cast` attribute is a mapping (not None), as in SpecIO.rule_to_json *)
Definition rule_n_to_json (r : rule_n) (cast_given : bool) : res pyval :=
  let* cj := condn_to_json (rn_cond r) in
  let* kj := cast_to_json X (rn_cast r) cast_given in
  let* pj := path_to_part_specs T X (rn_path r) in
  Ok (VDict [(VStr "condition", cj); (VStr "cast", kj); (VStr "path", pj)]).

(* ------------------------------------------------------------------ *)
(* 2. Rule.from_spec                                                     *)

(* copy of SpecIO.rule_from_spec with condn_from_spec for the condition.  The Python code builds the objects as it goes
   (the DataPath right after from_part_specs, the condition inside ConditionLike.from_spec), so the result is the built
   rule_n: the path object of the term read, the condition object the parser built (snd of condn_from_spec), the casts;
   next to it, as in SpecIO.rule_from_spec, the normalised doc and whether a cast block was given *)
Definition rule_n_from_spec (spec : pyval) : res (rule_n * rule_extra) :=
  let* pv := get_item spec "path" in
  let* parts := py_iter pv in
  let* pt := from_part_specs T X parts in
  let* p := mk_path T Rule.id0 pt in
  let* cv := get_item spec "condition" in
  let* (_, c) := condn_from_spec cv in
  let* doc := norm_doc (get_opt spec "doc") in
  let* (casts, given) := parse_casts X (get_opt spec "cast") in
  Ok ({| rn_path := p; rn_cond := c; rn_cast := casts |}, {| rx_doc := doc; rx_cast_given := given |}).

(* ------------------------------------------------------------------ *)
(* 3. Rule.__eq__                                                        *)

(* copy of Eq.rule_eqb: path, condition, cast (None and {} are different objects: given-ness is compared) *)
Definition rule_n_eqb (a b : rule_n) (ga gb : bool) : bool :=
  path_eqb (rn_path a) (rn_path b) && condn_eqb (rn_cond a) (rn_cond b)
  && casts_eqb (rn_cast a) (rn_cast b) && Bool.eqb ga gb.

(* ------------------------------------------------------------------ *)
(* 4. entry points for a harness                                         *)

(* rule.to_json_like(), then Rule.from_spec on it: (json, json is pure, rebuilt == original) for a built rule *)
Definition rule_n_roundtrip (r : rule_n) (cast_given : bool) : res pyval :=
  let* j := rule_n_to_json r cast_given in
  let* (r', ex) := rule_n_from_spec j in
  Ok (VTuple [j; VBool (json_pure j); VBool (rule_n_eqb r' r (rx_cast_given ex) cast_given)]).

(* the same for a rule written with the API (NestedArgs.mk_rule_n; the input of NestedArgs.run_rule_test_n) and an
   explicit flag: cast_given = false is Rule(path, cond, cast=None), true is cast={...} (possibly {}) *)
Definition run_rule_n_roundtrip_g (rt : ruleterm_n) (cast_given : bool) : res pyval :=
  let* r := mk_rule_n rt in rule_n_roundtrip r cast_given.

(* Rule(path, cond, cast).to_json_like() round trip, `cast` being None when the term has no casts and the mapping
   of its casts otherwise *)
Definition run_rule_n_roundtrip (rt : ruleterm_n) : res pyval :=
  run_rule_n_roundtrip_g rt (match rtn_cast rt with [] => false | _ :: _ => true end).

(* Rule(...).to_json_like() alone *)
Definition run_rule_n_to_json (rt : ruleterm_n) (cast_given : bool) : res pyval :=
  let* r := mk_rule_n rt in rule_n_to_json r cast_given.

(* the round trip followed by a test of both rules on a document:
   (json, pure, ==, test of the original, test of the rebuilt rule) with the observation of NestedArgs.run_rule_test_n *)
Definition obs_test_n (x : res (rtest * pyval)) : pyval :=
  match x with
  | Ok (t, cp) => VTuple [RunRule.obs_rtest t; rt_data t; cp]
  | Err _ => VNone
  end.

Definition run_rule_n_roundtrip_test (rt : ruleterm_n) (cast_given : bool) (doc : pyval) : res pyval :=
  let* r := mk_rule_n rt in
  let* j := rule_n_to_json r cast_given in
  let* (r', ex) := rule_n_from_spec j in
  Ok (VTuple [j; VBool (json_pure j); VBool (rule_n_eqb r' r (rx_cast_given ex) cast_given);
              obs_test_n (rule_test_n r doc None); obs_test_n (rule_test_n r' doc None)]).

(* ------------------------------------------------------------------ *)
(* 5. schemas: lists of rules, element-wise (cf. C13Proof.schema_to_json / schema_from_json, C14Proof.schema_eqb) *)

(* a Rule object: the rule and whether its `cast` attribute is a mapping (not None) *)
Definition rule_n_obj : Type := (rule_n * bool)%type.

(* Schema.to_json_like(): [rule.to_json_like() for rule in rules] *)
Definition schema_n_to_json (s : list rule_n_obj) : res pyval :=
  let* js := mapM (fun rg : rule_n_obj => rule_n_to_json (fst rg) (snd rg)) s in Ok (VList js).

(* Schema.from_json_like(): [Rule.from_json_like(i) for i in json_like] *)
Definition rule_n_from_json (j : pyval) : res rule_n_obj :=
  let* (r, ex) := rule_n_from_spec j in Ok (r, rx_cast_given ex).
Definition schema_n_from_json (j : pyval) : res (list rule_n_obj) :=
  let* items := py_iter j in mapM rule_n_from_json items.

(* == rule by rule *)
Definition schema_n_eqb (a b : list rule_n_obj) : bool :=
  list_eqb (fun x y => rule_n_eqb (fst x) (fst y) (snd x) (snd y)) a b.

(* [Rule(...) for ...] written, read back: (json, pure, rebuilt == original) *)
Definition run_schema_n_roundtrip (rts : list (ruleterm_n * bool)) : res pyval :=
  let* s := mapM (fun x : ruleterm_n * bool => let* r := mk_rule_n (fst x) in Ok (r, snd x)) rts in
  let* j := schema_n_to_json s in
  let* s' := schema_n_from_json j in
  Ok (VTuple [j; VBool (json_pure j); VBool (schema_n_eqb s' s)]).
