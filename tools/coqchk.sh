#!/bin/bash
# Independent re-check of the compiled property files (and everything they depend on) with coqchk, printing the axioms they
# rely on.  About 70 s.  Expected: "Axioms: <none>".
cd "$(dirname "$0")/../coq" || exit 2
mods=""
for f in theories/Properties/C*.v; do b=$(basename "$f" .v); mods="$mods Valida.Properties.$b"; done
exec timeout 3000 coqchk -silent -o -Q theories Valida $mods
