#!/usr/bin/env python3
"""Evaluate one seeded change: tools/seed_eval.py <seed-id> [--wt DIR] [--checks C01,C05] [--tier quick]

1. (if the scratch worktree still exists) confirm: demo passes on the pinned code, fails with the
   change, and the repository's test suite passes with the change; copy the deliverables to
   /verif/seeded/<seed-id>/.
2. apply the patch to /repo, rebuild (./check --setup) and run the named checks, record for each the
   exit status and VIOLATION lines in /verif/seeded/<seed-id>/result.json, undo the patch.
Nothing is ever committed to /repo.  Evidence written during the run is restored from git afterwards.
"""
import json, os, shutil, subprocess, sys, time

V = "/verif"
PY = "/venv/bin/python"


def sh(cmd, cwd=None, env=None, timeout=3600):
    e = dict(os.environ)
    if env:
        e.update(env)
    p = subprocess.run(cmd, shell=True, cwd=cwd, env=e, stdout=subprocess.PIPE, stderr=subprocess.STDOUT, text=True, timeout=timeout)
    return p.returncode, p.stdout


def main():
    a = sys.argv[1:]
    sid = a[0]
    wt = a[a.index("--wt") + 1] if "--wt" in a else f"/tmp/seed/{sid}"
    prop = sid[:3]
    checks = a[a.index("--checks") + 1].split(",") if "--checks" in a else [prop]
    tier = a[a.index("--tier") + 1] if "--tier" in a else "quick"
    out = os.path.join(V, "seeded", sid)
    os.makedirs(out, exist_ok=True)
    res = {"seed": sid, "property": prop, "checked_at": time.strftime("%Y-%m-%dT%H:%M:%S"), "confirm": {}, "checks": {}}
    rp = os.path.join(out, "result.json")
    if os.path.exists(rp):
        try:
            res["confirm"] = json.load(open(rp)).get("confirm", {})
        except Exception:
            pass
    if os.path.isdir(os.path.join(wt, "_seed")) and not os.path.exists(os.path.join(out, "patch.diff")):
        for f in ("patch.diff", "demo.py", "meta.json"):
            shutil.copy(os.path.join(wt, "_seed", f), os.path.join(out, f))
    patch = os.path.join(out, "patch.diff")
    iso = "--isolated" in a
    # a scratch worktree of /repo's HEAD of our own (never the seed author's: `git stash` is shared between worktrees)
    R2 = f"/tmp/vs/{sid}" + os.environ.get("SEED_EVAL_TAG", "") + "_repo"
    os.makedirs("/tmp/vs", exist_ok=True)
    sh(f"git worktree remove --force {R2}", cwd="/repo")
    shutil.rmtree(R2, ignore_errors=True)
    rc, o = sh(f"git worktree add --detach {R2} HEAD", cwd="/repo")
    if rc != 0:
        print("cannot create worktree:", o)
        sys.exit(2)
    os.makedirs(os.path.join(R2, "_seed"))
    shutil.copy(os.path.join(out, "demo.py"), os.path.join(R2, "_seed", "demo.py"))
    env = {"PYTHONPATH": R2, "PYTHONHASHSEED": "0", "PYTHONDONTWRITEBYTECODE": "1"}
    rc_without, o_without = sh(f"{PY} _seed/demo.py", cwd=R2, env=env, timeout=600)
    rc, o = sh(f"git apply {patch}", cwd=R2)
    if rc != 0:
        print("patch does not apply to HEAD:", o)
        sh(f"git worktree remove --force {R2}", cwd="/repo")
        sys.exit(2)
    rc_with, o_with = sh(f"{PY} _seed/demo.py", cwd=R2, env=env, timeout=600)
    rc_t, o_t = sh(f"{PY} -m pytest -q -p no:cacheprovider -x 2>&1 | tail -3", cwd=R2, env=env, timeout=1800)
    res["confirm"] = {"demo_with_change_exit": rc_with, "demo_with_change_tail": o_with[-600:],
                      "demo_without_change_exit": rc_without, "tests_with_change": o_t.strip().splitlines()[-1] if o_t.strip() else "",
                      "ok": rc_with != 0 and rc_without == 0 and " passed" in o_t and "failed" not in o_t}
    print("confirm:", json.dumps({k: v for k, v in res["confirm"].items() if k != "demo_with_change_tail"}))
    env = None
    if iso:
        # an isolated copy of /verif run against the scratch worktree (which has the change applied): does not
        # disturb builds going on in /verif.  The literal procedure (apply to /repo) is the default mode.
        V2 = f"/tmp/vs/{sid}" + os.environ.get("SEED_EVAL_TAG", "")
        shutil.rmtree(V2, ignore_errors=True)
        sh(f"rsync -a --exclude .git --exclude _build/cases --exclude seeded /verif/ {V2}/")
        env = {"VALIDA_REPO": R2}
        res["mode"] = "isolated copy of /verif against a scratch worktree of /repo's HEAD with the patch applied"
        Vrun = V2
    else:
        sh(f"git worktree remove --force {R2}", cwd="/repo")
        res["mode"] = "patch applied to /repo"
        Vrun = V
        rc, o = sh("git status --porcelain", cwd="/repo")
        if o.strip():
            print("refusing: /repo is not clean:\n" + o)
            sys.exit(2)
        rc, o = sh(f"git apply {patch}", cwd="/repo")
        if rc != 0:
            print("patch does not apply:", o)
            sys.exit(2)
    try:
        t0 = time.time()
        rc, o = sh("./check --setup", cwd=Vrun, env=env, timeout=5400)
        res["setup"] = {"exit": rc, "seconds": round(time.time() - t0), "tail": o[-1500:]}
        print("setup exit", rc, "in", round(time.time() - t0), "s")
        for c in checks:
            t0 = time.time()
            rc, o = sh(f"./check {c} --tier {tier}", cwd=Vrun, env=env, timeout=7200)
            lines = [l for l in o.splitlines() if l.startswith("VIOLATION") or l.startswith("KNOWN-FINDING")]
            res["checks"][c] = {"exit": rc, "seconds": round(time.time() - t0), "lines": lines, "tail": o[-2500:]}
            print(c, "exit", rc, "|", "; ".join(lines)[:400])
            # keep the replay of the first violation with the seed
            for l in lines:
                if l.startswith("VIOLATION") and "replay=" in l:
                    p = os.path.join(Vrun, l.split("replay=")[1].split()[0])
                    if os.path.exists(p):
                        shutil.copy(p, os.path.join(out, f"replay_{c}.json"))
                    break
    finally:
        if iso:
            shutil.rmtree(Vrun, ignore_errors=True)
            sh(f"git worktree remove --force {R2}", cwd="/repo")
        else:
            sh("git checkout -- .", cwd="/repo")
            sh("git checkout -- evidence", cwd=V)
    res["caught_by"] = sorted(c for c, r in res["checks"].items() if r["exit"] != 0)
    if "--no-record" not in a:
        json.dump(res, open(rp, "w"), indent=1)
    print("caught_by:", res["caught_by"])


if __name__ == "__main__":
    main()
