#!/usr/bin/env python3
"""Regenerate MANIFEST.json from the table below (claimed properties) and properties.jsonl."""
import json, os
V = os.path.dirname(os.path.dirname(os.path.abspath(__file__)))
props = [json.loads(l)["id"] for l in open(os.path.join(V, "properties.jsonl"))]

NOTE = ("Trusted: Coq 8.16.1 kernel and vm_compute (no native_compute, no extraction); the fail-closed translator "
        "harness/translate.py; Layer P as a model of CPython's operators (validated by pysem); the Python correspondence harness. "
        "Theorems are about the model; the model is tied to /repo on every run by (T) regenerating tables / callable bodies / "
        "except clauses / object-protocol flags from the source and (K) evaluating the model inside Coq on generated cases "
        "against the implementation; (O) the hand-written specification, independent of the generated files, judges the "
        "implementation on the same cases and supplies the concrete replay.")

CLAIMS = {
 "C01": ("Theorem C01_result (closed under the global context): for every DSL leaf (7 classes x 32 constructors x arbitrary argument values) and every document value, the model of leaf.filter(doc) - running the callable bodies, constructor table and except clauses translated from the current source - equals the specification (one boolean per item = documented meaning, undefined => False, never an error; data / keys / failure_indices the induced partition; wrong container refused with TypeError).",
         "Coq proof model = spec (induction over items, 32 per-constructor tie lemmas, error-class lemmas) + source translator + in-Coq differential correspondence + spec oracle"),
 "C02": ("Theorems C02_pointwise (every and/or/xor tree with null operands anywhere, every document: model of build+filter = pointwise Boolean spec, null = identity), C02_null_identity_*, and on an object-heap model of the ConditionBinaryOp(a, b) protocol whose guard flags are read from the source: C02_construct_frame (no existing object is written), C02_construct_refines (= pure combination), C02_operands_preserved (any history of constructions over shared objects preserves every object's denotation); C02_unguarded_refuted exhibits the repaired defect.",
         "Coq proofs (induction on trees; heap frame/refinement/history invariants) + protocol flags translated from source + correspondence on trees and construction histories"),
 "C03": ("Theorem C03_walk: for every API-built path (primitive, map, list, map-or-list parts with arbitrary condition trees, labels, modifiers, bound source), every document and return_paths flag, the model of get_data (the level-by-level frontier loop with lock-step concrete paths, TypeError = part does not apply) equals the part-by-part recursive walk specification; C03_each_once: concrete paths pairwise distinct.",
         "Coq proof model = spec (BFS frontier = DFS walk by flat_map associativity; construction lemmas) + correspondence over five entry points + spec oracle"),
 "C04": ("Theorems on the specification that the model provably computes (C04_model_is_spec): C04_paths_truthful (indexing the document along a reported path reaches the reported node), C04_paths_distinct, C04_values_same (without paths = with paths, stripped), C04_modifiers_commute, C04_concrete_refuses_multi; for all paths and all well-formed documents.",
         "Coq proofs on the walk specification (nested induction, NoDup of flat_map) + model = spec + correspondence with modifiers in both orders + direct re-indexing oracle on the implementation"),
 "C05": ("Theorem C05_verdict: for every rule with an API-built path and a value-kind and/or/xor condition tree (casts allowed) and every well-formed non-empty document, the model of Rule.test equals the specification: valid iff every node selected by the walk satisfies the tree, untested when nothing is selected, failures = the unsatisfied selected nodes in order with index, value and true concrete path (C04); C05_reason: every failing item has at least one reason, for any tree (induction on the truth tables the code assembles).",
         "Coq proofs: model = spec for rule tests (selection, judge, failures), reasons_nonempty by induction on condition trees + correspondence + spec oracle"),
 "C06": ("Theorems C06_model_is_spec (Schema.validate model = spec), C06_conj (validity = conjunction, failures = sum, tested = count), C06_sorted (stable sort by path length: Permutation + StronglySorted + ties keep order), C06_perm (cast-free schemas: every permutation of the rule list gives the same aggregates and a permutation of the per-rule verdicts).",
         "Coq proofs (insertion sort = stable permutation, permutation invariance of forallb / sums, model = spec) + correspondence on permuted schemas + direct permutation / report oracle on the implementation"),
 "C07": ("Theorem C07_total: for every schema of rules in the rule domain (API-built plain paths, buildable value-kind trees over all 32 callables, with or without casts) and every well-formed non-empty document, the model of Schema.validate - running the translated callable bodies under the translated except clauses - returns a result (no Err); C07_rule_total for Rule.test.",
         "Coq proof of totality as a corollary of model = spec (error-class lemmas for every operator; except clauses translated from source) + malformed-document correspondence stream"),
 "C15": ("Theorems C15_rule/schema_model_is_spec (casts included), and on the specification: C15_cast_applied (a castable selected node holds its cast value in the judged copy), C15_uncastable_left, C15_everywhere_else (every position that is neither a cast node nor above one reads type-exactly as in the input; get/set lemmas over dict keys of any type and list indices), C15_schema_cast_data (fold over rules in application order, selections on the original).",
         "Coq proofs (get_at / set_at algebra, divergence of distinct walk paths, fold invariants; model = spec) + correspondence on cast-dense documents"),
 "C09": ("Theorems on the model of ConditionLike.from_spec running on lookup tables, constructor tables and class tables translated from the current source: C09_leaf (every typed leaf of the DSL, 7 classes x 32 constructors, in its spec spelling parses to exactly the condition the DSL builds), C09_tree (and/or/xor lists = DSL operators, nulls dropped), C09_any_case (any letter case, any argument), C09_alias_* (type/dtype, len/length, in/in_), C09_type_name (type names vs type objects), C09_positional_or_keyword. Known finding D12 (arguments under dtype forced through the type table) is reported as KNOWN-FINDING.",
         "Coq proofs about the parser model (structural lemma parse_leaf_head + ~150 closed table facts) + correspondence of the parser on spelled DSL terms + direct == / behaviour oracle"),
 "C17": ("Theorems C17_subst (for every condition tree, argument position and document, replacing data-path arguments by the values they resolve to leaves the filter result unchanged), C17_rule_verdict (same for Rule.test without casts), C17_unresolvable_fails (an argument whose resolution raises a caught class fails the item, never aborts), C17_resolution_caught (the classes path resolution raises are in the except clause translated from source).",
         "Coq proofs on the model of per-evaluation argument resolution + correspondence + direct substitution oracle on the implementation + spec oracle (substituted rule)"),
 "C19": ("Theorems C19_condition / C19_path / C19_part / C19_part_specs / C19_rule: for EVERY value given as a spec (no well-formedness assumed; nesting depth below the model's fuel) the model of each parser accepts or fails with Malformed*, TypeError or ValueError (rules: also KeyError, and C19_rule_keyerror_names_field shows only for a missing 'path' / 'condition'); AttributeError, IndexError, StopIteration, RuntimeError, OtherExc branches of the model are proved unreachable from five facts about the generated tables.",
         "Coq proof by error-class analysis of the whole parser model (1500 lines) + correspondence on injected errors and arbitrary structural mutations (outcome class and parsed structure compared with the implementation)"),
}

def chk(pid):
    text, tech = CLAIMS[pid]
    return {"property_id": pid, "quick_cmd": f"./check {pid} --tier quick", "thorough_cmd": f"./check {pid} --tier thorough",
            "evidence_file": f"/verif/evidence/{pid}.json", "replay_cmd_template": f"./check {pid} --replay {{path}}",
            "engine": "coq-valida", "level_claimed": {"category": "proof", "text": text, "design_ref": f"DESIGN.md section 7 {pid}"},
            "level_note": NOTE, "technique": tech}

m = {"version": 1, "setup_cmd": "./check --setup",
     "hooks": {"guard": "VALIDA_VERIF", "enable": "no source hooks: the harness instruments valida from outside (snapshots, identity checks)",
               "baseline_off_cmd": "cd /repo && /venv/bin/python -m pytest -q -p no:cacheprovider", "source_commits": [], "add_only": True},
     "engines": [{"name": "coq-valida", "path": "/verif/coq", "serves_properties": sorted(CLAIMS),
                  "kind_free_text": "Coq 8.16.1 development: Layer P (Python values/operators), embedded Python fragment + evaluator, model of valida parametric in tables regenerated from /repo by harness/translate.py, hand-written specification, theorems model = spec and theorems about the spec; correspondence by in-Coq vm_compute of generated cases against the implementation"}],
     "checks": [chk(p) for p in sorted(CLAIMS)],
     "not_applicable": [{"property_id": p, "reason": "check under construction in this development (model / proof / harness not finished yet); not claimed until its theorem and correspondence run exist"} for p in props if p not in CLAIMS]}
json.dump(m, open(os.path.join(V, "MANIFEST.json"), "w"), indent=1)
print("claimed:", sorted(CLAIMS))
