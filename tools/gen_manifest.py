#!/usr/bin/env python3
"""Regenerate MANIFEST.json from the table below (claimed properties) and properties.jsonl."""
import json, os
V = os.path.dirname(os.path.dirname(os.path.abspath(__file__)))
props = [json.loads(l)["id"] for l in open(os.path.join(V, "properties.jsonl"))]

NOTE = ("Trusted: Coq 8.16.1 kernel and vm_compute (no native_compute, no extraction); the fail-closed translator "
        "harness/translate.py; Layer P as a model of CPython's operators (validated by pysem); the Python correspondence harness. "
        "Theorems are about the model; the model is tied to /repo on every run by (T) regenerating tables / callable bodies / "
        "except clauses / object-protocol flags from the source and (K) evaluating the model inside Coq on generated cases "
        "against the implementation; (O) the hand-written specification, independent of the generated files, judges the "
        "implementation on the same cases and supplies the concrete replay.")

CLAIMS = {
 "C01": ("Theorem C01_result (closed under the global context): for every DSL leaf (7 classes x 32 constructors x arbitrary argument values) and every document value, the model of leaf.filter(doc) - running the callable bodies, constructor table and except clauses translated from the current source - equals the specification (one boolean per item = documented meaning, undefined => False, never an error; data / keys / failure_indices the induced partition; wrong container refused with TypeError).",
         "Coq proof model = spec (induction over items, 32 per-constructor tie lemmas, error-class lemmas) + source translator + in-Coq differential correspondence + spec oracle"),
 "C02": ("Theorems C02_pointwise (every and/or/xor tree with null operands anywhere, every document: model of build+filter = pointwise Boolean spec, null = identity), C02_null_identity_*, and on an object-heap model of the ConditionBinaryOp(a, b) protocol whose guard flags are read from the source: C02_construct_frame (no existing object is written), C02_construct_refines (= pure combination), C02_operands_preserved (any history of constructions over shared objects preserves every object's denotation); C02_unguarded_refuted exhibits the repaired defect.",
         "Coq proofs (induction on trees; heap frame/refinement/history invariants) + protocol flags translated from source + correspondence on trees and construction histories"),
 "C03": ("Theorem C03_walk: for every API-built path (primitive, map, list, map-or-list parts with arbitrary condition trees, labels, modifiers, bound source), every document and return_paths flag, the model of get_data (the level-by-level frontier loop with lock-step concrete paths, TypeError = part does not apply) equals the part-by-part recursive walk specification; C03_each_once: concrete paths pairwise distinct.",
         "Coq proof model = spec (BFS frontier = DFS walk by flat_map associativity; construction lemmas) + correspondence over five entry points + spec oracle"),
 "C04": ("Theorems on the specification that the model provably computes (C04_model_is_spec): C04_paths_truthful (indexing the document along a reported path reaches the reported node), C04_paths_distinct, C04_values_same (without paths = with paths, stripped), C04_modifiers_commute, C04_concrete_refuses_multi; for all paths and all well-formed documents.",
         "Coq proofs on the walk specification (nested induction, NoDup of flat_map) + model = spec + correspondence with modifiers in both orders + direct re-indexing oracle on the implementation"),
}

def chk(pid):
    text, tech = CLAIMS[pid]
    return {"property_id": pid, "quick_cmd": f"./check {pid} --tier quick", "thorough_cmd": f"./check {pid} --tier thorough",
            "evidence_file": f"/verif/evidence/{pid}.json", "replay_cmd_template": f"./check {pid} --replay {{path}}",
            "engine": "coq-valida", "level_claimed": {"category": "proof", "text": text, "design_ref": f"DESIGN.md section 7 {pid}"},
            "level_note": NOTE, "technique": tech}

m = {"version": 1, "setup_cmd": "./check --setup",
     "hooks": {"guard": "VALIDA_VERIF", "enable": "no source hooks: the harness instruments valida from outside (snapshots, identity checks)",
               "baseline_off_cmd": "cd /repo && /venv/bin/python -m pytest -q -p no:cacheprovider", "source_commits": [], "add_only": True},
     "engines": [{"name": "coq-valida", "path": "/verif/coq", "serves_properties": sorted(CLAIMS),
                  "kind_free_text": "Coq 8.16.1 development: Layer P (Python values/operators), embedded Python fragment + evaluator, model of valida parametric in tables regenerated from /repo by harness/translate.py, hand-written specification, theorems model = spec and theorems about the spec; correspondence by in-Coq vm_compute of generated cases against the implementation"}],
     "checks": [chk(p) for p in sorted(CLAIMS)],
     "not_applicable": [{"property_id": p, "reason": "check under construction in this development (model / proof / harness not finished yet); not claimed until its theorem and correspondence run exist"} for p in props if p not in CLAIMS]}
json.dump(m, open(os.path.join(V, "MANIFEST.json"), "w"), indent=1)
print("claimed:", sorted(CLAIMS))
